"""Core of the checker: obligation registry, ledger, known findings, evidence, replay, exit codes.

Exit codes: 0 held (known findings printed), 1 violation (VIOLATION line), 2 undecided, 3 checker crash.
An obligation is a named proof goal generated from /repo's *current* source.  Its status is
  discharged  - the back end proved it (or, for bounded kinds, every explored case held)
  refuted     - the back end produced a counterexample / the structural comparison failed
  undecided   - solver unknown/timeout, construct outside the engine's subset, trapped observation
kind says what a discharge means:
  proved            unbounded deductive discharge
  arity_bounded     complete in shapes/values, bounded in arity (bound recorded)
  exhaustive_finite complete evaluation of a finite domain
  bounded           bounded stand-in (never counted as proved)
"""
import fnmatch
import hashlib
import json
import os
import sys
import time
import traceback

ROOT = os.path.dirname(os.path.dirname(os.path.abspath(__file__)))
REPO = os.environ.get("HV_REPO", "/repo")
# A run against another tree (HV_REPO: seeded changes on scratch copies) must not overwrite the evidence and replay files of
# the tree under verification: its outputs go to a scratch directory.
OUT = ROOT if os.path.realpath(REPO) == "/repo" else os.path.join("/root/scratch", "hv_other_tree_output")

DISCHARGED, REFUTED, UNDECIDED = "discharged", "refuted", "undecided"
KINDS = ("proved", "arity_bounded", "exhaustive_finite", "bounded")


class Ob:
    __slots__ = ("name", "status", "backend", "kind", "detail", "witness", "replay", "time")

    def __init__(self, name, status, backend, kind, detail=None, witness=None, replay=None, t=0.0):
        assert status in (DISCHARGED, REFUTED, UNDECIDED) and kind in KINDS, (status, kind)
        self.name, self.status, self.backend, self.kind = name, status, backend, kind
        self.detail, self.witness, self.replay, self.time = detail, witness, replay, t


class Check:
    def __init__(self, pid, tier="quick", seed=0, jobs=None):
        self.pid, self.tier, self.seed = pid, tier, seed
        self.jobs = jobs or min(16, os.cpu_count() or 1)
        self.obs = []
        self.names = set()
        self.functions = []          # functions under contract: "file::qualname"
        self.trusted = []            # trusted base / assumptions
        self.assumptions = []
        self.bounds = {}             # name -> stated bound
        self.samples = []
        self.notes = []
        self.canaries = []           # (name, refuted?) must-fail canaries
        self.extra = {}
        self.t0 = time.time()
        self.solver_time = 0.0
        self.level = "proof"
        self.explanation = ""
        self.evaluations = 0
        self.distinct = set()
        self.checker_cmd = f"./check {pid} --tier {tier}"

    # ---- registration -------------------------------------------------------------------
    def ob(self, name, ok, backend, kind="proved", detail=None, witness=None, replay=None, t=0.0):
        """Record an obligation.  ok: True (discharged), False (refuted), None (undecided)."""
        if name in self.names:
            # stable names must be unique; keep the worst status under the same name
            for o in self.obs:
                if o.name == name:
                    rank = {DISCHARGED: 0, UNDECIDED: 1, REFUTED: 2}
                    st = DISCHARGED if ok is True else REFUTED if ok is False else UNDECIDED
                    if rank[st] > rank[o.status]:
                        o.status, o.detail, o.witness, o.replay = st, detail, witness, replay
                    return o
        st = DISCHARGED if ok is True else REFUTED if ok is False else UNDECIDED
        o = Ob(name, st, backend, kind, detail, witness, replay, t)
        self.obs.append(o)
        self.names.add(name)
        self.solver_time += t
        return o

    def fn(self, *fns):
        for f in fns:
            if f not in self.functions:
                self.functions.append(f)

    def trust(self, *items):
        for i in items:
            if i not in self.trusted:
                self.trusted.append(i)

    def assume(self, *items):
        for i in items:
            if i not in self.assumptions:
                self.assumptions.append(i)

    def sample(self, s):
        if len(self.samples) < 12:
            self.samples.append(s)

    def canary(self, name, refuted):
        """A deliberately wrong clause; the engine must refute it, otherwise the run is void."""
        self.canaries.append((name, bool(refuted)))

    def case(self, key=None):
        """Count one explored case of a bounded/exhaustive component."""
        self.evaluations += 1
        if key is not None and len(self.distinct) < 2_000_000:
            self.distinct.add(key)

    # ---- findings / ledger --------------------------------------------------------------
    def _findings(self):
        p = os.path.join(ROOT, "known_findings.json")
        if not os.path.exists(p):
            return []
        data = json.load(open(p))
        out = [f for f in data.get("findings", []) if f.get("property") == self.pid]
        # per-property fragments (same format), kept in separate files
        import glob
        for q in sorted(glob.glob(os.path.join(ROOT, "known_findings.d", "*.json"))):
            out += [f for f in json.load(open(q)).get("findings", []) if f.get("property") == self.pid]
        return out

    def _ledger(self):
        p = os.path.join(ROOT, "obligations", f"{self.pid}.txt")
        if not os.path.exists(p):
            return None
        return [l.strip() for l in open(p) if l.strip() and not l.startswith("#")]

    def write_ledger(self):
        p = os.path.join(ROOT, "obligations", f"{self.pid}.txt")
        os.makedirs(os.path.dirname(p), exist_ok=True)
        with open(p, "w") as f:
            f.write(f"# obligations discharged on the unchanged tree for {self.pid} (tier {self.tier}); "
                    "written by ./check --write-ledger during development only\n")
            for o in sorted(self.obs, key=lambda o: o.name):
                if o.status == DISCHARGED:
                    f.write(o.name + "\n")

    # ---- replay files --------------------------------------------------------------------
    def write_replay(self, o, extra=None):
        d = os.path.join(OUT, "replays", self.pid)
        os.makedirs(d, exist_ok=True)
        h = hashlib.sha1(o.name.encode()).hexdigest()[:12]
        path = os.path.join(d, f"{h}.json")
        body = {
            "property": self.pid,
            "obligation": o.name,
            "backend": o.backend,
            "kind": o.kind,
            "status": o.status,
            "detail": o.detail,
            "witness": o.witness,
            "replay": o.replay,
            "command": f"./check {self.pid} --replay replays/{self.pid}/{h}.json",
        }
        if extra:
            body.update(extra)
        with open(path, "w") as f:
            json.dump(body, f, indent=1, default=repr)
        return os.path.relpath(path, ROOT) if OUT == ROOT else path

    # ---- finish --------------------------------------------------------------------------
    def finish(self, write_ledger=False):
        findings = self._findings()
        refuted = [o for o in self.obs if o.status == REFUTED]
        undecided = [o for o in self.obs if o.status == UNDECIDED]
        known, violations = [], []
        for o in refuted:
            f = next((f for f in findings
                      if any(fnmatch.fnmatchcase(o.name, pat) for pat in f.get("obligations", []))), None)
            (known if f else violations).append((o, f))
        # vacuity and canaries
        crash = None
        if not self.obs:
            crash = "no obligations were generated (vacuous run)"
        bad_canaries = [n for n, r in self.canaries if not r]
        if bad_canaries:
            crash = f"must-fail canary not refuted: {bad_canaries}"
        ledger = self._ledger()
        missing = []
        if ledger is not None and not write_ledger:
            have = {o.name: o for o in self.obs}
            for n in ledger:
                if n not in have:
                    missing.append(n)
        if write_ledger:
            self.write_ledger()

        show = os.environ.get("HV_SHOW")
        if show:
            for o in self.obs:
                if o.status != DISCHARGED and show in o.name:
                    print(f"--- {o.name} [{o.status}]\n{o.detail}\n{(o.witness or {}).get('emitted', '') if isinstance(o.witness, dict) else ''}")
        printed = set()
        for o, f in known:
            key = f.get("id", f.get("what"))
            if key not in printed:
                printed.add(key)
                print(f"KNOWN-FINDING: property={self.pid} {f.get('what')}")
        # confirmed counterexamples first; at most MAXV VIOLATION lines (every refuted obligation is in the evidence)
        MAXV = 8
        violations.sort(key=lambda of: (not (of[0].replay and of[0].replay.get("confirmed")), of[0].name))
        for o, _ in violations[:MAXV]:
            path = self.write_replay(o)
            concrete = bool(o.replay and o.replay.get("confirmed"))
            print(f"VIOLATION property={self.pid} replay={path}" + ("" if concrete else " no-failing-input-found"))
            print(f"  obligation: {o.name}")
            if o.detail:
                print("  " + str(o.detail)[:600].replace("\n", "\n  "))
        if len(violations) > MAXV:
            print(f"... and {len(violations) - MAXV} more refuted obligations (names in evidence/{self.pid}.json: refuted)")
        for o in undecided[:20]:
            print(f"UNDECIDED {o.name}: {str(o.detail)[:300]}")
        for n in missing[:20]:
            print(f"MISSING-OBLIGATION {n} (listed in obligations/{self.pid}.txt but not generated)")
        self.write_evidence(known, violations, undecided, missing)
        nd = sum(1 for o in self.obs if o.status == DISCHARGED)
        print(f"{self.pid} [{self.tier}] obligations={len(self.obs)} discharged={nd} refuted={len(refuted)} "
              f"(known findings: {len(known)}) undecided={len(undecided)} wall={time.time()-self.t0:.1f}s")
        if crash:
            print("CHECKER-ERROR " + crash)
            return 3
        if violations:
            return 1
        if undecided or missing:
            return 2
        return 0

    def write_evidence(self, known, violations, undecided, missing):
        by_backend, by_kind = {}, {}
        for o in self.obs:
            if o.status == DISCHARGED:
                by_backend[o.backend] = by_backend.get(o.backend, 0) + 1
                by_kind[o.kind] = by_kind.get(o.kind, 0) + 1
        counted = [o for o in self.obs if o.kind != "bounded"]
        known_names = {o.name for o, _ in known}
        n_ob = sum(1 for o in counted if o.name not in known_names)
        n_dis = sum(1 for o in counted if o.status == DISCHARGED)
        bounded = [o for o in self.obs if o.kind == "bounded"]
        samples = list(self.samples)
        for o in self.obs[:3]:
            samples.append({"obligation": o.name, "status": o.status, "backend": o.backend, "kind": o.kind})
        cov = {
            "obligations": n_ob,
            "discharged": n_dis,
            "checker_cmd": self.checker_cmd,
            "trusted_base": self.trusted,
            "functions_under_contract": self.functions,
            "discharged_by_backend": by_backend,
            "discharged_by_kind": by_kind,
            "bounded_stand_in_obligations": len(bounded),
            "bounded_stand_in_held": sum(1 for o in bounded if o.status == DISCHARGED),
            "bounds": self.bounds,
            "known_finding_obligations": sorted(known_names)[:50],
            "known_finding_obligation_count": len(known_names),
            "undecided": [o.name for o in undecided][:50],
            "refuted": [o.name for o, _ in violations][:200],
            "missing_from_ledger": missing[:50],
            "must_fail_canaries": [{"name": n, "refuted": r} for n, r in self.canaries],
            "solver_time_s": round(self.solver_time, 3),
            "samples": samples[:16],
            "explanation": self.explanation or "see DESIGN.md",
            "evaluations": max(self.evaluations, len(self.obs)),
            "distinct_nontrivial": max(len(self.distinct), len(self.names)),
            "rule": "one evaluation per explored case (shape vector x decision vector, SMT query, or finite-domain "
                    "element); distinct = distinct case keys / obligation names",
            "notes": self.notes,
        }
        if self.evaluations and len(self.distinct) == self.evaluations and any(o.kind == "exhaustive_finite" for o in self.obs):
            cov["exhaustive"] = True
        cov.update(self.extra)
        ev = {
            "property_id": self.pid,
            "tier": self.tier,
            "seed": int(self.seed),
            "level": self.level,
            "coverage": cov,
            "assumptions": self.assumptions + self.trusted,
            "wall_s": round(time.time() - self.t0, 3),
            "violations": len(violations),
        }
        d = os.path.join(OUT, "evidence")
        os.makedirs(d, exist_ok=True)
        with open(os.path.join(d, f"{self.pid}.json"), "w") as f:
            json.dump(ev, f, indent=1, default=repr)


def drop_evidence(pid):
    """On a checker crash no evidence is fabricated: a stale file is removed instead."""
    p = os.path.join(OUT, "evidence", f"{pid}.json")
    if os.path.exists(p):
        os.remove(p)


def spawn_pool(jobs):
    """A pool of freshly started interpreters (multiprocessing `spawn`).  Forked workers share the checker's pages
    copy-on-write; on this VM every reference-count write into such a page costs a slow page copy (transparent huge pages:
    2 MiB each), which made the enumerating checks spend most of their time in the kernel - measured: 45 ms per program in a
    forked worker against 4.6 ms in an independent process.  Worker functions must be importable module-level functions
    and tasks small picklable values."""
    import multiprocessing
    return multiprocessing.get_context("spawn").Pool(jobs)


def make_pool(jobs):
    """A fork-context multiprocessing.Pool whose workers start from a *shallow* call stack.  The pool is created inside a
    fresh thread: fork() continues only the calling thread, so the workers do not inherit the checker's deep stack.
    CPython 3.12 allocates the interpreter's frame stack in 16 KiB chunks and unmaps a chunk as soon as the stack falls
    below its boundary; hy's deeply recursive compiler running near such a boundary maps and unmaps a chunk thousands of
    times per second (measured here: most of the wall time of the enumerating checks was system time)."""
    import multiprocessing
    import threading
    box = []

    def target():
        try:
            box.append(multiprocessing.get_context("fork").Pool(jobs))
        except BaseException as e:  # noqa: BLE001
            box.append(e)
    t = threading.Thread(target=target)
    t.start()
    t.join()
    if isinstance(box[0], BaseException):
        raise box[0]
    return box[0]


# --- keeping pool workers out of the kernel ---------------------------------------------------------------------------
# CPython 3.12 keeps interpreter frames on a "data stack" made of 16 KiB chunks obtained with mmap and returned with munmap
# as soon as the stack falls below a chunk boundary.  hy's compiler recurses deeply: one compiled program crosses chunk
# boundaries about six times, i.e. six mmap/munmap pairs and two dozen page faults per program.  Alone that is cheap; with
# 16 workers faulting at once on this VM a fault costs ~0.6 ms and the enumerating checks spent more time in the kernel
# than in Python (measured: 12 ms system + 15 ms user per program against 4.6 ms in a single process).  A chunk is sized
# to the frame that needs it, doubled until it fits: a frame of slightly more than 128 KiB gets a 256 KiB chunk, and all
# frames nested under it live in the remaining ~128 KiB without any further mmap.  `roomy_call` runs f(arg) under such a
# frame (a function with 16 700 never-assigned locals); measured afterwards: 0 s system time, 6.6 ms user per program.
_NEVER = object()
_ns = {}
exec("def _big(f, arg, never):\n    if arg is never:\n        " + " = ".join(f"v{i}" for i in range(16700)) + " = None\n    return f(arg)\n", _ns)
_big = _ns["_big"]


def roomy_call(f, arg):
    return _big(f, arg, _NEVER)


def _roomy_chunk(fn, chunk):
    return roomy_call(lambda c: [fn(x) for x in c], chunk)


def pmap(pool, fn, tasks, chunksize=None):
    """pool.map with every chunk of tasks run under one roomy frame (see above).  `fn` must be a module-level function."""
    import functools
    tasks = list(tasks)
    if not tasks:
        return []
    n = chunksize or max(1, len(tasks) // (4 * 16))
    chunks = [tasks[i:i + n] for i in range(0, len(tasks), n)]
    out = []
    for part in pool.map(functools.partial(_roomy_chunk, fn), chunks, 1):
        out.extend(part)
    return out
