"""Replay of a refuted equivalence obligation against the real code (stub; see hv/concrete.py)."""
import json


def replay_mismatch(case, sv, wit):
    try:
        from hv import concrete
    except ImportError:
        return {"confirmed": False, "reason": "concrete runtime not available"}
    return concrete.replay_case(case, sv, wit)


def replay_file(path):
    d = json.load(open(path))
    print(json.dumps({k: d.get(k) for k in ("property", "obligation", "detail", "replay")}, indent=1, default=repr))
    rp = d.get("replay") or {}
    return 1 if rp.get("confirmed") else 2
