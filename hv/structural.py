"""Structural postconditions on rule emissions over the catalogue (hv.catalog)."""
from hv import core  # noqa: E402
import ast
import multiprocessing as mp
import traceback

import hy.models as hm
import hy.scoping as hsc
from hy.models import Expression, Symbol

from hv import catalog
from hv.symx import core as sx
from hv.symx.core import AbsExpr, AbsStmt, Tok

FORM_LINE = 10


def position(form, n):
    """Give the outer form the span [FORM_LINE, FORM_LINE+n+1]; un-positioned sub-models inherit it (this is what
    the reader's fill_pos/replace does); tokens sit on their own lines inside the span."""
    form.start_line, form.end_line = FORM_LINE, FORM_LINE + n + 1
    form.start_column, form.end_column = 1, 80
    return form.replace(form) if isinstance(form, hm.Sequence) else form


def make(entry, sv, extra_tok_kw=None):
    toks = []
    for i, s in enumerate(sv):
        if s == "N":
            sym = sx.S(f"u_n{i}")
            sym.start_line = sym.end_line = FORM_LINE + 1 + i
            sym.start_column = sym.end_column = 1
            toks.append(sym)
        else:
            toks.append(Tok(f"t{i}", s, line=FORM_LINE + 1 + i, **(extra_tok_kw or {})))
    form = entry.builder(*toks)
    form = position(form, len(sv))
    return toks, form


def scope_ctx_for(entry):
    if entry.in_function:
        def ctx(comp):
            args = ast.arguments(args=[], vararg=None, kwarg=None, posonlyargs=[], kwonlyargs=[], kw_defaults=[], defaults=[])
            return comp.scope.create(hsc.ScopeFn, args, False)
        return ctx
    if entry.in_class:
        return lambda comp: comp.scope.create(hsc.ScopeFn)
    return None


def emit(entry, sv, **kw):
    toks, form = make(entry, sv, **kw)
    out = sx.run_rule(form, scope_ctx=scope_ctx_for(entry))
    return toks, form, out


def nodes_of(result):
    out = []
    for s in result.stmts:
        out.extend(ast.walk(s))
    if result._expr is not None:
        out.extend(ast.walk(result._expr))
    return out


def all_user_names(form):
    """Mangled names (and name parts) the input program itself contains."""
    from hy.reader import mangle
    names = set()

    def go(x):
        if isinstance(x, Symbol):
            s = str(x)
            if s.strip("."):
                for part in s.split("."):
                    if part:
                        names.add(mangle(part))
        elif isinstance(x, hm.Keyword):
            if x.name:
                names.add(mangle(x.name))
                names.add(x.name)
        elif isinstance(x, hm.String):
            pass
        elif isinstance(x, hm.Sequence):
            for y in x:
                go(y)
    go(form)
    return names


# ---------------------------------------------------------------------------------------------
# generic parallel driver
# ---------------------------------------------------------------------------------------------
_CHECKERS = {}


def _work(task):
    cname, ename, sv = task
    try:
        entry = catalog.ENTRIES[ename]
        return (ename, sv) + tuple(_CHECKERS[cname](entry, sv))
    except Exception:  # noqa: BLE001
        return (ename, sv, "checker-error", traceback.format_exc()[-1500:], None)


def run(chk, cname, checker, names=None, prefix=None, backend="structural", kind_of=None):
    """checker(entry, sv) -> (status, detail, witness) with status in ok / violated / hy-error / undecided."""
    _CHECKERS[cname] = checker
    names = names or [n for n, e in catalog.ENTRIES.items() if catalog.supported(e)]
    tasks = [(cname, n, sv) for n in names for sv in catalog.vectors(catalog.ENTRIES[n])]
    if len(tasks) > 16 and chk.jobs > 1:
        import gc; gc.collect(); gc.freeze()  # forked workers then touch (copy) far fewer pages
        with mp.get_context("fork").Pool(min(chk.jobs, 16)) as pool:
            results = core.pmap(pool, _work, tasks, chunksize=max(1, len(tasks) // 128))
    else:
        results = [_work(t) for t in tasks]
    for ename, sv, status, detail, wit in results:
        oname = f"{prefix or cname}/{ename}/shapes={','.join(sv)}"
        chk.case((ename, sv))
        kind = kind_of(ename) if kind_of else "proved"
        if status == "ok" or status == "hy-error":
            chk.ob(oname, True, backend, kind, detail=detail)
        elif status == "violated":
            chk.ob(oname, False, backend, kind, detail=detail, witness=wit,
                   replay=(wit or {}).get("replay") if isinstance(wit, dict) else None)
        elif status == "undecided":
            chk.ob(oname, None, backend, kind, detail=detail)
        else:
            raise RuntimeError(f"checker error in {oname}:\n{detail}")
    # vacuity: a catalogue entry that the compiler rejects for every shape vector checks nothing (a misspelt schema looks exactly like
    # this); entries that are meant to be rejected say so (`rejected=True`)
    by_entry = {}
    for ename, sv, status, detail, wit in results:
        by_entry.setdefault(ename, []).append(status)
    dead = sorted(n for n, sts in by_entry.items() if all(x == "hy-error" for x in sts) and not getattr(catalog.ENTRIES[n], "rejected", False))
    chk.ob(f"{prefix or cname}/vacuity: every rule schema is accepted by the compiler for at least one shape vector", not dead, backend, "proved",
           detail=None if not dead else "rejected for every shape vector: " + ", ".join(dead))
    return results
