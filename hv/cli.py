"""./check <ID> [--tier quick|thorough] [--replay FILE] [--jobs N] [--write-ledger]"""
import argparse
import importlib
import os
import sys
import traceback

from hv import core


def main(argv=None):
    ap = argparse.ArgumentParser()
    ap.add_argument("pid")
    ap.add_argument("--tier", default=os.environ.get("VERIF_TIER", "quick"), choices=["quick", "thorough"])
    ap.add_argument("--replay")
    ap.add_argument("--jobs", type=int, default=None)
    ap.add_argument("--write-ledger", action="store_true")
    a = ap.parse_args(argv)
    seed = int(os.environ.get("VERIF_SEED", "0") or 0)
    pid = a.pid.upper()
    import hv.symx.core  # noqa: F401  (first: puts the tree under verification - /repo, or HV_REPO - on sys.path before any `import hy`)
    try:
        mod = importlib.import_module(f"hv.props.{pid.lower()}")
    except ModuleNotFoundError as e:
        if e.name == f"hv.props.{pid.lower()}":
            print(f"no check for {pid}", file=sys.stderr)
            return 3
        raise
    try:
        if a.replay:
            return mod.replay(a.replay)
        import shutil
        shutil.rmtree(os.path.join(core.OUT, "replays", pid), ignore_errors=True)
        chk = core.Check(pid, a.tier, seed, a.jobs)
        chk.level = getattr(mod, "META", {}).get("level", chk.level)      # the level the manifest claims (tools/gen_manifest.py reads the same META)
        mod.run(chk)
        rc = chk.finish(write_ledger=a.write_ledger)
        if os.environ.get("HV_RUSAGE"):
            import resource
            for nm, who in (("self", resource.RUSAGE_SELF), ("children", resource.RUSAGE_CHILDREN)):
                r = resource.getrusage(who)
                print(f"rusage {nm}: user={r.ru_utime:.1f}s sys={r.ru_stime:.1f}s minflt={r.ru_minflt} maxrss={r.ru_maxrss // 1024}MB")
        return rc
    except SystemExit:
        raise
    except BaseException:
        traceback.print_exc()
        core.drop_evidence(pid)
        print(f"CHECKER-ERROR {pid}: crashed (exit 3; never reported as a violation)")
        return 3


if __name__ == "__main__":
    sys.exit(main())
