"""Rule cases in which operands are variables bound by an enclosing `let` (shape "L"): compiled constructs must leave
user variables alone unless the program assigns them.  Shared by C12 (temporaries never clobber user names) and C06."""
from hv import rules
from hv.symx.core import E, S, Keyword, List

M = ("E", "SE", "L")      # operand kinds: pure expression, statements+expression, let-bound variable


def cases():
    C = rules.Case
    names = []

    def add(name, builder, n, shapes=M, **kw):
        C("uservar/" + name, builder, n, shapes, kind=kw.pop("kind", "arity_bounded"), wrap=False, **kw)
        names.append("uservar/" + name)
    for op in ("and", "or"):
        for n in (2, 3):
            add(f"{op}/{n}", lambda *o, op=op: E(S(op), *o), n)
    add("if", lambda c, a, b: E(S("if"), c, a, b), 3, kind="proved")
    add("if/nested-test", lambda a, b, c: E(S("if"), E(S("or"), a, b), c, a), 3)
    add("not", lambda a: E(S("not"), a), 1, kind="proved")
    add("do", lambda a, b: E(S("do"), a, b), 2)
    add("cond", lambda a, b, c, d: E(S("cond"), a, b, c, d), 4)
    add("setv-from", lambda a: E(S("do"), E(S("setv"), S("uy"), a), S("uy")), 1, kind="proved")
    add("setx-from", lambda a: E(S("setx"), S("uy"), a), 1, kind="proved")
    add("call", lambda f, a, b: E(f, a, b), 3)
    add("op/+", lambda a, b: E(S("+"), a, b), 2)
    add("try", lambda b, h, f: E(S("try"), b, E(S("except"), List([S("ue"), S("UExc")]), h), E(S("finally"), f)), 3)
    add("with", lambda m, b: E(S("with"), List([S("ua"), m]), b), 2)
    add("while", lambda c, b: E(S("while"), c, b), 2, [("E", "SE", "L"), ("E", "SE")],
        ctxkw=dict(atom_abrupt=("raise", "break", "continue"), abrupt_by={"t0": ("raise",)}))
    add("and-of-or", lambda a, b, c: E(S("and"), E(S("or"), a, b), c), 3)
    add("or-in-if-branch", lambda c, a, b: E(S("if"), c, E(S("or"), a, b), a), 3)
    add("match", lambda s, a: E(S("match"), s, S("up"), a), 2)
    add("list", lambda a, b: List([a, b]), 2)
    # an operand whose code is statements followed by a *user variable* (`(do STATEMENTS x)` compiles to exactly that): to a rule it
    # looks like a child that left its value in a temporary, but the variable is the user's and must keep its value
    SV = [("S",), ("L",), ("SE", "S", "T")]
    for op in ("and", "or"):
        add(f"{op}/first-operand-do-then-variable", lambda s, v, b, op=op: E(S(op), E(S("do"), s, v), b), 3, SV)
        add(f"{op}/middle-operand-do-then-variable", lambda s, v, a, b, op=op: E(S(op), a, E(S("do"), s, v), b), 4,
            [("S",), ("L",), ("E", "SE"), ("SE", "T")])
    add("if/test-do-then-variable", lambda s, v, a, b: E(S("if"), E(S("do"), s, v), a, b), 4, [("S",), ("L",), ("SE", "T"), ("SE", "T")])
    add("setv-from-do-then-variable", lambda s, v: E(S("do"), E(S("setv"), S("uy"), E(S("do"), s, v)), S("uy")), 2, [("S",), ("L",)])
    add("cond/test-do-then-variable", lambda s, v, a, b, c: E(S("cond"), E(S("do"), s, v), a, b, c), 5,
        [("S",), ("L",), ("SE", "T"), ("E", "SE"), ("SE", "T")])
    add("while/test-do-then-variable", lambda s, v, b: E(S("while"), E(S("do"), s, v), b), 3, [("S",), ("L",), ("E", "SE")],
        ctxkw=dict(atom_abrupt=("raise", "break", "continue"), abrupt_by={"t0": ("raise",)}))
    add("match/subject-do-then-variable", lambda s, v, a: E(S("match"), E(S("do"), s, v), S("up"), a), 3, [("S",), ("L",), ("SE", "T")])
    add("with/manager-do-then-variable", lambda s, v, b: E(S("with"), List([S("ua"), E(S("do"), s, v)]), b), 3, [("S",), ("L",), ("SE", "T")])
    return names
