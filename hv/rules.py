"""Rule-level equivalence obligations: the real rule function, run on every shape vector of opaque
children, must emit code whose pysem equals the hysem of the form (hv.equiv).  One obligation per
(rule case, shape vector); fixed-arity cases are `proved`, variadic ones `arity_bounded`."""
from hv import core  # noqa: E402
import multiprocessing as mp
import os
import time
import traceback

from hv import equiv, pysem
from hv.symx import core as sx

CASES = {}


class Case:
    def __init__(self, name, builder, n, shapes=sx.SHAPES_BASIC, kind="proved", ctxkw=None, fn=None,
                 expect_error=None, tok_kw=None, pre=None, expand=None, scope=None, wrap=True):
        self.name, self.builder, self.n, self.shapes, self.kind = name, builder, n, shapes, kind
        self.ctxkw = ctxkw or {}
        self.fn = fn
        self.expect_error = expect_error
        self.tok_kw = tok_kw or {}
        self.expand = expand
        self.scope = scope
        self.wrap = wrap
        CASES[name] = self


def vectors(case):
    if isinstance(case.shapes, (list, tuple)) and case.shapes and isinstance(case.shapes[0], (list, tuple)):
        import itertools
        return list(itertools.product(*case.shapes))     # per-slot shape alphabets
    return list(sx.shape_vectors(case.n, case.shapes))


def let_wrap(form, toks, sv):
    """Children of shape "L" are variables bound by an enclosing `let`: the form is compiled as
    (let [lv_i INIT_i ...] FORM [lv_i ...]) so that FORM's effects and the variables' values afterwards are observed (a compiled construct must leave user variables alone unless the program assigns them)."""
    ls = [t for t, s_ in zip(toks, sv) if s_ == "L"]
    if not ls:
        return form
    binds = []
    for i, l in enumerate(ls):
        binds += [l, sx.Tok(f"init{i}", "E", line=1)]
    return sx.E(sx.S("let"), sx.List(binds), form, sx.List(ls))


def _work(task):
    name, sv = task
    case = CASES[name]
    t0 = time.time()
    try:
        toks = sx.tokens(sv, **case.tok_kw)
        form = let_wrap(case.builder(*toks), toks, sv)
        out = sx.run_rule(form, scope_ctx=case.scope)
        if not out.ok:
            if sx.is_hy_user_error(out.exc):
                return (name, sv, "hy-error", f"{type(out.exc).__name__}: {str(out.exc)[:300]}", 0, time.time() - t0, None)
            return (name, sv, "internal-error",
                    "".join(traceback.format_exception_only(type(out.exc), out.exc))[:600], 0, time.time() - t0, None)
        try:
            n, bad = equiv.compare(out.result, form, expand=case.expand, **case.ctxkw)
        except pysem.Unsupported as e:
            return (name, sv, "unsupported", str(e), 0, time.time() - t0, sx.show(out.result))
        if bad:
            m = bad[0]
            wit = {"decisions": sorted((repr(k), v) for k, v in m.decisions.items()),
                   "emitted": sx.show(out.result), "got": repr(m.got), "want": repr(m.want)}
            return (name, sv, "mismatch", m.describe(), n, time.time() - t0, wit)
        info = dict(equiv.LAST)
        # Output contract on Result.temp_variables: if the rule hands out result temporaries, renaming them to a user
        # variable (what compile_assign does for `(setv x FORM)` / `(setx x FORM)`) must preserve the meaning.
        if out.result.temp_variables and case.wrap:
            for w in ("setv", "setx", "setv of a let-bound variable"):
                toks2 = sx.tokens(sv, **case.tok_kw)
                inner = case.builder(*toks2)
                if w == "setv of a let-bound variable":
                    # the assignment target is itself renamed by an enclosing let: every use of the renamed temporaries
                    # (stores and the loads of a short-circuit test alike) must follow
                    wform = let_wrap(sx.E(sx.S("let"), sx.List([sx.S("hv_x"), sx.Tok("hv_init", "E", line=1)]),
                                          sx.E(sx.S("setv"), sx.S("hv_x"), inner), sx.S("hv_x")), toks2, sv)
                else:
                    wform = let_wrap(sx.E(sx.S(w), sx.S("hv_x"), inner), toks2, sv)
                o2 = sx.run_rule(wform, scope_ctx=case.scope)
                if not o2.ok:
                    continue
                n2, bad2 = equiv.compare(o2.result, wform, expand=case.expand, **case.ctxkw)
                n += n2
                if bad2:
                    # intermediate / early stores into the assignment target are a recorded finding of their own
                    # (obligation rename/no-early-store/...); the contract proper is checked modulo them
                    n3, bad3 = equiv.compare(o2.result, wform, expand=case.expand, ignore_store="hv_x", **case.ctxkw)
                    if not bad3:
                        info["early_store"] = sx.show(o2.result)
                        bad2 = None
                if bad2:
                    m = bad2[0]
                    wit = {"decisions": sorted((repr(k), v) for k, v in m.decisions.items()), "wrap": w,
                           "emitted": sx.show(o2.result), "got": repr(m.got), "want": repr(m.want)}
                    return (name, sv, "mismatch", f"Result.temp_variables contract: ({w} hv_x FORM) renames the rule's "
                            "result temporaries and changes the meaning\n" + m.describe(), n, time.time() - t0, wit)
            info["wrapped"] = True
        return (name, sv, "ok", None, n, time.time() - t0, info)
    except Exception:  # noqa: BLE001
        return (name, sv, "checker-error", traceback.format_exc()[-1500:], 0, time.time() - t0, None)


def run_cases(chk, names, prefix="equiv", replay_fn=None):
    tasks = [(n, sv) for n in names for sv in vectors(CASES[n])]
    jobs = max(1, min(chk.jobs, len(tasks)))
    if jobs > 1 and len(tasks) > 8:
        ctx = mp.get_context("fork")
        import gc; gc.collect(); gc.freeze()  # forked workers then touch (copy) far fewer pages
        with ctx.Pool(jobs) as pool:
            results = core.pmap(pool, _work, tasks, chunksize=max(1, len(tasks) // (jobs * 8)))
    else:
        results = [_work(t) for t in tasks]
    paths = 0
    early = {}
    for name, sv, status, detail, n, dt, wit in results:
        case = CASES[name]
        oname = f"{prefix}/{name}/shapes={','.join(sv)}"
        paths += n
        chk.case((name, sv))
        if status == "ok":
            kind = case.kind
            if wit and wit.get("unstable_cuts"):
                # a loop was cut with a temporaries store that differs from the previous iteration's: only the
                # explored iterations are covered
                kind = "arity_bounded"
                chk.bounds.setdefault("loop iterations (unstable head store)", []).append(oname)
            chk.ob(oname, True, "enum-euf", kind, t=dt)
            if wit and wit.get("wrapped"):
                agg = early.setdefault(name, [0, None, kind])
                if "early_store" in wit and agg[1] is None:
                    agg[1] = f"shapes={','.join(sv)}\n{wit.get('early_store')}"
                agg[0] += 1
        elif status == "hy-error":
            if case.expect_error and case.expect_error(sv):
                chk.ob(oname, True, "structural", case.kind, detail="rejected with a Hy error as specified", t=dt)
            else:
                chk.ob(oname, False, "enum-euf", case.kind, detail="rule raised a Hy error where the documented "
                       "semantics give a meaning: " + detail, t=dt, witness={"shapes": sv})
        elif status == "mismatch":
            rp = None
            if replay_fn is not None:
                try:
                    rp = replay_fn(case, sv, wit)
                except Exception:  # noqa: BLE001
                    rp = {"confirmed": False, "error": traceback.format_exc()[-800:]}
            chk.ob(oname, False, "enum-euf", case.kind, detail=detail, witness=wit, replay=rp, t=dt)
        elif status == "internal-error":
            chk.ob(oname, False, "enum-euf", case.kind, detail="rule raised a non-Hy exception: " + detail, t=dt,
                   witness={"shapes": sv})
        elif status == "unsupported":
            chk.ob(oname, None, "enum-euf", case.kind, detail="outside pysem/hysem subset: " + detail, t=dt)
        else:
            raise RuntimeError(f"checker error in {oname}:\n{detail}")
    for name, (cnt, ex_, kind) in sorted(early.items()):
        chk.ob(f"rename/no-early-store/{name}", ex_ is None, "enum-euf", kind,
               detail=None if ex_ is None else "(setv x FORM): the rule's result temporary is renamed to x, so x is assigned "
               "while FORM is still being evaluated; first shape vector: " + ex_)
    chk.extra["paths_explored"] = chk.extra.get("paths_explored", 0) + paths
    return results
