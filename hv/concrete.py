"""Concrete runtime for the trace domain: replays a counterexample schema against the real code.

A schema (form over tokens, shape vector, decision vector) is instantiated with *logging forms*:
every token becomes a call of `_hv_rt.atom(kind, name)` that appends the same event pysem/hysem
append, returns a universal logging value `V(term)` and raises / answers truthiness exactly as the
decision vector says.  The instantiated Hy model tree is compiled by the real `hy_compile` (no
stubs) and executed by CPython; the observed trace/value is compared with the reference trace.
The same runtime executes an *emitted* AST natively, which validates pysem against CPython.
"""
import ast
import types

import hy
from hy.compiler import hy_compile
from hy.models import Expression, Integer, Keyword, List, String, Symbol

from hv import hysem, pysem
from hv.pysem import NONE, const
from hv.symx.core import AbsExpr, AbsStmt, Tok, S, E, run_rule, tokens


class LogExc(Exception):
    def __init__(self, term):
        super().__init__(repr(term))
        self.term = term


def term_of(x):
    if isinstance(x, V):
        return x.term
    if isinstance(x, LogExc):
        return x.term
    if isinstance(x, BaseException):
        return ("pyexc", type(x).__name__)
    if x is None or isinstance(x, (bool, int, float, complex, str, bytes)):
        return const(x)
    if isinstance(x, tuple):
        return ("pytuple",) + tuple(term_of(i) for i in x)
    if isinstance(x, list):
        return ("pylist",) + tuple(term_of(i) for i in x)
    return ("pyobj", type(x).__name__)


class RT:
    """Concrete counterpart of pysem.Ctx with a fixed decision map."""

    def __init__(self, decisions, atom_abrupt=("raise",)):
        self.dec = dict(decisions)
        self.trace, self.count, self.memo = [], {}, {}
        self.uservals = {}
        self.atom_abrupt = atom_abrupt
        self.unsupported = None

    def occ(self, key):
        k = self.count.get(key, 0)
        self.count[key] = k + 1
        return k

    def event(self, *ev):
        if ev[0] != "store":
            self.uservals.clear()
        self.trace.append(ev)

    def choose(self, key):
        return self.dec.get(key, 0)

    def atom(self, kind, name):
        k = self.occ((kind, name))
        self.event(kind, name, k)
        c = self.choose(("completes", kind, name, k))
        if c:
            kinds = self.atom_abrupt if kind == "S" else tuple(a for a in self.atom_abrupt if a == "raise")
            ab = kinds[c - 1]
            if ab != "raise":
                self.unsupported = f"atom completion {ab} cannot be instantiated by a call"
                raise LogExc(("unsupported", ab))
            raise LogExc(("exc", kind, name, k))
        return V(self, ("val", name, k)) if kind == "E" else None

    def op(self, desc, *args):
        k = self.occ(("op", desc, args))
        self.event("op", desc, args, k)
        if self.choose(("raises", "op", desc, args, k)):
            raise LogExc(("exc", "op", desc, args, k))
        return V(self, ("app", desc, args, k))

    def truthy(self, term):
        if term not in self.memo:
            self.memo[term] = bool(self.choose(("truthy", term)))
        return self.memo[term]


def _binop(name):
    def f(self, other):
        return self.rt.op(("binop", name), self.term, term_of(other))

    def r(self, other):
        return self.rt.op(("binop", name), term_of(other), self.term)
    return f, r


class V:
    """Universal logging value."""
    __slots__ = ("rt", "term")

    def __init__(self, rt, term):
        object.__setattr__(self, "rt", rt)
        object.__setattr__(self, "term", term)

    def __repr__(self):
        return f"V{self.term!r}"

    def __bool__(self):
        return self.rt.truthy(self.term)

    def __enter__(self):
        rt, m = self.rt, self.term
        k = rt.occ(("enter", m))
        rt.event("enter", m, k)
        if rt.choose(("raises", "enter", m, k)):
            raise LogExc(("exc", "enter", m, k))
        return V(rt, ("entered", m, k))

    def __exit__(self, et, ev, tb):
        rt, m = self.rt, self.term
        exc = term_of(ev) if ev is not None else None
        k = rt.occ(("exit", m))
        rt.event("exit", m, exc, k)
        if rt.choose(("raises", "exit", m, k)):
            raise LogExc(("exc", "exit", m, k))
        return bool(exc is not None and rt.choose(("suppress", m, k)))

    def __call__(self, *a, **kw):
        return self.rt.op(("call",), self.term, tuple(term_of(x) for x in a), tuple((k, term_of(v)) for k, v in kw.items()))

    def __getattr__(self, name):
        if name.startswith("__") and name.endswith("__"):
            raise AttributeError(name)
        return self.rt.op(("attr", name), self.term)

    def __getitem__(self, i):
        if isinstance(i, slice):
            t = ("slice",) + tuple(term_of(x) for x in (i.start, i.stop, i.step))
        else:
            t = term_of(i)
        return self.rt.op(("subscript",), self.term, t)

    def __neg__(self):
        return self.rt.op(("unary", "USub"), self.term)

    def __pos__(self):
        return self.rt.op(("unary", "UAdd"), self.term)

    def __invert__(self):
        return self.rt.op(("unary", "Invert"), self.term)

    def __hash__(self):
        return hash(self.term)

    def __lt__(self, o):
        return self.rt.op(("cmp", "Lt"), self.term, term_of(o))

    def __le__(self, o):
        return self.rt.op(("cmp", "LtE"), self.term, term_of(o))

    def __gt__(self, o):
        return self.rt.op(("cmp", "Gt"), self.term, term_of(o))

    def __ge__(self, o):
        return self.rt.op(("cmp", "GtE"), self.term, term_of(o))

    def __eq__(self, o):
        return self.rt.op(("cmp", "Eq"), self.term, term_of(o))

    def __ne__(self, o):
        return self.rt.op(("cmp", "NotEq"), self.term, term_of(o))

    def __iter__(self):
        """Iteration mirrors pysem.for_loop: an `iter` event, then one `next` decision per step
        (0 exhausted / 1 item / 2 raises)."""
        rt, term = self.rt, self.term
        k = rt.occ(("iter",))
        rt.event("iter", term, k)
        if rt.choose(("raises", "iter", term, k)):
            raise LogExc(("exc", "iter", term, k))
        it = ("iterator", term, k)

        class It:
            n = 0

            def __iter__(self_):
                return self_

            def __next__(self_):
                rt.event("next", it, self_.n)
                r = rt.choose(("next", it, self_.n))
                if r == 2:
                    raise LogExc(("exc", "next", it, self_.n))
                if r == 0 or self_.n >= 8:
                    raise StopIteration
                v = V(rt, ("item", it, self_.n))
                self_.n += 1
                return v
        return It()


for _n, _d in dict(Add="add", Sub="sub", Mult="mul", Div="truediv", FloorDiv="floordiv", Mod="mod", Pow="pow",
                   LShift="lshift", RShift="rshift", BitOr="or", BitXor="xor", BitAnd="and", MatMult="matmul").items():
    _f, _r = _binop(_n)
    setattr(V, f"__{_d}__", _f)
    setattr(V, f"__r{_d}__", _r)


class Names(dict):
    """Module-level namespace that logs user-name loads and stores like pysem does."""

    def __init__(self, rt, base):
        super().__init__(base)
        self.rt = rt

    @staticmethod
    def _user(k):
        return not (k.startswith("_hy_") or k.startswith("_hv_") or k in ("hy", "__builtins__", "__name__", "True"))

    def __getitem__(self, k):
        if self._user(k):
            if k in self.rt.uservals:
                return dict.__getitem__(self, k)
            occ = self.rt.occ(("load", k))
            self.rt.event("load", k, occ)
            return V(self.rt, ("var", k, occ))
        return dict.__getitem__(self, k)

    def __setitem__(self, k, v):
        if self._user(k):
            self.rt.event("store", k, term_of(v))
            self.rt.uservals[k] = term_of(v)
        dict.__setitem__(self, k, v)


# ---------------------------------------------------------------------------------------------
# instantiation of token forms
# ---------------------------------------------------------------------------------------------
def _atom_call(kind, name):
    return E(E(S("."), S("_hv_rt"), S("atom")), String(kind), String(name))


def inst_tok(t):
    sh = t.shape
    if sh == "E":
        return _atom_call("E", t.name)
    if sh == "SE":
        return E(S("do"), E(S("setv"), S("_hv_s"), _atom_call("S", t.name)), _atom_call("E", t.name))
    if sh == "S":
        return E(S("setv"), S("_hv_s"), _atom_call("S", t.name))
    if sh == "0":
        return E(S("do"))
    if sh == "T":
        return E(S("if"), S("True"), E(S("do"), E(S("setv"), S("_hv_s"), Integer(0)), _atom_call("E", t.name)), S("None"))
    raise ValueError(sh)


def instantiate(form):
    if isinstance(form, Tok):
        return inst_tok(form)
    if isinstance(form, hy.models.Sequence):
        return type(form)(instantiate(x) for x in form)
    return form


def concretise(term, rt):
    """Normalise a reference term for comparison with concrete values: `not` applied to a value is a bool."""
    if isinstance(term, tuple):
        if term and term[0] == "not":
            inner = concretise(term[1], rt)
            if inner[0] == "const":
                c = pysem.Ctx(pysem.Oracle())
                return ("const", not c.truthy(inner))
            return ("const", not rt.truthy(inner))
        return tuple(concretise(x, rt) for x in term)
    return term


def run_hy(form, decisions, atom_abrupt=("raise",)):
    """Compile the instantiated form with the real compiler and run it under CPython."""
    rt = RT(decisions, atom_abrupt)
    mod = types.ModuleType("hv_replay_mod")
    inst = instantiate(form)
    tree, expr = hy_compile(inst, mod, get_expr=True, import_stdlib=False)
    ns = Names(rt, {"_hv_rt": rt, "hy": hy, "__name__": "hv_replay_mod"})
    g = {"__builtins__": __builtins__, "_hv_rt": rt, "hy": hy}
    try:
        exec(compile(tree, "<hv-replay>", "exec"), g, ns)
        v = eval(compile(expr, "<hv-replay>", "eval"), g, ns)
        out = (tuple(rt.trace), "value", term_of(v))
    except LogExc as e:
        out = (tuple(rt.trace), "raise", e.term)
    except Exception as e:  # noqa: BLE001
        out = (tuple(rt.trace), "raise", ("pyexc", type(e).__name__, str(e)[:100]))
    return rt, inst, out


def replay_case(case, sv, wit):
    """Called for a refuted equivalence obligation: confirm on the real code."""
    decisions = {}
    for k, v in wit["decisions"]:
        decisions[eval(k, {"__builtins__": {}}, {})] = v
    toks = tokens(sv, **case.tok_kw)
    form = case.builder(*toks)
    if wit.get("wrap") == "setv":
        form = E(S("setv"), S("hv_x"), form)
    elif wit.get("wrap") == "setx":
        form = E(S("setx"), S("hv_x"), form)
    elif wit.get("wrap") == "setv of a let-bound variable":
        form = E(S("let"), List([S("hv_x"), Tok("hv_init", "E", line=1)]), E(S("setv"), S("hv_x"), form), S("hv_x"))
    from hv.rules import let_wrap
    form = let_wrap(form, toks, sv)
    ctxkw = dict(case.ctxkw)
    if any(k[0] == "completes" and v and (ctxkw.get("atom_abrupt", ("raise",))[v - 1] != "raise") for k, v in decisions.items()
           if isinstance(k, tuple) and k and k[0] == "completes" and k[1] == "S"):
        return {"confirmed": False, "reason": "counterexample uses break/continue/return completion of a token; "
                                              "not instantiable by a call"}
    rt, inst, got = run_hy(form, decisions, ctxkw.get("atom_abrupt", ("raise",)))
    # reference outcome under the same decisions (following the observed order in Args segments)
    o = pysem.Oracle((), decisions)
    want = hysem.run_form(form, follow=got[0], expand=case.expand, **ctxkw)(o)
    want = (concretise(want[0], rt), want[1], concretise(want[2], rt))
    src = hy.repr(inst)
    return {
        "confirmed": got != want,
        "hy_source": src[1:] if src.startswith("'") else src,
        "decisions": {repr(k): v for k, v in decisions.items() if v},
        "observed": {"trace": [repr(e) for e in got[0]], "completion": got[1], "value": repr(got[2])},
        "expected": {"trace": [repr(e) for e in want[0]], "completion": want[1], "value": repr(want[2])},
        "how": "tokens instantiated as (_hv_rt.atom kind name) logging calls; compiled by the real hy_compile and "
               "executed by CPython; `expected` is the reference semantics under the same decisions",
    }


# ---------------------------------------------------------------------------------------------
# pysem validation: run an emitted AST natively
# ---------------------------------------------------------------------------------------------
class _Inst(ast.NodeTransformer):
    def visit_AbsExpr(self, n):
        return ast.copy_location(ast.Call(
            func=ast.Attribute(value=ast.Name(id="_hv_rt", ctx=ast.Load()), attr="atom", ctx=ast.Load()),
            args=[ast.Constant("E"), ast.Constant(n.tok.name)], keywords=[]), n)

    def visit_AbsStmt(self, n):
        return ast.copy_location(ast.Expr(value=ast.Call(
            func=ast.Attribute(value=ast.Name(id="_hv_rt", ctx=ast.Load()), attr="atom", ctx=ast.Load()),
            args=[ast.Constant("S"), ast.Constant(n.tok.name)], keywords=[])), n)


def run_emitted(result, decisions, atom_abrupt=("raise",)):
    import copy
    rt = RT(decisions, atom_abrupt)
    stmts = [_Inst().visit(copy.deepcopy(s)) for s in result.stmts]
    expr = _Inst().visit(copy.deepcopy(result._expr)) if result._expr is not None else ast.Constant(None)
    mod = ast.Module(body=stmts, type_ignores=[])
    ex = ast.Expression(body=expr)
    for root in (mod, ex):
        for n in ast.walk(root):
            if "lineno" in getattr(n, "_attributes", ()):
                n.lineno = n.end_lineno = 1
                n.col_offset = n.end_col_offset = 0
    ns = Names(rt, {"_hv_rt": rt, "hy": hy})
    g = {"__builtins__": __builtins__, "_hv_rt": rt, "hy": hy}
    try:
        exec(compile(mod, "<hv-emitted>", "exec"), g, ns)
        v = eval(compile(ex, "<hv-emitted>", "eval"), g, ns)
        return rt, (tuple(rt.trace), "value", term_of(v))
    except LogExc as e:
        return rt, (tuple(rt.trace), "raise", e.term)
    except Exception as e:  # noqa: BLE001
        return rt, (tuple(rt.trace), "raise", ("pyexc", type(e).__name__, str(e)[:100]))


def validate_pysem(result, limit=400, **ctxkw):
    """Every pysem path of `result` is re-executed natively under the same decisions.
    Returns (n_checked, disagreements)."""
    paths = pysem.explore(pysem.run_result(result, **ctxkw))
    bad, n = [], 0
    for dec, got in paths[:limit]:
        if got[1] not in ("value", "raise"):
            continue
        if any(isinstance(k, tuple) and k[0] == "completes" and v and
               ctxkw.get("atom_abrupt", ("raise",))[v - 1] != "raise" for k, v in dec.items()):
            continue
        if any(isinstance(k, tuple) and k[0] == "matches" for k in dec):
            continue      # handler matching cannot be scripted on CPython (no __subclasscheck__ in except)
        def _const_operand(e):
            if e[0] == "op":
                flat = []
                for a in e[2]:
                    flat.append(a)
                    if isinstance(a, tuple) and a and isinstance(a[0], tuple):
                        flat.extend(a)
                return any(isinstance(a, tuple) and a and a[0] == "const" for a in flat)
            return e[0] in ("enter", "iter") and e[1][0] == "const"
        if any(_const_operand(e) for e in got[0]):
            continue      # operators applied to literal constants are computed by CPython, opaque in pysem
        rt, nat = run_emitted(result, dec, ctxkw.get("atom_abrupt", ("raise",)))
        want = (concretise(got[0], rt), got[1], concretise(got[2], rt))
        if want[1] == "raise" and want[2][:2] == ("exc", "NameError") and nat[1] == "raise" and nat[2][:2] == ("pyexc", "NameError"):
            want = (want[0][:-1] if want[0] and want[0][-1][0] == "unbound-temp" else want[0], "raise", nat[2])
        n += 1
        if nat != want:
            bad.append((dec, want, nat))
    return n, bad
