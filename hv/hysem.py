"""hysem: reference semantics of Hy's core forms over the trace domain of hv.pysem.

Written from /repo/docs (api.rst, semantics.rst) and the property statements - *not* from the
compiler.  `heval(c, form)` interprets a Hy model tree whose leaves are opaque tokens, symbols and
literals, and returns the value term of the form; effects are appended to c.trace.

Argument lists (`Args`): docs/semantics.rst ("Order of evaluation") leaves the evaluation order of
the children of a Sequence unspecified.  The reference is therefore *angelic* inside an argument
segment: it replays the sibling interleaving observed in the emitted trace, provided that each
child's own atoms keep their order and each runs exactly once.
"""
from hv.pysem import NONE, Abrupt, Ctx, Unsupported, const, do_enter, do_exits, is_temp
from hv.symx.core import Tok
import hy.models as hm
from hy.models import (Bytes, Complex, Dict, Expression, Float, FString, Integer, Keyword, List, Set, String,
                       Symbol, Tuple)

BINOPS = {"+": "Add", "-": "Sub", "*": "Mult", "/": "Div", "//": "FloorDiv", "%": "Mod", "**": "Pow",
          "<<": "LShift", ">>": "RShift", "|": "BitOr", "^": "BitXor", "&": "BitAnd", "@": "MatMult"}
CMPOPS = {"=": "Eq", "!=": "NotEq", "<": "Lt", "<=": "LtE", ">": "Gt", ">=": "GtE", "is": "Is",
          "is-not": "IsNot", "in": "In", "not-in": "NotIn"}


class Env:
    """Lexical environment of the reference semantics: let-bindings and except variables."""

    def __init__(self, parent=None):
        self.parent, self.vars = parent, {}

    def find(self, n):
        e = self
        while e is not None:
            if n in e.vars:
                return e
            e = e.parent
        return None


def tok_atoms(t):
    sh = t.shape
    out = []
    if sh in ("SE", "S"):
        out.append("S")
    if sh in ("E", "SE", "T"):
        out.append("E")
    return out


def tok_eval(c, t):
    v = NONE
    for a in tok_atoms(t):
        r = c.atom(a, t)
        if a == "E":
            v = r
    return v


def head(form):
    if isinstance(form, Expression) and form and isinstance(form[0], Symbol):
        return str(form[0])
    return None


class H:
    """The reference interpreter.  One instance per execution (holds the lexical environment)."""

    def __init__(self, c, expand=None):
        self.c = c
        self.env = Env()
        self.expand = expand     # callable(form) -> expanded form for non-core macros (cond, when)

    # ---- entry
    def eval(self, form):
        c = self.c
        if isinstance(form, Tok):
            return tok_eval(c, form)
        if isinstance(form, Symbol):
            return self.symbol(form)
        if isinstance(form, (Integer, Float, Complex)):
            return const({Integer: int, Float: float, Complex: complex}[type(form)](form))
        if isinstance(form, (String, Bytes)):
            return const((bytes if isinstance(form, Bytes) else str)(form))
        if isinstance(form, Keyword):
            return c.op(("call",), c.op(("attr", "Keyword"), c.op(("attr", "models"), self.hyname())),
                        (const(form.name),), ())
        if isinstance(form, (List, Tuple, Set)):
            vals = self.args(list(form))
            return c.op(("build", {List: "List", Tuple: "Tuple", Set: "Set"}[type(form)]), tuple(vals))
        if isinstance(form, Dict):
            vals = self.args(list(form))
            return c.op(("build", "Dict"), tuple(zip(vals[::2], vals[1::2])))
        if isinstance(form, Expression):
            if not form:
                raise Unsupported("empty expression")
            h = head(form)
            if h is not None and any(isinstance(a, Expression) and head(a) == "unpack-iterable" for a in form[1:]) \
                    and (h in BINOPS or h in CMPOPS or h in ("and", "or", "not", "bnot", "get")):
                return self.shadow_call(h, form)
            m = getattr(self, "f_" + _pyname(h), None) if h is not None else None
            if h == ".":
                m = self.f_dot
            if m is not None:
                return m(form, *form[1:])
            if h in BINOPS:
                return self.binop(h, list(form[1:]))
            if h in CMPOPS:
                return self.compare(h, list(form[1:]))
            if h is not None and h.endswith("=") and h[:-1] in BINOPS and len(form) >= 3:
                return self.augassign(h[:-1], form[1], list(form[2:]))
            if h is not None and self.expand is not None:
                new = self.expand(form)
                if new is not form:
                    return self.eval(new)
            return self.call(form)
        raise Unsupported(f"hysem: form {type(form).__name__}")

    def hyname(self):
        return self.c.load_user("hy")

    def symbol(self, s):
        n = str(s)
        if n in ("None", "True", "False"):
            return ("const", {"None": None, "True": True, "False": False}[n])
        e = self.env.find(n)
        if e is not None:
            v = e.vars[n]
            if v is _DELETED:
                self.c.event("unbound-temp", n)
                raise Abrupt("raise", ("exc", "NameError", n))
            return v
        from hy.reader import mangle
        return self.c.load_user(mangle(n))

    # ---- argument segments (angelic partial order)
    def seg(self):
        return Seg(self)

    def args(self, forms):
        """Evaluate sibling forms of an argument list.  Returns their values in syntactic order."""
        sg = Seg(self)
        hs = [sg.child(f) for f in forms]
        sg.run()
        return [sg.value(h) for h in hs]

    def body(self, forms):
        v = NONE
        for f in forms:
            v = self.eval(f)
        return v

    # ---- calls and operators
    def call_slots(self, rest):
        slots, i = [], 0
        rest = list(rest)
        while i < len(rest):
            a = rest[i]
            if isinstance(a, Keyword) and i + 1 < len(rest):
                slots.append(("kw", str(a)[1:], rest[i + 1]))
                i += 2
                continue
            if isinstance(a, Expression) and head(a) == "unpack-iterable":
                slots.append(("star", None, a[1]))
            elif isinstance(a, Expression) and head(a) == "unpack-mapping":
                slots.append(("dstar", None, a[1]))
            else:
                slots.append(("pos", None, a))
            i += 1
        return slots

    def call_value(self, fv, slots, vals):
        from hy.reader import mangle
        pos, kws = [], []
        for (kind, name, _), v in zip(slots, vals):
            if kind == "pos":
                pos.append(v)
            elif kind == "star":
                pos.append(("star", v))
            elif kind == "kw":
                kws.append((mangle(name), v))
            else:
                kws.append((None, v))
        return (fv, tuple(pos), tuple(kws))

    def call(self, form):
        if len(form) == 1 and isinstance(form[0], Expression) and head(form[0]) == "fn":
            clo = self.eval(form[0])
            saved = self.env
            self.env = clo[3]
            try:
                return self.body(clo[2])
            except Abrupt as a:
                if a.kind == "return":
                    return a.val
                raise
            finally:
                self.env = saved
        f0 = form[0]
        if (isinstance(f0, Expression) and len(f0) >= 2 and isinstance(f0[0], Symbol) and not str(f0[0]).strip(".")
                and f0[1] == Symbol("None")):
            return self.method_call(form)
        slots = self.call_slots(form[1:])
        sg = Seg(self)
        hf = sg.child(form[0])
        hs = [sg.child(f) for _, _, f in slots]
        hc = sg.op(("call",), lambda r: self.call_value(r(hf), slots, [r(h) for h in hs]), [hf] + hs)
        sg.run()
        return sg.value(hc)

    def binop(self, h, args):
        c = self.c
        if not args:
            return const({"+": 0, "|": 0, "*": 1}[h])
        if len(args) == 1:
            if h == "/":
                v = self.eval(args[0])
                return c.op(("binop", "Div"), const(1), v)
            if h in "+-":
                v = self.eval(args[0])
                return c.op(("unary", {"+": "UAdd", "-": "USub"}[h]), v)
            return self.eval(args[0])
        sg = Seg(self)
        hs = [sg.child(a) for a in args]
        desc = ("binop", BINOPS[h])
        if h == "**":       # documented right fold
            acc = hs[-1]
            for x in reversed(hs[:-1]):
                acc = sg.op(desc, (lambda x, acc: lambda r: (r(x), r(acc)))(x, acc), [x, acc])
        else:               # documented left fold
            acc = hs[0]
            for x in hs[1:]:
                acc = sg.op(desc, (lambda x, acc: lambda r: (r(acc), r(x)))(x, acc), [acc, x])
        sg.run()
        return sg.value(acc)

    def shadow_call(self, h, form):
        """A macro call containing #* falls back to the hy.pyops function of the same name with all arguments unchanged."""
        from hy.reader import mangle
        c = self.c
        sg = Seg(self)
        slots = self.call_slots(form[1:])
        hs = [sg.child(f) for _, _, f in slots]
        hl = sg._add(("load", "hy"), lambda r: c.load_user("hy"), [])
        ha = sg.op(("attr", "pyops"), lambda r: (r(hl),), [hl])
        hf = sg.op(("attr", mangle(h)), lambda r: (r(ha),), [ha])
        hc = sg.op(("call",), lambda r: self.call_value(r(hf), slots, [r(x) for x in hs]), [hf] + hs)
        sg.run()
        return sg.value(hc)

    def compare(self, h, args):
        """Python's chained comparison a1 op a2 op ... an: operands left to right, each once, stopping at the first
        false comparison (later operands are then not evaluated); one operand: evaluated, result True."""
        c = self.c
        if len(args) == 1:
            self.eval(args[0])
            return ("const", True)
        if len(args) == 2:
            l, r = self.args(args)
            return c.op(("cmp", CMPOPS[h]), l, r)
        left = self.eval(args[0])
        res = None
        for a in args[1:]:
            right = self.eval(a)
            res = c.op(("cmp", CMPOPS[h]), left, right)
            if not c.truthy(res):
                return res
            left = right
        return res

    AGG = None

    def augassign(self, op, target, values):
        """(op= t a b ...) == t op= agg(a, b, ...), agg = the documented aggregator (hy.pyops docstrings)."""
        c = self.c
        agg = (self.AGG or {}).get(op, op)
        if not isinstance(target, Symbol):
            raise Unsupported("hysem: augmented assignment to a non-name")
        # target and value are sibling children of one form: the load of the target and the evaluation of the value may
        # come in either order (statements of the value are hoisted by the compiler); then one in-place operation, one store
        from hy.reader import mangle
        sg = Seg(self)
        n = str(target)
        if self.env.find(n) is None and mangle(n) not in c.uservals:
            hl = sg._add(("load", mangle(n)), lambda r: self.symbol(target), [])
        else:
            hl = sg._add(None, lambda r: self.symbol(target), [])
        hs = [sg.child(v) for v in values]
        hv = hs[0]
        if len(hs) > 1:          # rvalue = the documented aggregator folded over the extra arguments
            desc = ("binop", BINOPS[agg])
            if agg == "**":
                hv = hs[-1]
                for x in reversed(hs[:-1]):
                    hv = sg.op(desc, (lambda x, acc: lambda r: (r(x), r(acc)))(x, hv), [x, hv])
            else:
                for x in hs[1:]:
                    hv = sg.op(desc, (lambda x, acc: lambda r: (r(acc), r(x)))(x, hv), [hv, x])
        ho = sg.op(("augop", BINOPS[op]), (lambda hv: lambda r: (r(hl), r(hv)))(hv), [hl, hv])
        sg.run()
        self.assign(target, sg.value(ho))
        return NONE

    def f_not(self, form, x):
        return ("not", self.eval(x))

    def f_bnot(self, form, x):
        return self.c.op(("unary", "Invert"), self.eval(x))

    def f_get(self, form, obj, *idx):
        sg = Seg(self)
        acc = sg.child(obj)
        for i in idx:
            hi = sg.child(i)
            acc = sg.op(("subscript",), (lambda acc, hi: lambda r: (r(acc), r(hi)))(acc, hi), [acc, hi])
        sg.run()
        return sg.value(acc)

    def f_cut(self, form, obj, *rest):
        rest = list(rest)
        if len(rest) == 1:
            rest = [None, rest[0]]
        rest += [None] * (3 - len(rest))
        sg = Seg(self)
        ho = sg.child(obj)
        hs = [sg.child(r) if r is not None else None for r in rest]
        hc = sg.op(("subscript",), lambda r: (r(ho), ("slice",) + tuple(r(h) if h is not None else NONE for h in hs)),
                   [ho] + [h for h in hs if h is not None])
        sg.run()
        return sg.value(hc)

    def dot_chain(self, sg, acc, keys):
        from hy.reader import mangle
        for key in keys:
            if isinstance(key, Symbol):
                acc = sg.op(("attr", mangle(str(key))), (lambda acc: lambda r: (r(acc),))(acc), [acc])
            elif isinstance(key, Expression):
                m = sg.op(("attr", mangle(str(key[0]))), (lambda acc: lambda r: (r(acc),))(acc), [acc])
                slots = self.call_slots(key[1:])
                hs = [sg.child(f) for _, _, f in slots]
                acc = sg.op(("call",), (lambda m, slots, hs: lambda r: self.call_value(r(m), slots, [r(h) for h in hs]))(m, slots, hs),
                            [m] + hs)
            elif isinstance(key, List):
                hi = sg.child(key[0])
                acc = sg.op(("subscript",), (lambda acc, hi: lambda r: (r(acc), r(hi)))(acc, hi), [acc, hi])
            else:
                raise Unsupported("hysem: `.` key")
        return acc

    def f_dot(self, form, obj, *keys):
        sg = Seg(self)
        acc = self.dot_chain(sg, sg.child(obj), keys)
        sg.run()
        return sg.value(acc)

    def method_call(self, form):
        """((. None m1 m2) obj args...) == ((. obj m1 m2) args...): the object is the first plain argument."""
        root, rest = form[0], list(form[1:])
        i = 0
        while i < len(rest):
            if isinstance(rest[i], Keyword):
                if i == 0 and len(rest) == 1:
                    break
                i += 2
            elif isinstance(rest[i], Expression) and head(rest[i]) == "unpack-mapping":
                i += 1
            else:
                break
        obj = rest.pop(i)
        sg = Seg(self)
        f = self.dot_chain(sg, sg.child(obj), list(root[2:]))
        slots = self.call_slots(rest)
        hs = [sg.child(x) for _, _, x in slots]
        hc = sg.op(("call",), lambda r: self.call_value(r(f), slots, [r(h) for h in hs]), [f] + hs)
        sg.run()
        return sg.value(hc)

    # ---- control
    def f_do(self, form, *body):
        return self.body(body)

    def f_if(self, form, t, a, b):
        return self.eval(a) if self.c.truthy(self.eval(t)) else self.eval(b)

    def f_cond(self, form, *args):
        # docs: (cond c1 r1 c2 r2) == (if c1 r1 (if c2 r2 None)); no arguments -> None
        args = list(args)
        if len(args) % 2:
            raise Unsupported("odd cond")
        for i in range(0, len(args), 2):
            if self.c.truthy(self.eval(args[i])):
                return self.eval(args[i + 1])
        return NONE

    def f_when(self, form, test, *body):
        # docs: (when test body...) == (if test (do body...) None)
        return self.body(body) if self.c.truthy(self.eval(test)) else NONE

    def f_fn(self, form, params, *body):
        if not isinstance(params, List):
            raise Unsupported("hysem: fn with an annotated parameter list")
        # creating the function evaluates the default value forms of its parameters, left to right (docs/api.rst: as in Python);
        # a function with parameters can be passed around, but only parameterless ones are called by this interpreter
        for prm in params:
            if isinstance(prm, List) and len(prm) == 2:
                self.eval(prm[1])
            elif not isinstance(prm, Symbol):
                raise Unsupported("hysem: fn parameter kind")
        k = self.c.occ(("fn",))
        if len(params):
            return ("hyclosure", k, ("with-parameters",), self.env)
        return ("hyclosure", k, tuple(body), self.env)

    def f_eval_and_compile(self, form, *body):
        return self.body(body)          # run-time part: exactly (do body...)

    def f_eval_when_compile(self, form, *body):
        return NONE                     # contributes nothing at run time

    def f_match(self, form, subject, *rest):
        """Python's match statement: cases tried in order, guard evaluated only when the pattern matched, value of the
        selected case's body, None when nothing matches.  Pattern matching itself is an opaque decision."""
        c = self.c
        rest = list(rest)
        clauses = []
        while rest:
            rest.pop(0)                       # the pattern
            if rest and isinstance(rest[0], Keyword) and str(rest[0]) == ":as":
                rest.pop(0)
                rest.pop(0)
            guard = None
            if rest and isinstance(rest[0], Keyword) and str(rest[0]) == ":if":
                rest.pop(0)
                guard = rest.pop(0)
            clauses.append((guard, rest.pop(0)))
        subj = self.eval(subject)
        for i, (guard, body) in enumerate(clauses):
            k = c.occ(("case", subj, i))
            c.event("case-test", subj, i, k)
            if not c.o.choose(("case-matches", subj, i, k)):
                continue
            if guard is not None and not c.truthy(self.eval(guard)):
                continue
            return self.eval(body)
        return NONE

    def f_and(self, form, *ops):
        return self.shortcircuit(ops, True)

    def f_or(self, form, *ops):
        return self.shortcircuit(ops, False)

    def shortcircuit(self, ops, is_and):
        if not ops:
            return ("const", True if is_and else None)
        v = None
        for t in ops:
            v = self.eval(t)
            if self.c.truthy(v) != is_and:
                return v
        return v

    def f_while(self, form, cond, *rest):
        rest = list(rest)
        orelse = None
        if rest and isinstance(rest[-1], Expression) and head(rest[-1]) == "else":
            orelse = list(rest.pop()[1:])
        c = self.c
        n = 0
        while True:
            if not c.truthy(self.eval(cond)):
                if orelse is not None:
                    self.body(orelse)
                return NONE
            if n >= c.MAX_ITERS:
                raise Abrupt("cut", ("loop",))
            n += 1
            try:
                self.body(rest)
            except Abrupt as a:
                if a.kind == "break":
                    return NONE
                if a.kind != "continue":
                    raise

    def f_for(self, form, clauses, *rest):
        from hv.pysem import for_loop as _unused  # noqa: F401  (same event vocabulary)
        rest = list(rest)
        orelse = None
        if rest and isinstance(rest[-1], Expression) and head(rest[-1]) == "else":
            orelse = list(rest.pop()[1:])
        cl = parse_clauses(list(clauses))
        first_for = [True]

        def run(i):
            if i == len(cl):
                self.body(rest)
                return
            kind, a, b = cl[i]
            if kind == "for":
                itv = self.eval(b)
                is_outer = first_for[0]
                first_for[0] = False
                self.loop(itv, a, lambda: run(i + 1), (lambda: self.body(orelse)) if (orelse is not None and is_outer) else None)
            elif kind == "if":
                if self.c.truthy(self.eval(a)):
                    run(i + 1)
            elif kind == "do":
                self.eval(a)
                run(i + 1)
            elif kind == "setv":
                self.assign(a, self.eval(b))
                run(i + 1)
        if not any(k == "for" for k, _, _ in cl):
            raise Unsupported("for without iteration clause")
        run(0)
        return NONE

    def loop(self, itv, target, body, orelse, comp=False):
        c = self.c
        k = c.occ(("iter",))
        c.event("iter", itv, k)
        if c.may_raise(("iter", itv, k)):
            raise Abrupt("raise", ("exc", "iter", itv, k))
        it = ("iterator", itv, k)
        n = 0
        while True:
            c.event("next", it, n)
            r = c.o.choose(("next", it, n), 3)
            if r == 2:
                raise Abrupt("raise", ("exc", "next", it, n))
            if r == 0:
                break
            if n >= c.MAX_ITERS:
                raise Abrupt("cut", ("loop",))
            self.assign(target, ("item", it, n))
            n += 1
            try:
                body()
            except Abrupt as a:
                if a.kind == "break":
                    return
                if a.kind != "continue":
                    raise
        if orelse is not None:
            orelse()

    # ---- comprehensions: lfor / sfor / dfor / gfor
    def comprehension(self, kind, parts):
        """Documented nested-loop semantics (docs/api.rst lfor): iteration clauses nest, :if guards the rest, :setv binds,
        :do evaluates, the final form is appended for every surviving combination; `#* X` as final form contributes the
        elements of X, dfor's `#** M` the items of M.  Without any clause the result is empty and the value form is not
        evaluated (asserted by the repository's own tests)."""
        from hv.pysem import do_yield, make_gen, force
        c = self.c
        parts = list(parts)
        if kind == "DictComp":
            if parts and isinstance(parts[-1], Expression) and head(parts[-1]) == "unpack-mapping":
                final = ("dstar", parts.pop()[1])
            else:
                v = parts.pop()
                k = parts.pop()
                final = ("pair", k, v)
        else:
            f = parts.pop()
            final = ("star", f[1]) if (isinstance(f, Expression) and head(f) == "unpack-iterable") else ("elt", f)
        cl = parse_clauses(parts)
        if not cl:
            if kind == "GeneratorExp":
                return make_gen(c, lambda: None)
            return ("collect", kind)

        def emit():
            if final[0] == "elt":
                do_yield(c, self.eval(final[1]))
            elif final[0] == "pair":
                kk, vv = self.args([final[1], final[2]])
                do_yield(c, c.op(("build", "Tuple"), (kk, vv)))
            else:
                src = self.eval(final[1])
                if final[0] == "dstar":
                    src = c.op(("call",), c.op(("attr", "items"), src), (), ())
                env = Env(self.env)
                saved = self.env
                self.env = env
                env.vars["<item>"] = NONE
                try:
                    self.loop(src, Symbol("<item>", from_parser=True), lambda: do_yield(c, env.vars["<item>"]), None)
                finally:
                    self.env = saved

        def run(i, first=None):
            if i == len(cl):
                emit()
                return
            k, a, b = cl[i]
            if k == "for":
                itv = first if (i == 0 and first is not None) else self.eval(b)
                self.loop(itv, a, lambda: run(i + 1), None)
            elif k == "if":
                if c.truthy(self.eval(a)):
                    run(i + 1)
            elif k == "do":
                self.eval(a)
                run(i + 1)
            else:
                self.assign(a, self.eval(b))
                run(i + 1)
        if kind == "GeneratorExp":
            # laziness: nothing runs when the generator is created - except that the outermost iterable may already be
            # evaluated then (that is what a native Python generator expression does); either is accepted
            eager = None
            pos = len(c.trace)
            if cl[0][0] == "for" and c.follow is not None and pos < len(c.follow) and c.follow[pos][0] != "gen-created":
                eager = self.eval(cl[0][2])
            env = self.env
            def thunk():
                saved = self.env
                self.env = env
                try:
                    run(0, eager)
                finally:
                    self.env = saved
            return make_gen(c, thunk)
        run(0)
        return ("collect", kind)

    def f_lfor(self, form, *parts):
        return self.comprehension("ListComp", parts)

    def f_sfor(self, form, *parts):
        return self.comprehension("SetComp", parts)

    def f_gfor(self, form, *parts):
        return self.comprehension("GeneratorExp", parts)

    def f_dfor(self, form, *parts):
        return self.comprehension("DictComp", parts)

    def f_break(self, form):
        raise Abrupt("break")

    def f_continue(self, form):
        raise Abrupt("continue")

    def f_return(self, form, *x):
        raise Abrupt("return", self.eval(x[0]) if x else NONE)

    def f_raise(self, form, *xs):
        c = self.c
        xs = list(xs)
        exc = cause = None
        fe = fc = None
        if xs and not (isinstance(xs[0], Keyword) and str(xs[0]) == ":from"):
            fe = xs.pop(0)
        if xs:
            fc = xs[1]
        # the exception and its cause are sibling children of one form: unspecified relative order
        vals = self.args([f for f in (fe, fc) if f is not None])
        if fe is not None:
            exc = vals.pop(0)
        if fc is not None:
            cause = vals.pop(0)
        if exc is None:
            c.event("reraise")
            raise Abrupt("raise", c.cur_exc if c.cur_exc is not None else ("exc", "RuntimeError", "no active exception"))
        c.event("raise", exc, cause)
        raise Abrupt("raise", ("raised", exc, cause))

    # ---- assignment
    def assign(self, target, v):
        c = self.c
        if isinstance(target, Symbol):
            n = str(target)
            e = self.env.find(n)
            if e is not None:
                e.vars[n] = v
                return
            from hy.reader import mangle
            c.store_user(mangle(n), v)
        elif isinstance(target, Tok):
            # an arbitrary assignable place (attribute, subscript ...): evaluated, then stored into
            c.event("store-into", target.name, v)
        elif isinstance(target, (List, Tuple)):
            for i, x in enumerate(target):
                starred = isinstance(x, Expression) and head(x) == "unpack-iterable"
                self.assign(x[1] if starred else x, ("unpacked", v, i, starred))
        elif isinstance(target, Expression) and head(target) == "." and len(target) == 3 and isinstance(target[2], Symbol):
            from hy.reader import mangle
            o = self.eval(target[1])
            c.event("setattr", o, mangle(str(target[2])), v)
        elif isinstance(target, Expression) and head(target) == "get" and len(target) == 3:
            o, i = self.args([target[1], target[2]])
            c.event("setitem", o, i, v)
        else:
            raise Unsupported("hysem: assignment target " + type(target).__name__)

    def f_setv(self, form, *pairs):
        pairs = list(pairs)
        i = 0
        while i < len(pairs):
            t, val = pairs[i], pairs[i + 1]
            if isinstance(t, Expression) and head(t) == "annotate":
                raise Unsupported("annotated setv in hysem")
            v = self.eval(val)
            self.assign(t, v)
            i += 2
        return NONE

    def f_setx(self, form, t, val):
        v = self.eval(val)
        self.assign(t, v)
        return v

    def f_let(self, form, bindings, *body):
        env = Env(self.env)
        saved = self.env
        bl = list(bindings)
        try:
            i = 0
            while i < len(bl):
                t, val = bl[i], bl[i + 1]
                v = self.eval(val)          # evaluated in the scope holding the earlier bindings
                self.env = env
                self.bind(env, t, v)
                i += 2
            self.env = env
            return self.body(body)
        finally:
            self.env = saved

    def bind(self, env, t, v):
        if isinstance(t, Symbol):
            env.vars[str(t)] = v
        elif isinstance(t, (List, Tuple)):
            for i, x in enumerate(t):
                starred = isinstance(x, Expression) and head(x) == "unpack-iterable"
                self.bind(env, x[1] if starred else x, ("unpacked", v, i, starred))
        else:
            raise Unsupported("let target")

    # ---- with
    def f_with(self, form, mgrs, *body):
        c = self.c
        ml = list(mgrs)
        items = []
        if len(ml) == 1:
            items = [(None, ml[0])]
        else:
            i = 0
            while i < len(ml):
                if isinstance(ml[i], Keyword) and str(ml[i]) == ":async":
                    i += 1
                    continue
                items.append((ml[i], ml[i + 1]))
                i += 2
        entered = []
        a = None
        v = NONE
        try:
            for name, m in items:
                mv = self.eval(m)
                ev_ = do_enter(c, mv)
                entered.append(mv)
                if name is not None and not (isinstance(name, Symbol) and str(name) == "_"):
                    self.assign(name, ev_)
            v = self.body(body)
        except Abrupt as ab:
            a = ab
        body_raised = a is not None and a.kind == "raise"
        n_before = sum(1 for e in c.trace if e[0] == "exit" and e[2] is not None)
        a = do_exits(c, entered, a)
        if a is not None:
            raise a
        if body_raised:
            return NONE          # "unless it suppresses an exception ... in which case it returns None"
        exit_raised = sum(1 for e in c.trace if e[0] == "exit" and e[2] is not None) > n_before
        if exit_raised:
            # the body completed, an inner __exit__ raised and an outer manager suppressed that: the docs do not
            # say whether the body's value or None results; either is accepted
            return ("oneof", (v, NONE))
        return v

    # ---- try
    def f_try(self, form, *parts):
        c = self.c
        body, catchers, orelse, final = [], [], None, None
        for p in parts:
            h = head(p) if isinstance(p, Expression) else None
            if h in ("except", "except*") and not isinstance(p, Tok):
                catchers.append(p)
            elif h == "else":
                orelse = list(p[1:])
            elif h == "finally":
                final = list(p[1:])
            else:
                body.append(p)
        if orelse is not None and not catchers:
            body += orelse
            orelse = None
        value = [NONE]

        def run_final(pending):
            if final is not None:
                self.body(final)
            if pending is not None:
                raise pending

        pending = None
        try:
            try:
                value[0] = self.body(body)
            except Abrupt as a:
                if a.kind != "raise":
                    raise
                handled = False
                for h in catchers:
                    spec = list(h[1])
                    name = typ = None
                    if len(spec) == 1:
                        typ = spec[0]
                    elif len(spec) == 2:
                        name, typ = spec
                    if typ is not None:
                        if isinstance(typ, List):
                            tv = c.op(("build", "Tuple"), tuple(self.args(list(typ))))
                        else:
                            tv = self.eval(typ)
                        k = c.occ(("match", a.val, tv))
                        c.event("except-match", a.val, tv, k)
                        if not c.o.choose(("matches", a.val, tv, k)):
                            continue
                    handled = True
                    saved_exc, saved_env = c.cur_exc, self.env
                    c.cur_exc = a.val
                    if name is not None:
                        self.env = Env(self.env)
                        self.env.vars[str(name)] = ("caught", a.val)
                    try:
                        value[0] = self.body(h[2:])
                    finally:
                        c.cur_exc = saved_exc
                        if name is not None:
                            # Python unbinds the name at the end of the handler; the binding stays
                            # visible (as unbound) to closures, never to code after the handler
                            self.env.vars[str(name)] = _DELETED
                        self.env = saved_env
                    break
                if not handled:
                    raise
            else:
                if orelse is not None:
                    value[0] = self.body(orelse)
        except Abrupt as a:
            pending = a
        run_final(pending)
        return value[0]


_DELETED = ("deleted",)


def parse_clauses(cl):
    """[x xs :if c :setv y v :do f :async z zs] -> [(kind, a, b)]"""
    out, i = [], 0
    while i < len(cl):
        x = cl[i]
        if isinstance(x, Keyword) and str(x) in (":if", ":do"):
            out.append((str(x)[1:], cl[i + 1], None))
            i += 2
        elif isinstance(x, Keyword) and str(x) == ":setv":
            out.append(("setv", cl[i + 1], cl[i + 2]))
            i += 3
        elif isinstance(x, Keyword) and str(x) == ":async":
            out.append(("for", cl[i + 1], cl[i + 2]))
            i += 3
        else:
            out.append(("for", cl[i], cl[i + 1]))
            i += 2
    return out


class Seg:
    """A segment of sibling evaluations whose relative order Hy leaves unspecified (docs/semantics.rst,
    "Order of evaluation"): a partial order of tasks.  Each child contributes its own atoms in order; an
    operation depends on its operands.  The reference follows the interleaving seen in the emitted trace when
    that interleaving is a linearisation of the partial order, and its default order otherwise (so any
    illegal emitted order shows up as a trace mismatch)."""

    def __init__(self, h):
        self.h, self.tasks, self.res, self.done = h, [], {}, set()

    def _add(self, match, run, deps):
        self.tasks.append((match, run, list(deps)))
        return len(self.tasks) - 1

    def child(self, f):
        h, c = self.h, self.h.c
        if isinstance(f, Tok):
            last, val = None, None
            atoms = tok_atoms(f)
            if not atoms:
                return self._add(None, lambda r: NONE, [])
            for a in atoms:
                last = self._add((a, f.name), (lambda a: lambda r: c.atom(a, f))(a), [] if last is None else [last])
                if a == "E":
                    val = last
            if val is None:      # statements only: value None, available after the statements
                val = self._add(None, lambda r: NONE, [last])
            return val
        if isinstance(f, Symbol) and str(f) not in ("None", "True", "False") and h.env.find(str(f)) is None:
            from hy.reader import mangle
            if mangle(str(f)) not in c.uservals:
                return self._add(("load", mangle(str(f))), lambda r: h.symbol(f), [])
        return self._add(None, lambda r: h.eval(f), [])

    def op(self, desc, argfn, deps):
        c = self.h.c
        return self._add(("op", desc), lambda r: c.op(desc, *argfn(r)), deps)

    def value(self, i):
        return self.res[i]

    def run(self):
        c = self.h.c
        r = lambda i: self.res[i]
        n = len(self.tasks)
        while len(self.done) < n:
            ready = [i for i in range(n) if i not in self.done and all(d in self.done for d in self.tasks[i][2])]
            # tasks without events run as soon as they are ready
            silent = [i for i in ready if self.tasks[i][0] is None]
            pick = None
            if silent:
                pick = silent[0]
            else:
                pos = len(c.trace)
                nxt = c.follow[pos] if (c.follow is not None and pos < len(c.follow)) else None
                if nxt is not None:
                    for i in ready:
                        m = self.tasks[i][0]
                        if m == tuple(nxt[:len(m)]):
                            pick = i
                            break
                if pick is None:
                    pick = ready[0]
            self.done.add(pick)
            self.res[pick] = self.tasks[pick][1](r)


def _pyname(h):
    return {"lfor": "lfor", "sfor": "sfor", "gfor": "gfor", "dfor": "dfor", "match": "match", "eval-and-compile": "eval_and_compile", "eval-when-compile": "eval_when_compile", "cond": "cond", "when": "when", "fn": "fn", "for": "for", "do": "do", "if": "if", "and": "and", "or": "or", "not": "not", "bnot": "bnot", "get": "get", "cut": "cut",
            "while": "while", "break": "break", "continue": "continue", "return": "return", "raise": "raise",
            "setv": "setv", "setx": "setx", "let": "let", "with": "with", "try": "try"}.get(h, "\0none")


def run_form(form, follow=None, expand=None, **ctxkw):
    from hv.pysem import outcome

    def run(o):
        c = Ctx(o, follow=follow, **ctxkw)
        h = H(c, expand)
        from hv.pysem import force
        return outcome(c, lambda c: force(c, h.eval(form)))
    return run
