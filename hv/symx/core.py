"""symx: run the *real* rule functions of /repo natively on opaque tokens.

Tok is a hy.models.Object subclass that stands for an arbitrary sub-form.  The compiler registered
for it (only inside the checker process) implements the callee contract of `HyASTCompiler.compile`:
it returns an abstract Result whose *shape* is one of SHAPES.  AbsStmt/AbsExpr are field-less
ast.stmt/ast.expr subclasses (the trick Hy itself uses for OuterVar).
"""
import ast
import contextlib
import itertools
import os
import sys
import types

REPO = os.environ.get("HV_REPO", "/repo")
if REPO not in sys.path:
    sys.path.insert(0, REPO)

import hy  # noqa: E402
import hy.compiler as hc  # noqa: E402
import hy.core.result_macros as rm  # noqa: E402
import hy.macros as hmac  # noqa: E402
import hy.models as hm  # noqa: E402
import hy.scoping as hsc  # noqa: E402
# pre-import everything that is imported lazily, before any patch is installed
import hy.core.hy_repr  # noqa: E402,F401
import hy.core.util  # noqa: E402,F401
import hy.pyops  # noqa: E402,F401
import hy.repl  # noqa: E402,F401
import hy.cmdline  # noqa: E402,F401
from hy.compiler import HyASTCompiler, Result  # noqa: E402
from hy.models import Expression, Keyword, List, Object, Symbol  # noqa: E402

assert os.path.realpath(hy.__file__).startswith(os.path.realpath(REPO)), hy.__file__


def S(name):
    return Symbol(name, from_parser=True)


def E(*xs):
    return Expression(xs)


class Tok(Object):
    """Opaque leaf form.  shape in SHAPES; line = source line assigned to the token (for C17)."""

    def __init__(self, name, shape="E", line=1, assigns=(), raises=None):
        self.name, self.shape = name, shape
        self.start_line = self.end_line = line
        self.start_column = self.end_column = 1
        self.assigns = tuple(assigns)     # user names the sub-form assigns (scope side effect)
        self.raises = raises              # exception to raise when compiled (scripted Hy error)

    def __repr__(self):
        return f"<{self.name}:{self.shape}>"

    def __eq__(self, o):
        return self is o

    def __ne__(self, o):
        return self is not o

    def __hash__(self):
        return id(self)

    def __bool__(self):
        return True

    # `copy.copy` is applied by compile_atom; keep identity-relevant fields
    def __copy__(self):
        return self

    def __deepcopy__(self, memo):
        return self

    def replace(self, other, recursive=False):
        return self


_POS = dict(lineno=1, col_offset=1, end_lineno=1, end_col_offset=1)


class AbsStmt(ast.stmt):
    _fields = ()

    def __init__(self, tok):
        super().__init__()
        self.tok = tok
        self.lineno = self.end_lineno = tok.start_line
        self.col_offset = self.end_col_offset = 1

    def __repr__(self):
        return f"S[{self.tok.name}]"

    def __deepcopy__(self, memo):
        return AbsStmt(self.tok)


class AbsExpr(ast.expr):
    _fields = ()

    def __init__(self, tok):
        super().__init__()
        self.tok = tok
        self.lineno = self.end_lineno = tok.start_line
        self.col_offset = self.end_col_offset = 1

    def __repr__(self):
        return f"E[{self.tok.name}]"

    def __deepcopy__(self, memo):
        return AbsExpr(self.tok)


# Shapes of an abstract Result (everything a rule can observe about a compiled child):
#   E   pure expression                      stmts=[]            expr=AbsExpr
#   SE  statements + expression              stmts=[AbsStmt]     expr=AbsExpr
#   S   statements only                      stmts=[AbsStmt]     expr=None
#   T   statements + result temporary        stmts=[Assign(Name tmp, AbsExpr)] expr=Name tmp, temp_variables
#   0   nothing at all (e.g. an empty `do`)  stmts=[]            expr=None
SHAPES_BASIC = ("E", "SE", "S")
SHAPES_ALL = ("E", "SE", "S", "T", "0")

TOK_COMPILE_LOG = []


def compile_tok(compiler, tok):
    TOK_COMPILE_LOG.append(tok)
    if tok.raises is not None:
        raise tok.raises
    for n in tok.assigns:
        compiler.scope.assign(ast.Name(id=n, ctx=ast.Store()))
    sh = tok.shape
    pos = dict(lineno=tok.start_line, end_lineno=tok.end_line, col_offset=1, end_col_offset=1)
    if sh == "E":
        return Result(expr=AbsExpr(tok))
    if sh == "SE":
        return Result(stmts=[AbsStmt(tok)], expr=AbsExpr(tok))
    if sh == "S":
        return Result(stmts=[AbsStmt(tok)])
    if sh == "0":
        return Result()
    if sh == "T":
        var = compiler.get_anon_var()
        st = ast.Name(id=var, ctx=ast.Store(), **pos)
        ld = ast.Name(id=var, ctx=ast.Load(), **pos)
        return Result(stmts=[ast.Assign(targets=[st], value=AbsExpr(tok), **pos)], expr=ld,
                      temp_variables=[ld, st])
    raise ValueError(sh)


hc._model_compilers[Tok] = compile_tok
hm._wrappers[Tok] = lambda x: x


def new_compiler(name="hv_symx_mod", **kw):
    m = types.ModuleType(name)
    return HyASTCompiler(m, **kw)


class Outcome:
    """Result of running a rule: either .result (a Result) or .exc (the exception raised)."""

    def __init__(self, result=None, exc=None, compiler=None, compiled=()):
        self.result, self.exc, self.compiler, self.compiled = result, exc, compiler, compiled

    @property
    def ok(self):
        return self.exc is None


def run_rule(form, compiler=None, scope_ctx=None):
    """Compile `form` (whose leaves are Toks) with the real compiler; callees at the leaves are the
    token contract.  Returns an Outcome."""
    comp = compiler or new_compiler()
    del TOK_COMPILE_LOG[:]
    try:
        with comp.scope:
            with (scope_ctx(comp) if scope_ctx else contextlib.nullcontext()):
                r = comp.compile(form)
        return Outcome(result=r, compiler=comp, compiled=tuple(TOK_COMPILE_LOG))
    except BaseException as e:  # noqa: BLE001 - the exception *is* the observation
        if isinstance(e, (KeyboardInterrupt, SystemExit)):
            raise
        return Outcome(exc=e, compiler=comp, compiled=tuple(TOK_COMPILE_LOG))


def is_hy_user_error(e):
    from hy.errors import HyLanguageError, HyCompileError
    return (isinstance(e, (HyLanguageError, SyntaxError)) and not isinstance(e, HyCompileError))


class Unparser(ast._Unparser):
    def visit_AbsStmt(self, n):
        self.fill(repr(n))

    def visit_AbsExpr(self, n):
        self.write(repr(n))

    def visit_OuterVar(self, n):
        self.fill("outervar " + ", ".join(n.names))


def show(x):
    """Readable rendering of an emission (Result, list of stmts or a node)."""
    if isinstance(x, Result):
        body = show(x.stmts)
        e = "None" if x._expr is None else show(x._expr)
        return (body + "\n" if body else "") + "=> " + e
    if isinstance(x, list):
        return "\n".join(show(n) for n in x)
    try:
        return Unparser().visit(x).strip("\n")
    except Exception as e:  # noqa: BLE001
        return f"<unprintable {type(x).__name__}: {e}>"


def tokens(shapes, prefix="t", **kw):
    """One child per shape: a Tok, or for shape "N" a real user Symbol (the bare-name child kind)."""
    out = []
    for i, s in enumerate(shapes):
        if s == "L":      # a variable bound by an enclosing `let` (hv.rules wraps the form)
            sym = S(f"lv{prefix}{i}")
            sym.start_line = sym.end_line = i + 2
            sym.start_column = sym.end_column = 1
            out.append(sym)
        elif s == "N":
            sym = S(f"u{prefix}{i}")
            sym.start_line = sym.end_line = i + 2
            sym.start_column = sym.end_column = 1
            out.append(sym)
        else:
            out.append(Tok(f"{prefix}{i}", s, line=i + 2, **kw))
    return out


def shape_vectors(n, shapes=SHAPES_BASIC):
    return itertools.product(shapes, repeat=n)


def walk_toks(node):
    """All (kind, tok) atoms occurring in an emission, in AST order."""
    out = []

    def go(n):
        if isinstance(n, AbsStmt):
            out.append(("S", n.tok))
        elif isinstance(n, AbsExpr):
            out.append(("E", n.tok))
        elif isinstance(n, ast.AST):
            for c in ast.iter_child_nodes(n):
                go(c)
        elif isinstance(n, (list, tuple)):
            for c in n:
                go(c)

    go(node)
    return out
