"""pysem: trace semantics of the emitted Python AST fragment, and the shared trace domain.

Both pysem (meaning of what the compiler emitted) and hysem (documented meaning of the Hy form)
run under a *decision oracle*: every question about the opaque tokens ("does this atom raise?",
"is this value truthy?", "does this handler match?", "is the iterator exhausted?") is a recorded
decision.  Exhaustive enumeration of decision vectors + syntactic equality of value terms decides
trace equivalence in EUF + Boolean guards.

Trusted: this file is the model of Python's semantics used by the proofs (cross-validated against
CPython by hv/pysem_validate.py on instantiated emissions).
"""
import ast

from hv.symx.core import AbsExpr, AbsStmt


class Unsupported(Exception):
    "construct outside pysem's subset -> the obligation is undecided, never passed"


# ---------------------------------------------------------------------------------------------
# decision oracle: stateless DFS re-execution
# ---------------------------------------------------------------------------------------------
class Oracle:
    def __init__(self, prefix=(), fixed=None):
        self.prefix, self.i, self.log = list(prefix), 0, []
        self.fixed = fixed or {}
        self.asked = {}

    def choose(self, key, n=2):
        if key in self.asked:
            return self.asked[key]
        if key in self.fixed:
            c = self.fixed[key]
            self.asked[key] = c
            return c
        c = self.prefix[self.i] if self.i < len(self.prefix) else 0
        self.i += 1
        self.log.append((key, c, n))
        self.asked[key] = c
        return c


def explore(run, fixed=None, limit=200000):
    """run(oracle) -> outcome.  Enumerates all decision vectors (DFS).  Returns [(decisions dict, outcome)]."""
    out, stack = [], [[]]
    while stack:
        prefix = stack.pop()
        o = Oracle(prefix, fixed)
        res = run(o)
        out.append((dict(o.asked), res))
        if len(out) > limit:
            raise Unsupported(f"more than {limit} paths")
        for j in range(len(o.log) - 1, len(prefix) - 1, -1):
            k, c, n = o.log[j]
            for alt in range(c + 1, n):
                stack.append([x[1] for x in o.log[:j]] + [alt])
    return out


# ---------------------------------------------------------------------------------------------
# trace domain
# ---------------------------------------------------------------------------------------------
class Abrupt(Exception):
    def __init__(self, kind, val=None):
        self.kind, self.val = kind, val    # raise / return / break / continue / cut


NONE = ("const", None)


def const(v):
    return ("const", v if not isinstance(v, (int, float, complex)) or isinstance(v, bool) else (type(v).__name__, repr(v)))


class Frame:
    """Python scope for compiler temporaries (names starting with _hy_).  User names are events."""

    def __init__(self, parent=None):
        self.vars, self.parent, self.outer = {}, parent, set()

    def lookup(self, n):
        f = self
        while f is not None:
            if n in f.vars and n not in f.outer:
                return f.vars[n]
            f = f.parent
        raise KeyError(n)

    def assign(self, n, v):
        f = self
        if n in self.outer:
            f = self.parent
            while f is not None and n not in f.vars and f.parent is not None:
                f = f.parent
        f.vars[n] = v

    def delete(self, n):
        self.vars.pop(n, None)

    def snapshot(self):
        out, f = {}, self
        while f is not None:
            for k, v in f.vars.items():
                out.setdefault(k, v)
            f = f.parent
        return out


class Ctx:
    """One execution: oracle, trace, occurrence counters, temp store, truthiness memo."""

    MAX_ITERS = 2

    def __init__(self, oracle, atom_abrupt=("raise",), op_raises=False, follow=None, abrupt_by=None, max_iters=None):
        self.o = oracle
        self.trace = []
        self.count = {}
        self.frame = Frame()
        self.memo = {}
        self.atom_abrupt = atom_abrupt      # completion kinds an atom may take besides normal
        self.abrupt_by = abrupt_by or {}    # token name -> completion kinds (overrides atom_abrupt)
        self.op_raises = op_raises
        self.follow = follow                # emitted trace the reference may follow in Args segments
        self.cur_exc = None
        self.thunks = {}
        self.uservals = {}                  # user names whose value is known (stored since the last opaque effect)
        self.heads = {}                     # loop id -> temporaries store at each arrival at the loop head
        if max_iters is not None:
            self.MAX_ITERS = max_iters

    # -- bookkeeping
    def occ(self, key):
        k = self.count.get(key, 0)
        self.count[key] = k + 1
        return k

    def event(self, *ev):
        if ev[0] != "store":
            self.uservals.clear()           # any opaque effect may rebind user variables
        self.trace.append(ev)

    def store_user(self, name, v):
        self.event("store", name, v)
        self.uservals[name] = v

    def load_user(self, name):
        """Reading a variable has no effect of its own; right after a store its value is the stored one."""
        if name in self.uservals:
            return self.uservals[name]
        k = self.occ(("load", name))
        self.event("load", name, k)
        return ("var", name, k)

    def may_raise(self, key):
        return bool(self.o.choose(("raises",) + key))

    # -- atoms
    def atom(self, kind, tok):
        k = self.occ((kind, tok.name))
        self.event(kind, tok.name, k)
        kinds = self.abrupt_by.get(tok.name, self.atom_abrupt)
        if kind != "S":
            kinds = tuple(a for a in kinds if a == "raise")
        c = self.o.choose(("completes", kind, tok.name, k), 1 + len(kinds))
        if c:
            ab = kinds[c - 1]
            if ab == "raise":
                raise Abrupt("raise", ("exc", kind, tok.name, k))
            if ab == "return":
                raise Abrupt("return", ("retval", tok.name, k))
            raise Abrupt(ab)
        return ("val", tok.name, k) if kind == "E" else None

    def op(self, desc, *args, raises=None):
        """A Python-level operation on value terms: an event + a fresh value term."""
        k = self.occ(("op", desc, args))
        self.event("op", desc, args, k)
        if (self.op_raises if raises is None else raises) and self.may_raise(("op", desc, args, k)):
            raise Abrupt("raise", ("exc", "op", desc, args, k))
        return ("app", desc, args, k)

    def truthy(self, v):
        if v[0] == "const":
            x = v[1]
            if x is None or x is False or x == "" or x == b"":
                return False
            if x is True:
                return True
            if isinstance(x, tuple) and x[0] in ("int", "float", "complex"):
                return bool(eval(x[1]))
            return bool(x)
        if v[0] == "not":
            return not self.truthy(v[1])
        if v[0] in ("closure", "hyclosure", "gen", "collect"):
            return True
        if v not in self.memo:
            self.memo[v] = bool(self.o.choose(("truthy", v)))
        return self.memo[v]


def is_temp(name):
    return name.startswith("_hy_")


def _erase_occ(t):
    """Erase occurrence indices so that the stores of two iterations can be compared."""
    if isinstance(t, tuple):
        return tuple(_erase_occ(x) for x in t)
    if isinstance(t, int) and not isinstance(t, bool):
        return "#"
    return t


def at_loop_head(c, loop_id, n):
    """Records the temporaries store at a loop head; at the exploration bound, cuts the path and reports whether the
    store equals the one at the previous arrival (then every further iteration repeats the explored one: the
    one-step simulation argument that makes the loop obligation unbounded)."""
    snap = tuple(sorted((k, _erase_occ(v)) for k, v in c.frame.snapshot().items() if k != "<consumer>"))
    hs = c.heads.setdefault(loop_id, [])
    hs.append(snap)
    if n >= c.MAX_ITERS:
        stable = len(hs) >= 2 and hs[-1] == hs[-2]
        raise Abrupt("cut", ("loop", stable))


# ---------------------------------------------------------------------------------------------
# expressions
# ---------------------------------------------------------------------------------------------
_BINOPS = {c.__name__ for c in (ast.Add, ast.Sub, ast.Mult, ast.Div, ast.FloorDiv, ast.Mod, ast.Pow, ast.LShift,
                                ast.RShift, ast.BitOr, ast.BitXor, ast.BitAnd, ast.MatMult)}


def ev(c, e):
    if isinstance(e, AbsExpr):
        return c.atom("E", e.tok)
    if isinstance(e, ast.Constant):
        return const(e.value)
    if isinstance(e, ast.Name):
        if not isinstance(e.ctx, ast.Load):
            raise Unsupported("non-load Name evaluated")
        if is_temp(e.id):
            try:
                return c.frame.lookup(e.id)
            except KeyError:
                c.event("unbound-temp", e.id)
                raise Abrupt("raise", ("exc", "NameError", e.id))
        return c.load_user(e.id)
    if isinstance(e, ast.IfExp):
        return ev(c, e.body) if c.truthy(ev(c, e.test)) else ev(c, e.orelse)
    if isinstance(e, ast.UnaryOp):
        v = ev(c, e.operand)
        if isinstance(e.op, ast.Not):
            return ("not", v)
        return c.op(("unary", type(e.op).__name__), v)
    if isinstance(e, ast.BoolOp):
        v = None
        for x in e.values:
            v = ev(c, x)
            if c.truthy(v) != isinstance(e.op, ast.And):
                return v
        return v
    if isinstance(e, ast.BinOp):
        l = ev(c, e.left)
        r = ev(c, e.right)
        return c.op(("binop", type(e.op).__name__), l, r)
    if isinstance(e, ast.Compare):
        left = ev(c, e.left)
        res = None
        for op, comp in zip(e.ops, e.comparators):
            right = ev(c, comp)
            res = c.op(("cmp", type(op).__name__), left, right)
            if not c.truthy(res):
                return res
            left = right
        return res
    if isinstance(e, ast.NamedExpr):
        v = ev(c, e.value)
        store(c, e.target, v)
        return v
    if isinstance(e, ast.Call):
        f = ev(c, e.func)
        args = []
        for a in e.args:
            if isinstance(a, ast.Starred):
                args.append(("star", ev(c, a.value)))
            else:
                args.append(ev(c, a))
        kws = []
        for k in e.keywords:
            kws.append((k.arg, ev(c, k.value)))
        if f[0] == "closure" and not kws and simple_params(f[2], len(args)) and not any(isinstance(a, tuple) and a and a[0] == "star" for a in args):
            return call_closure(c, f, args)
        return c.op(("call",), f, tuple(args), tuple(kws))
    if isinstance(e, ast.Attribute):
        v = ev(c, e.value)
        return c.op(("attr", e.attr), v)
    if isinstance(e, ast.Subscript):
        v = ev(c, e.value)
        s = ev_slice(c, e.slice)
        return c.op(("subscript",), v, s)
    if isinstance(e, ast.Slice):
        return ev_slice(c, e)
    if isinstance(e, (ast.List, ast.Tuple, ast.Set)):
        items = []
        for x in e.elts:
            if isinstance(x, ast.Starred):
                items.append(("star", ev(c, x.value)))
            else:
                items.append(ev(c, x))
        return c.op(("build", type(e).__name__), tuple(items))
    if isinstance(e, ast.Dict):
        items = []
        for k, v in zip(e.keys, e.values):
            if k is None:
                items.append(("dstar", ev(c, v)))
            else:
                kk = ev(c, k)
                items.append((kk, ev(c, v)))
        return c.op(("build", "Dict"), tuple(items))
    if isinstance(e, ast.Starred):
        return ("star", ev(c, e.value))
    if isinstance(e, ast.JoinedStr):
        parts = tuple(ev(c, x) for x in e.values)
        return c.op(("joinedstr",), parts)
    if isinstance(e, ast.FormattedValue):
        v = ev(c, e.value)
        spec = ev(c, e.format_spec) if e.format_spec is not None else NONE
        return c.op(("format", e.conversion), v, spec)
    if isinstance(e, ast.Lambda):
        return ("closure", id(e), e)
    if isinstance(e, ast.Yield):
        v = ev(c, e.value) if e.value is not None else NONE
        return do_yield(c, v)
    if isinstance(e, ast.Await):
        v = ev(c, e.value)
        return c.op(("await",), v)
    if isinstance(e, (ast.ListComp, ast.SetComp, ast.GeneratorExp, ast.DictComp)):
        return ev_comp(c, e)
    raise Unsupported("expression " + type(e).__name__)


def ev_slice(c, s):
    if isinstance(s, ast.Slice):
        parts = tuple(ev(c, x) if x is not None else NONE for x in (s.lower, s.upper, s.step))
        return ("slice",) + parts
    if isinstance(s, ast.Index):      # removed in 3.9; hy still builds it via the compat shim
        return ev(c, s.value)
    return ev(c, s)


def simple_params(node, nargs):
    """The closure takes exactly `nargs` plain positional parameters whose names are compiler temporaries."""
    a = node.args
    return not (a.vararg or a.kwarg or a.kwonlyargs or a.posonlyargs or a.defaults) and len(a.args) == nargs \
        and all(is_temp(x.arg) for x in a.args)


def call_closure(c, f, args=()):
    node = f[2]
    if isinstance(node, ast.Lambda):
        if node.args.args or node.args.vararg or node.args.kwarg or node.args.kwonlyargs or node.args.posonlyargs:
            raise Unsupported("call of lambda with parameters")
        return ev(c, node.body)
    is_gen = any(isinstance(n, (ast.Yield, ast.YieldFrom)) for n in ast.walk(ast.Module(body=node.body, type_ignores=[])))
    bound = dict(zip([x.arg for x in node.args.args], args))
    if is_gen:
        return make_gen(c, lambda: run_function(c, node, bound))
    return run_function(c, node, bound)


def make_gen(c, thunk):
    """A generator object: nothing of its body runs at creation; `force` runs it to exhaustion."""
    k = c.occ(("gen",))
    c.event("gen-created", k)
    g = ("gen", k)
    c.thunks[g] = thunk
    return g


def force(c, v):
    """Observe a lazily produced value: a generator is run to exhaustion (its yields become events)."""
    if isinstance(v, tuple) and v and v[0] == "gen" and v in c.thunks:
        c.event("gen-forced", v[1])
        c.thunks.pop(v)()
        return ("collect", "generator", v[1])
    return v


def run_function(c, node, bound=None):
    saved = c.frame
    c.frame = Frame(saved)
    c.frame.vars.update(bound or {})
    for s in node.body:
        if isinstance(s, (ast.Nonlocal, ast.Global)):
            c.frame.outer.update(n for n in s.names if is_temp(n))
    try:
        ex(c, node.body)
        return NONE
    except Abrupt as a:
        if a.kind == "return":
            return a.val
        raise
    finally:
        c.frame = saved


def do_yield(c, v):
    k = c.occ(("yield",))
    c.event("yield", v, k)
    return ("sent", k)


def ev_comp(c, e):
    """Comprehensions: CPython's semantics as nested loops in a scope of their own."""
    gens = e.generators
    kind = type(e).__name__
    if len(gens) == 1 and not gens[0].ifs and isinstance(gens[0].iter, ast.Call) and not gens[0].iter.keywords \
            and not any(isinstance(a, ast.Starred) for a in gens[0].iter.args) \
            and isinstance(gens[0].iter.func, ast.Name) and is_temp(gens[0].iter.func.id) \
            and isinstance(gens[0].target, (ast.Name, ast.Tuple)) \
            and all(isinstance(n, ast.Name) and is_temp(n.id) for n in ast.walk(gens[0].target) if isinstance(n, ast.Name)):
        # the wrapper Hy emits around a lifted generator function: [v for v in _hy_f()] / {k: v for k, v in _hy_f()}:
        # it re-collects exactly the yielded items
        try:
            clo = c.frame.lookup(gens[0].iter.func.id)
        except KeyError:
            clo = None
        if clo is not None and clo[0] == "closure" and not isinstance(clo[2], ast.Lambda) and simple_params(clo[2], len(gens[0].iter.args)):
            args = [ev(c, a) for a in gens[0].iter.args]      # evaluated here, in the enclosing scope, before the body runs
            run_function(c, clo[2], dict(zip([x.arg for x in clo[2].args.args], args)))
            # the generator is consumed on the spot: its body runs to exhaustion here
            return ("collect", kind)

    def run_body():
        saved = c.frame
        c.frame = Frame(saved)
        try:
            def loop(i, first_iter=None):
                if i == len(gens):
                    if kind == "DictComp":
                        kk = ev(c, e.key)
                        vv = ev(c, e.value)
                        do_yield(c, c.op(("build", "Tuple"), (kk, vv)))
                    else:
                        do_yield(c, ev(c, e.elt))
                    return
                g = gens[i]
                if isinstance(g.iter, ast.Tuple) and len(g.iter.elts) == 1 and not isinstance(g.iter.elts[0], ast.Starred):
                    # `for t in (v,)`: binds t to v exactly once (how Hy writes :setv inside a native comprehension)
                    store(c, g.target, ev(c, g.iter.elts[0]))
                    if all(c.truthy(ev(c, t)) for t in g.ifs):
                        loop(i + 1)
                    return
                it = first_iter if (i == 0 and first_iter is not None) else ev(c, g.iter)
                for_loop(c, it, g.target, lambda: all(c.truthy(ev(c, t)) for t in g.ifs) and loop(i + 1), None)
            return loop
        finally:
            pass
    if kind == "GeneratorExp":
        # CPython evaluates the outermost iterable when the generator expression is created; the rest is lazy
        g0 = gens[0]
        eager = None
        if not (isinstance(g0.iter, ast.Tuple) and len(g0.iter.elts) == 1):
            eager = ev(c, g0.iter)
        saved_frame = c.frame

        def thunk():
            sv = c.frame
            c.frame = Frame(saved_frame)
            try:
                run_body()(0, eager)
            finally:
                c.frame = sv
        return make_gen(c, thunk)
    saved = c.frame
    c.frame = Frame(saved)
    try:
        run_body()(0)
    finally:
        c.frame = saved
    return ("collect", kind)


# ---------------------------------------------------------------------------------------------
# statements
# ---------------------------------------------------------------------------------------------
def store(c, t, v):
    if isinstance(t, ast.Name):
        if is_temp(t.id):
            c.frame.assign(t.id, v)
        else:
            c.store_user(t.id, v)
    elif isinstance(t, (ast.Tuple, ast.List)):
        names = []
        for i, x in enumerate(t.elts):
            store(c, x.value if isinstance(x, ast.Starred) else x, ("unpacked", v, i, isinstance(x, ast.Starred)))
    elif isinstance(t, ast.Attribute):
        o = ev(c, t.value)
        c.event("setattr", o, t.attr, v)
    elif isinstance(t, ast.Subscript):
        o = ev(c, t.value)
        s = ev_slice(c, t.slice)
        c.event("setitem", o, s, v)
    elif isinstance(t, AbsExpr):
        c.event("store-into", t.tok.name, v)
    else:
        raise Unsupported("store target " + type(t).__name__)


def for_loop(c, it_val, target, body, orelse, comp=False):
    k = c.occ(("iter",))
    c.event("iter", it_val, k)
    if c.may_raise(("iter", it_val, k)):
        raise Abrupt("raise", ("exc", "iter", it_val, k))
    it = ("iterator", it_val, k)
    n = 0
    while True:
        c.event("next", it, n)
        r = c.o.choose(("next", it, n), 3)     # 0 exhausted, 1 item, 2 raises
        if r == 2:
            raise Abrupt("raise", ("exc", "next", it, n))
        if r == 0:
            break
        at_loop_head(c, ("for", k), n)
        store(c, target, ("item", it, n))
        n += 1
        try:
            body()
        except Abrupt as a:
            if a.kind == "break":
                return
            if a.kind != "continue":
                raise
    if orelse is not None:
        orelse()


def ex(c, stmts):
    for s in stmts:
        ex1(c, s)


def ex1(c, s):
    if isinstance(s, AbsStmt):
        c.atom("S", s.tok)
    elif isinstance(s, ast.Expr):
        ev(c, s.value)
    elif isinstance(s, ast.Assign):
        v = ev(c, s.value)
        for t in s.targets:
            store(c, t, v)
    elif isinstance(s, ast.AnnAssign):
        # CPython: for a simple Name target the annotation is evaluated after the value is stored;
        # either way both are evaluated once.  Order: value, (target sub-exprs), annotation.
        if s.value is not None:
            v = ev(c, s.value)
            store(c, s.target, v)
        a = ev(c, s.annotation)
        c.event("annotate", ast.dump(s.target) if not isinstance(s.target, ast.Name) else s.target.id, a)
    elif isinstance(s, ast.AugAssign):
        t = s.target
        if isinstance(t, ast.Name):
            cur = ev(c, ast.Name(id=t.id, ctx=ast.Load()))
            v = ev(c, s.value)
            store(c, t, c.op(("augop", type(s.op).__name__), cur, v))
        else:
            raise Unsupported("augassign target")
    elif isinstance(s, ast.If):
        ex(c, s.body if c.truthy(ev(c, s.test)) else s.orelse)
    elif isinstance(s, ast.Pass):
        pass
    elif isinstance(s, (ast.Global, ast.Nonlocal)):
        pass
    elif isinstance(s, ast.Raise):
        exc = ev(c, s.exc) if s.exc is not None else None
        cause = ev(c, s.cause) if s.cause is not None else None
        if exc is None:
            c.event("reraise")
            raise Abrupt("raise", c.cur_exc if c.cur_exc is not None else ("exc", "RuntimeError", "no active exception"))
        c.event("raise", exc, cause)
        raise Abrupt("raise", ("raised", exc, cause))
    elif isinstance(s, ast.Return):
        raise Abrupt("return", ev(c, s.value) if s.value is not None else NONE)
    elif isinstance(s, ast.Break):
        raise Abrupt("break")
    elif isinstance(s, ast.Continue):
        raise Abrupt("continue")
    elif isinstance(s, (ast.With, ast.AsyncWith)):
        ex_with(c, s)
    elif isinstance(s, ast.Try) or type(s).__name__ == "TryStar":
        ex_try(c, s)
    elif isinstance(s, ast.While):
        ex_while(c, s)
    elif isinstance(s, (ast.For, ast.AsyncFor)):
        it = ev(c, s.iter)
        for_loop(c, it, s.target, lambda: ex(c, s.body), (lambda: ex(c, s.orelse)) if s.orelse else None)
    elif isinstance(s, (ast.FunctionDef, ast.AsyncFunctionDef)):
        if s.decorator_list:
            raise Unsupported("function with decorators in pysem")
        # executing a `def` evaluates its parameter defaults, positional ones first, then keyword-only ones, left to right
        # (annotations are not modelled); the function can then be passed around but not called by this interpreter
        for d in list(s.args.defaults) + [d for d in s.args.kw_defaults if d is not None]:
            ev(c, d)
        if any(a.annotation is not None for a in s.args.posonlyargs + s.args.args + s.args.kwonlyargs) or s.returns is not None:
            raise Unsupported("function with annotations in pysem")
        clo = ("closure", id(s), s)
        if is_temp(s.name):
            c.frame.assign(s.name, clo)
        else:
            c.event("def", s.name)
    elif isinstance(s, ast.Delete):
        for t in s.targets:
            if isinstance(t, ast.Name) and is_temp(t.id):
                c.frame.delete(t.id)
            else:
                c.event("del", ast.dump(t))
    elif isinstance(s, ast.Assert):
        v = ev(c, s.test)
        if not c.truthy(v):
            m = ev(c, s.msg) if s.msg is not None else None
            c.event("assert-fail", m)
            raise Abrupt("raise", ("AssertionError", m))
    elif isinstance(s, ast.Match):
        ex_match(c, s)
    else:
        raise Unsupported("statement " + type(s).__name__)


def ex_while(c, s):
    n = 0
    while True:
        if not c.truthy(ev(c, s.test)):
            ex(c, s.orelse)
            return
        at_loop_head(c, ("while", id(s)), n)
        n += 1
        try:
            ex(c, s.body)
        except Abrupt as a:
            if a.kind == "break":
                return
            if a.kind != "continue":
                raise


def do_enter(c, m):
    k = c.occ(("enter", m))
    c.event("enter", m, k)
    if c.may_raise(("enter", m, k)):
        raise Abrupt("raise", ("exc", "enter", m, k))
    return ("entered", m, k)


def do_exits(c, entered, a):
    """entered: list of manager values, innermost last.  a: pending Abrupt or None.  Returns pending Abrupt."""
    for m in reversed(entered):
        exc = a.val if (a is not None and a.kind == "raise") else None
        k = c.occ(("exit", m))
        c.event("exit", m, exc, k)
        if c.may_raise(("exit", m, k)):
            a = Abrupt("raise", ("exc", "exit", m, k))
        elif exc is not None and c.o.choose(("suppress", m, k)):
            a = None
    return a


def ex_with(c, s):
    entered = []
    a = None
    try:
        for it in s.items:
            m = ev(c, it.context_expr)
            v = do_enter(c, m)
            entered.append(m)
            if it.optional_vars is not None:
                store(c, it.optional_vars, v)
        ex(c, s.body)
    except Abrupt as ab:
        a = ab
    a = do_exits(c, entered, a)
    if a is not None:
        raise a


def ex_try(c, s):
    def run_finally(pending):
        if s.finalbody:
            ex(c, s.finalbody)      # an abrupt completion of finally replaces `pending`
        if pending is not None:
            raise pending

    pending = None
    try:
        try:
            ex(c, s.body)
        except Abrupt as a:
            if a.kind != "raise":
                raise
            handled = False
            for h in s.handlers:
                if h.type is not None:
                    t = ev(c, h.type)
                    k = c.occ(("match", a.val, t))
                    c.event("except-match", a.val, t, k)
                    if not c.o.choose(("matches", a.val, t, k)):
                        continue
                handled = True
                saved_exc = c.cur_exc
                c.cur_exc = a.val
                if h.name:
                    if is_temp(h.name):
                        c.frame.assign(h.name, ("caught", a.val))
                    else:
                        c.store_user(h.name, ("caught", a.val))
                try:
                    ex(c, h.body)
                finally:
                    c.cur_exc = saved_exc
                    if h.name:
                        if is_temp(h.name):
                            c.frame.delete(h.name)
                        else:
                            c.event("del", h.name)
                break
            if not handled:
                raise
        else:
            ex(c, s.orelse)
    except Abrupt as a:
        pending = a
    run_finally(pending)


def ex_match(c, s):
    subj = ev(c, s.subject)
    for i, case in enumerate(s.cases):
        k = c.occ(("case", subj, i))
        c.event("case-test", subj, i, k)
        if not c.o.choose(("case-matches", subj, i, k)):
            continue
        if case.guard is not None and not c.truthy(ev(c, case.guard)):
            continue
        ex(c, case.body)
        return


# ---------------------------------------------------------------------------------------------
# running a Result
# ---------------------------------------------------------------------------------------------
def outcome(c, body):
    """Run `body(c) -> value term`; returns the observable outcome (trace, completion, value)."""
    try:
        v = body(c)
        return (tuple(c.trace), "value", v)
    except Abrupt as a:
        return (tuple(c.trace), a.kind, a.val)


def run_result(result, **ctxkw):
    def run(o):
        c = Ctx(o, **ctxkw)

        def body(c):
            ex(c, result.stmts)
            return force(c, ev(c, result._expr) if result._expr is not None else NONE)
        return outcome(c, body)
    return run
