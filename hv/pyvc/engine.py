"""pyvc: static verification-condition generation over the *source AST* of real functions of /repo.

The function's AST is read from the file on disk on every run (for .hy files: the AST hy_compile yields for
the file, i.e. what Hy's importer turns into bytecode).  Forward symbolic execution, one path at a time;
every `ensures` / `raises` / invariant / callee-`requires` becomes one SMT obligation `path => clause`,
discharged by z3 and, for what z3 leaves unknown, by /usr/bin/cvc5 --strings-exp.

Subset (anything else raises Unsupported -> the obligation is undecided, never passed):
assignments (incl. tuple unpacking, attribute/subscript stores on modelled objects), augmented assignment,
if / while (with a sidecar invariant) / for over concrete sequences, try/except/else/finally, with (inlined
@contextmanager generators of the shape `pre; try: yield; finally: post`, or a model hook), return, raise,
break, continue, pass, global, nonlocal, nested defs (closures, inlined at the call), conditional expressions,
boolean operators with short-circuit, comparisons, arithmetic on Int, concatenation on Str, f-strings,
tuples, calls (model hook -> closure -> whitelisted native call on concrete arguments).
Encoding assumptions: Python int = mathematical Int (exact); str = SMT Unicode string; no aliasing other than
through the modelled objects; a call without a model may not be made (Unsupported).
"""
import ast
import copy
import os
import subprocess
import tempfile
import time

import z3


class Unsupported(Exception):
    pass


# ---------------------------------------------------------------------------------------------------------------
# values
# ---------------------------------------------------------------------------------------------------------------
class PyConst:
    """A concrete Python object (class, function, constant) taken from the live module namespace."""
    __slots__ = ("obj",)

    def __init__(self, obj):
        self.obj = obj

    def __repr__(self):
        return f"PyConst({self.obj!r})"


class Tup:
    __slots__ = ("items",)

    def __init__(self, items):
        self.items = tuple(items)

    def __repr__(self):
        return f"Tup{self.items!r}"


class Lst:
    """A Python list of statically known length (elements symbolic)."""

    def __init__(self, items):
        self.items = list(items)


class Encoded:
    """s.encode(<a UTF encoding>): only its length is modelled - an uninterpreted function of the string, at least one code
    unit per character."""

    def __init__(self, s):
        self.s = s


ENCODED_LEN = z3.Function("encoded_len", z3.StringSort(), z3.IntSort())


class Closure:
    def __init__(self, node, frame, name=None):
        self.node, self.frame, self.name = node, frame, name


class ExcVal:
    """An exception value: `cls` is a real exception class (PyConst) or the string name of an abstract class."""

    def __init__(self, cls, args=(), tag=None):
        self.cls, self.args, self.tag = cls, tuple(args), tag

    def __repr__(self):
        return f"ExcVal({getattr(self.cls, '__name__', self.cls)}, {self.tag})"


class Obj:
    """A modelled mutable object: fields live in the state (so that forks are independent)."""
    _n = 0

    def __init__(self, kind, oid=None):
        if oid is None:
            Obj._n += 1
            oid = Obj._n
        self.kind, self.oid = kind, oid

    def __repr__(self):
        return f"<{self.kind}#{self.oid}>"


NONE = PyConst(None)
TRUE = PyConst(True)
FALSE = PyConst(False)


def is_z3(v):
    return isinstance(v, z3.ExprRef)


# ---------------------------------------------------------------------------------------------------------------
# state
# ---------------------------------------------------------------------------------------------------------------
class Frame:
    def __init__(self, parent=None):
        self.vars, self.parent = {}, parent
        self.globals_decl, self.nonlocal_decl = set(), set()

    def lookup_frame(self, n):
        f = self
        while f is not None:
            if n in f.vars:
                return f
            f = f.parent
        return None


class State:
    def __init__(self):
        self.pc = []
        self.frame = Frame()
        self.globals = {}            # module globals under verification (name -> value)
        self.fields = {}             # (oid, field) -> value
        self.ghost = {}
        self.log = []                # ghost event log (list of tuples)
        self.cur_exc = None

    def fork(self):
        memo = {}

        def cp(x):
            if isinstance(x, Frame):
                if id(x) in memo:
                    return memo[id(x)]
                f = Frame(None)
                memo[id(x)] = f
                f.parent = cp(x.parent) if x.parent is not None else None
                f.globals_decl, f.nonlocal_decl = set(x.globals_decl), set(x.nonlocal_decl)
                f.vars = {k: cp(v) for k, v in x.vars.items()}
                return f
            if isinstance(x, Closure):
                return Closure(x.node, cp(x.frame), x.name)
            if isinstance(x, Tup):
                return Tup(cp(i) for i in x.items)
            if isinstance(x, Lst):
                if id(x) in memo:
                    return memo[id(x)]
                l = Lst([])
                memo[id(x)] = l
                l.items = [cp(i) for i in x.items]
                return l
            if isinstance(x, dict):
                return {k: cp(v) for k, v in x.items()}
            if isinstance(x, list):
                return [cp(v) for v in x]
            if isinstance(x, tuple):
                return tuple(cp(v) for v in x)
            return x
        s = State()
        s.pc = list(self.pc)
        s.frame = cp(self.frame)
        s.globals = cp(self.globals)
        s.fields = cp(self.fields)
        s.ghost = cp(self.ghost)
        s.log = list(self.log)
        s.cur_exc = self.cur_exc
        return s


class Path:
    def __init__(self, st, kind="normal", val=None):
        self.st, self.kind, self.val = st, kind, val


# ---------------------------------------------------------------------------------------------------------------
# solver back ends
# ---------------------------------------------------------------------------------------------------------------
CVC5 = "/usr/bin/cvc5"
STATS = {"z3": 0, "cvc5": 0, "time": 0.0, "queries": 0}


def bool_as_int(v):
    return z3.If(v, z3.IntVal(1), z3.IntVal(0)) if is_z3(v) and z3.is_bool(v) else v


def same_value(a, b):
    """a == b for z3 values that may be Bool on one side and Int on the other (Python: True == 1)."""
    if is_z3(a) and is_z3(b) and z3.is_bool(a) != z3.is_bool(b):
        return bool_as_int(a) == bool_as_int(b)
    return a == b


def feasible(pc):
    s = z3.Solver()
    s.set("timeout", 2000)
    s.add(*pc)
    return s.check() != z3.unsat


def prove(pc, goal, timeout_ms=4000):
    """Returns (status, model_or_reason): status in proved / refuted / unknown."""
    t0 = time.time()
    STATS["queries"] += 1
    s = z3.Solver()
    s.set("timeout", timeout_ms)
    s.add(*pc)
    s.add(z3.Not(goal))
    r = s.check()
    STATS["time"] += time.time() - t0
    if r == z3.unsat:
        STATS["z3"] += 1
        return "proved", "z3"
    if r == z3.sat:
        return "refuted", s.model()
    # second opinion: cvc5 on the same query
    t0 = time.time()
    try:
        smt = "(set-logic ALL)\n" + s.to_smt2()
        with tempfile.NamedTemporaryFile("w", suffix=".smt2", delete=False, dir=os.environ.get("HV_SCRATCH") or None) as f:
            f.write(smt)
            path = f.name
        # cvc5 gets a longer budget than z3: it is the last resort, and a verdict must not flip to `unknown` when all cores are busy
        climit = max(timeout_ms * 5, 20000)
        out = subprocess.run([CVC5, "--strings-exp", f"--tlimit={climit}", path], capture_output=True, text=True,
                             timeout=climit / 1000 + 5).stdout.strip()
        os.unlink(path)
    except Exception as e:  # noqa: BLE001
        out = f"error: {e}"
    STATS["time"] += time.time() - t0
    if out.startswith("unsat"):
        STATS["cvc5"] += 1
        return "proved", "cvc5"
    if out.startswith("sat"):
        return "refuted", "cvc5: sat (no model extracted)"
    return "unknown", f"z3: {s.reason_unknown()}; cvc5: {out[:80]}"


# ---------------------------------------------------------------------------------------------------------------
# the executor
# ---------------------------------------------------------------------------------------------------------------
class Model:
    """Per-target hooks.  Subclass and override; return NotImplemented to fall through to the defaults."""

    def call(self, ex, st, fval, args, kwargs, node):
        return NotImplemented

    def getattr(self, ex, st, obj, name, node):
        return NotImplemented

    def setattr(self, ex, st, obj, name, val, node):
        return NotImplemented

    def truthy(self, ex, st, v):
        return NotImplemented

    def name(self, ex, st, n):
        return NotImplemented

    def subscript(self, ex, st, obj, idx, node):
        return NotImplemented

    def compare(self, ex, st, op, a, b):
        return NotImplemented

    def with_enter(self, ex, st, cm, node):
        """-> (list of Paths after __enter__ with .val = entered value, exit_fn(ex, st, exc_or_None) -> list of Paths)"""
        return NotImplemented

    def loop_invariant(self, ex, st, node, ordinal):
        return None

    def augassign(self, ex, st, node, a, b):
        """-> the new value of an augmented assignment `a op= b` (in-place semantics are the model's business), or NotImplemented"""
        return NotImplemented

    def binop(self, ex, st, op, a, b):
        return NotImplemented

    def listcomp(self, ex, st, node):
        """-> list of Paths for a list comprehension, or NotImplemented"""
        return NotImplemented

    def native_ok(self, f):
        return False


class Executor:
    def __init__(self, module_ast, namespace, model, fn_name="?"):
        self.module_ast, self.ns, self.model = module_ast, namespace, model
        self.obligations = []       # (name, pc, goal)
        self.fn_name = fn_name
        self.loop_ordinal = 0
        self.fresh_n = 0
        self.npaths = 0

    # ---- helpers
    def fresh(self, sort, hint="v"):
        self.fresh_n += 1
        return z3.Const(f"{hint}!{self.fresh_n}", sort)

    def oblige(self, name, st, goal):
        self.obligations.append((name, list(st.pc), goal))

    def lift(self, v):
        if isinstance(v, bool):
            return z3.BoolVal(v)
        if isinstance(v, int):
            return z3.IntVal(v)
        if isinstance(v, str):
            return z3.StringVal(v)
        raise Unsupported(f"lift {v!r}")

    def as_bool(self, st, v):
        """Python truthiness as a z3 Bool (or a Python bool for concrete values)."""
        r = self.model.truthy(self, st, v)
        if r is not NotImplemented:
            return r
        if isinstance(v, PyConst):
            return bool(v.obj)
        if is_z3(v):
            if z3.is_bool(v):
                return v
            if z3.is_int(v):
                return v != 0
            if z3.is_string(v):
                return z3.Length(v) > 0
        if isinstance(v, (Tup,)):
            return len(v.items) > 0
        if isinstance(v, Lst):
            return len(v.items) > 0
        if isinstance(v, (Closure, Obj, ExcVal)):
            return True
        raise Unsupported(f"truthiness of {v!r}")

    def branch(self, st, cond):
        """-> [(state, bool)] for the feasible outcomes of a condition."""
        if isinstance(cond, bool):
            return [(st, cond)]
        cond = z3.simplify(cond)
        if z3.is_true(cond):
            return [(st, True)]
        if z3.is_false(cond):
            return [(st, False)]
        out = []
        for val in (True, False):
            c = cond if val else z3.Not(cond)
            if feasible(st.pc + [c]):
                s2 = st.fork()
                s2.pc.append(c)
                out.append((s2, val))
        return out

    # ---- name resolution
    def load_name(self, st, n, node=None):
        r = self.model.name(self, st, n)
        if r is not NotImplemented:
            return r
        f = st.frame
        if n in f.globals_decl:
            if n in st.globals:
                return st.globals[n]
        fr = f.lookup_frame(n)
        if fr is not None:
            return fr.vars[n]
        if n in st.globals:
            return st.globals[n]
        if n in self.ns:
            return PyConst(self.ns[n])
        import builtins
        if hasattr(builtins, n):
            return PyConst(getattr(builtins, n))
        r = self.module_level(n)
        if r is not None:
            return r
        raise Unsupported(f"unbound name {n}")

    def module_level(self, n):
        """A name bound at the top level of the module under verification: a plain function (run like a nested closure with no
        enclosing frame) or a constant built from literals (evaluated natively with no names in scope but a few pure builtins).
        This is what a helper or a constant hoisted out of the function under contract turns into."""
        body = getattr(self.module_ast, "body", [])
        for s in reversed(body):
            if isinstance(s, ast.FunctionDef) and s.name == n and not s.decorator_list:
                return Closure(s, Frame(None), name=n)
            if isinstance(s, ast.Assign) and len(s.targets) == 1 and isinstance(s.targets[0], ast.Name) and s.targets[0].id == n:
                pure = {"frozenset": frozenset, "set": set, "tuple": tuple, "dict": dict, "list": list, "str": str, "len": len, "range": range,
                        "sorted": sorted}
                if all(isinstance(x, ast.Name) and x.id in pure for x in ast.walk(s.value) if isinstance(x, ast.Name)) and not any(
                        isinstance(x, (ast.Attribute, ast.Lambda, ast.Await, ast.Yield, ast.NamedExpr)) for x in ast.walk(s.value)):
                    try:
                        v = eval(compile(ast.Expression(s.value), "<module constant>", "eval"), {"__builtins__": {}}, dict(pure))  # noqa: S307
                    except Exception:  # noqa: BLE001
                        return None
                    return self.wrap_native(v)
                return None
        return None

    def store_name(self, st, n, v):
        f = st.frame
        if n in f.globals_decl:
            st.globals[n] = v
            return
        if n in f.nonlocal_decl:
            fr = f.parent.lookup_frame(n) if f.parent else None
            if fr is None:
                raise Unsupported(f"nonlocal {n} not found")
            fr.vars[n] = v
            return
        f.vars[n] = v

    # ---- expressions: each returns a list of Paths (kind normal with .val, or raise)
    def ev(self, st, e):
        m = getattr(self, "ev_" + type(e).__name__, None)
        if m is None:
            raise Unsupported(f"expression {type(e).__name__} in {self.fn_name}")
        return m(st, e)

    def ev_list(self, st, exprs):
        """Evaluate expressions left to right; -> list of (state, [values]) or raise-paths."""
        outs = [(st, [])]
        raised = []
        for x in exprs:
            nxt = []
            for s, vals in outs:
                for p in self.ev(s, x):
                    if p.kind == "normal":
                        nxt.append((p.st, vals + [p.val]))
                    else:
                        raised.append(p)
            outs = nxt
        return outs, raised

    def ev_Constant(self, st, e):
        v = e.value
        if isinstance(v, bool):
            return [Path(st, "normal", z3.BoolVal(v))]
        if v is None or isinstance(v, (bytes, float)) or v is Ellipsis:
            return [Path(st, "normal", PyConst(v))]
        if isinstance(v, int):
            return [Path(st, "normal", z3.IntVal(v))]
        if isinstance(v, str):
            return [Path(st, "normal", z3.StringVal(v))]
        raise Unsupported(f"constant {v!r}")

    def ev_Name(self, st, e):
        try:
            return [Path(st, "normal", self.load_name(st, e.id, e))]
        except Unsupported:
            # a local of the function under verification (a name the function assigns somewhere) read before it is bound: Python
            # raises UnboundLocalError here - this is behaviour of the code, not a gap of the generator
            fn = getattr(self, "fn_node", None)
            if fn is not None and any(isinstance(n, ast.Name) and n.id == e.id and isinstance(n.ctx, ast.Store) for n in ast.walk(fn)) \
                    and not any(isinstance(n, (ast.Global, ast.Nonlocal)) and e.id in n.names for n in ast.walk(fn)):
                return [Path(st, "raise", ExcVal(PyConst(UnboundLocalError), tag=f"local {e.id} read before assignment"))]
            raise

    def ev_Tuple(self, st, e):
        outs, raised = self.ev_list(st, e.elts)
        return [Path(s, "normal", Tup(v)) for s, v in outs] + raised

    def ev_List(self, st, e):
        outs, raised = self.ev_list(st, e.elts)
        return [Path(s, "normal", Lst(v)) for s, v in outs] + raised

    def ev_JoinedStr(self, st, e):
        parts = []
        for v in e.values:
            parts.append(v.value if isinstance(v, ast.FormattedValue) else v)
        outs, raised = self.ev_list(st, parts)
        res = []
        for s, vals in outs:
            acc = z3.StringVal("")
            for v in vals:
                acc = z3.Concat(acc, self.to_str(v))
            res.append(Path(s, "normal", z3.simplify(acc)))
        return res + raised

    def to_str(self, v):
        if is_z3(v):
            if z3.is_string(v):
                return v
            if z3.is_int(v):
                return z3.IntToStr(v)      # exact for v >= 0 (the only use: counters)
        if isinstance(v, PyConst) and isinstance(v.obj, str):
            return z3.StringVal(v.obj)
        # the text of any other value (str() / repr() / format() of an object nothing is known about): an arbitrary string, the
        # same one for the same value
        key = ("text-of", id(v) if not isinstance(v, Obj) else ("obj", v.oid))
        memo = self.__dict__.setdefault("_text_of", {})
        if key not in memo:
            memo[key] = (v, self.fresh(z3.StringSort(), "text_of"))
        return memo[key][1]

    def ev_ListComp(self, st, e):
        r = self.model.listcomp(self, st, e)
        if r is NotImplemented:
            raise Unsupported("list comprehension without a model")
        return r

    def ev_IfExp(self, st, e):
        out = []
        for p in self.ev(st, e.test):
            if p.kind != "normal":
                out.append(p)
                continue
            for s2, val in self.branch(p.st, self.as_bool(p.st, p.val)):
                out += self.ev(s2, e.body if val else e.orelse)
        return out

    def ev_BoolOp(self, st, e):
        is_and = isinstance(e.op, ast.And)

        def go(s, i):
            out = []
            for p in self.ev(s, e.values[i]):
                if p.kind != "normal":
                    out.append(p)
                    continue
                if i == len(e.values) - 1:
                    out.append(p)
                    continue
                for s2, val in self.branch(p.st, self.as_bool(p.st, p.val)):
                    if val == is_and:
                        out += go(s2, i + 1)
                    else:
                        out.append(Path(s2, "normal", p.val))
            return out
        return go(st, 0)

    def ev_UnaryOp(self, st, e):
        out = []
        for p in self.ev(st, e.operand):
            if p.kind != "normal":
                out.append(p)
                continue
            if isinstance(e.op, ast.Not):
                b = self.as_bool(p.st, p.val)
                out.append(Path(p.st, "normal", (not b) if isinstance(b, bool) else z3.Not(b)))
                if isinstance(out[-1].val, bool):
                    out[-1].val = PyConst(out[-1].val)
            elif isinstance(e.op, ast.USub) and is_z3(p.val):
                out.append(Path(p.st, "normal", -p.val))
            else:
                raise Unsupported("unary op")
        return out

    def binop(self, st, op, a, b):
        r = self.model.binop(self, st, op, a, b)
        if r is not NotImplemented:
            return r
        return self._binop(st, op, a, b)

    def _binop(self, st, op, a, b):
        if isinstance(a, PyConst) and isinstance(b, PyConst):
            import operator
            f = {ast.Add: operator.add, ast.Sub: operator.sub, ast.Mult: operator.mul}.get(type(op))
            if f:
                return self.wrap_native(f(a.obj, b.obj))
        if is_z3(a) and is_z3(b):
            if z3.is_int(a) and z3.is_int(b):
                if isinstance(op, ast.Add):
                    return a + b
                if isinstance(op, ast.Sub):
                    return a - b
                if isinstance(op, ast.Mult):
                    return a * b
            if z3.is_string(a) and z3.is_string(b) and isinstance(op, ast.Add):
                return z3.Concat(a, b)
        if isinstance(a, Tup) and isinstance(b, Tup) and isinstance(op, ast.Add):
            return Tup(a.items + b.items)
        if isinstance(a, Lst) and isinstance(b, Lst) and isinstance(op, ast.Add):
            return Lst(a.items + b.items)
        if is_z3(a) and is_z3(b) and (z3.is_bool(a) or z3.is_bool(b)) and isinstance(op, (ast.Add, ast.Sub, ast.Mult)):
            # bool is a subtype of int: True + 1 == 2
            return self.binop(st, op, bool_as_int(a), bool_as_int(b))
        raise Unsupported(f"binop {type(op).__name__} on {a!r}, {b!r}")

    def wrap_native(self, v):
        if isinstance(v, bool) or v is None:
            return PyConst(v)
        if isinstance(v, int):
            return z3.IntVal(v)
        if isinstance(v, str):
            return z3.StringVal(v)
        if isinstance(v, tuple):
            return Tup(self.wrap_native(x) for x in v)
        return PyConst(v)

    def ev_BinOp(self, st, e):
        outs, raised = self.ev_list(st, [e.left, e.right])
        return [Path(s, "normal", self.binop(s, e.op, a, b)) for s, (a, b) in outs] + raised

    def concrete(self, v):
        """Python value of a concrete symbolic value, or raise LookupError."""
        if isinstance(v, PyConst):
            return v.obj
        if is_z3(v):
            v = z3.simplify(v)
            if z3.is_int_value(v):
                return v.as_long()
            if z3.is_string_value(v):
                return v.as_string()
            if z3.is_true(v):
                return True
            if z3.is_false(v):
                return False
        if isinstance(v, Tup):
            return tuple(self.concrete(x) for x in v.items)
        raise LookupError

    def compare1(self, st, op, a, b):
        r = self.model.compare(self, st, op, a, b)
        if r is not NotImplemented:
            return r
        if isinstance(op, (ast.Is, ast.IsNot)):
            neg = isinstance(op, ast.IsNot)
            if isinstance(a, PyConst) and isinstance(b, PyConst):
                return (a.obj is not b.obj) if neg else (a.obj is b.obj)
            if isinstance(a, PyConst) != isinstance(b, PyConst):
                other = b if isinstance(a, PyConst) else a
                const = a if isinstance(a, PyConst) else b
                if const.obj is None and (is_z3(other) or isinstance(other, (Tup, Lst, Obj, Closure, ExcVal))):
                    return neg
            if isinstance(a, Obj) and isinstance(b, Obj):
                return (a.oid != b.oid) if neg else (a.oid == b.oid)
            raise Unsupported(f"`is` on {a!r}, {b!r}")
        if isinstance(op, (ast.Eq, ast.NotEq)):
            neg = isinstance(op, ast.NotEq)
            try:
                r = self.concrete(a) == self.concrete(b)
                return (not r) if neg else r
            except LookupError:
                pass
            if is_z3(a) and isinstance(b, PyConst) or is_z3(b) and isinstance(a, PyConst):
                z, c = (a, b) if is_z3(a) else (b, a)
                if isinstance(c.obj, str) and z3.is_string(z):
                    r = z == z3.StringVal(c.obj)
                elif isinstance(c.obj, bool) and z3.is_bool(z):
                    r = z == z3.BoolVal(c.obj)
                elif isinstance(c.obj, int) and z3.is_int(z):
                    r = z == z3.IntVal(c.obj)
                else:
                    r = z3.BoolVal(False)
                return z3.Not(r) if neg else r
            if is_z3(a) and is_z3(b) and a.sort() == b.sort():
                return (a != b) if neg else (a == b)
            if isinstance(a, Tup) and isinstance(b, Tup):
                if len(a.items) != len(b.items):
                    return neg
                cs = [self.compare1(st, ast.Eq(), x, y) for x, y in zip(a.items, b.items)]
                cs = [z3.BoolVal(c) if isinstance(c, bool) else c for c in cs]
                r = z3.And(*cs) if cs else z3.BoolVal(True)
                return z3.Not(r) if neg else r
            raise Unsupported(f"== on {a!r}, {b!r}")
        if is_z3(a) and is_z3(b) and z3.is_int(a) and z3.is_int(b):
            return {ast.Lt: a < b, ast.LtE: a <= b, ast.Gt: a > b, ast.GtE: a >= b}[type(op)]
        if isinstance(op, (ast.In, ast.NotIn)):
            neg = isinstance(op, ast.NotIn)
            if isinstance(b, (Tup, Lst)):
                cs = [self.compare1(st, ast.Eq(), a, x) for x in b.items]
                cs = [z3.BoolVal(c) if isinstance(c, bool) else c for c in cs]
                r = z3.Or(*cs) if cs else z3.BoolVal(False)
                return z3.Not(r) if neg else r
            if is_z3(b) and z3.is_string(b):
                aa = a if is_z3(a) else z3.StringVal(self.concrete(a))
                r = z3.Contains(b, aa)
                return z3.Not(r) if neg else r
            if isinstance(b, PyConst) and isinstance(b.obj, (str, tuple, list, set, frozenset, dict)):
                try:
                    r = self.concrete(a) in b.obj
                    return (not r) if neg else r
                except LookupError:
                    if isinstance(b.obj, str) and is_z3(a) and z3.is_string(a):
                        r = z3.Contains(z3.StringVal(b.obj), a)
                        return z3.Not(r) if neg else r
        raise Unsupported(f"compare {type(op).__name__} on {a!r}, {b!r}")

    def ev_Compare(self, st, e):
        # a OP b OP c: every operand evaluated once, left to right (operands here are side-effect free: names, constants,
        # len() calls), conjunction of the pairwise comparisons
        outs, raised = self.ev_list(st, [e.left] + list(e.comparators))
        res = []
        for s, vals in outs:
            cs = []
            for op, a, b in zip(e.ops, vals, vals[1:]):
                r = self.compare1(s, op, a, b)
                cs.append(z3.BoolVal(r) if isinstance(r, bool) else r)
            r = cs[0] if len(cs) == 1 else z3.And(*cs)
            r = z3.simplify(r)
            res.append(Path(s, "normal", r))
        return res + raised

    def ev_Attribute(self, st, e):
        out = []
        for p in self.ev(st, e.value):
            if p.kind != "normal":
                out.append(p)
                continue
            out += self.getattr(p.st, p.val, e.attr, e)
        return out

    def getattr(self, st, obj, name, node):
        r = self.model.getattr(self, st, obj, name, node)
        if r is not NotImplemented:
            return r if isinstance(r, list) else [Path(st, "normal", r)]
        if is_z3(obj) and z3.is_string(obj) and name == "encode":
            return [Path(st, "normal", BoundNative(Encoded(obj), "__encode__"))]
        if isinstance(obj, Obj):
            if (obj.oid, name) in st.fields:
                return [Path(st, "normal", st.fields[(obj.oid, name)])]
            raise Unsupported(f"field {obj.kind}.{name} not modelled")
        if isinstance(obj, PyConst):
            try:
                return [Path(st, "normal", BoundNative(obj.obj, name) if callable(getattr(obj.obj, name)) and not isinstance(getattr(obj.obj, name), type)
                             else self.wrap_native(getattr(obj.obj, name)))]
            except AttributeError:
                raise Unsupported(f"attribute {name} of {obj!r}")
        raise Unsupported(f"getattr {name} on {obj!r}")

    def ev_Subscript(self, st, e):
        outs, raised = self.ev_list(st, [e.value, e.slice] if not isinstance(e.slice, ast.Slice) else [e.value])
        res = []
        for s, vals in outs:
            obj = vals[0]
            if isinstance(e.slice, ast.Slice):
                res += self.slice_of(s, obj, e.slice)
                continue
            idx = vals[1]
            r = self.model.subscript(self, s, obj, idx, e)
            if r is not NotImplemented:
                res += r if isinstance(r, list) else [Path(s, "normal", r)]
                continue
            if isinstance(obj, (Tup, Lst)):
                try:
                    res.append(Path(s, "normal", obj.items[self.concrete(idx)]))
                    continue
                except LookupError:
                    pass
            if is_z3(obj) and z3.is_string(obj) and is_z3(idx) and z3.is_int(idx):
                # s[i] for 0 <= i < len(s); outside that range Python raises IndexError (negative indexes are not modelled:
                # the path condition must exclude them, otherwise the IndexError path is reported)
                inr = z3.And(idx >= 0, idx < z3.Length(obj))
                for s2, ok in self.branch(s, inr):
                    if ok:
                        res.append(Path(s2, "normal", z3.SubString(obj, idx, 1)))
                    else:
                        res.append(Path(s2, "raise", ExcVal(PyConst(IndexError), tag="string index")))
                continue
            raise Unsupported(f"subscript on {obj!r}")
        return res + raised

    def slice_of(self, st, obj, sl):
        """s[lo:hi] on a string with bounds that are absent / None or provably non-negative integers (negative bounds count
        from the end in Python and are outside the subset): z3's str.substr clips at the end of the string like Python does."""
        def bound(node):
            if node is None or (isinstance(node, ast.Constant) and node.value is None):
                return None, st
            ps = self.ev(st, node)
            if len(ps) != 1 or ps[0].kind != "normal" or not (is_z3(ps[0].val) and z3.is_int(ps[0].val)):
                raise Unsupported("slicing (bound)")
            v = z3.simplify(ps[0].val)
            chk = z3.Solver()
            chk.set("timeout", 2000)
            chk.add(*ps[0].st.pc)
            chk.add(v < 0)
            if chk.check() != z3.unsat:
                raise Unsupported("slicing (bound not provably non-negative)")
            return v, ps[0].st
        if not (is_z3(obj) and z3.is_string(obj)):
            raise Unsupported("slicing")
        step = sl.step
        if not (step is None or (isinstance(step, ast.Constant) and step.value in (None, 1))):
            raise Unsupported("slicing (step)")
        lo, st = bound(sl.lower)
        hi, st = bound(sl.upper)
        lo = z3.IntVal(0) if lo is None else lo
        n = (z3.Length(obj) - lo) if hi is None else (hi - lo)
        return [Path(st, "normal", z3.SubString(obj, lo, n))]

    def ev_Call(self, st, e):
        if any(isinstance(a, ast.Starred) for a in e.args) or any(k.arg is None for k in e.keywords):
            raise Unsupported("star-args in call")
        if (isinstance(e.func, ast.Attribute) and isinstance(e.func.value, ast.Name) and e.func.attr in ("append", "extend")
                and len(e.args) == 1 and not e.keywords):
            fr = st.frame.lookup_frame(e.func.value.id)
            if fr is not None and isinstance(fr.vars[e.func.value.id], Lst):
                # list mutation: the list is looked up by name in the state the argument evaluation ends in
                res = []
                for p in self.ev(st, e.args[0]):
                    if p.kind != "normal":
                        res.append(p)
                        continue
                    lst = p.st.frame.lookup_frame(e.func.value.id).vars[e.func.value.id]
                    if e.func.attr == "append":
                        lst.items.append(p.val)
                    elif isinstance(p.val, (Lst, Tup)):
                        lst.items.extend(p.val.items)
                    else:
                        raise Unsupported("extend with a sequence of unknown length")
                    res.append(Path(p.st, "normal", PyConst(None)))
                return res
        outs, raised = self.ev_list(st, [e.func] + list(e.args) + [k.value for k in e.keywords])
        res = []
        for s, vals in outs:
            f, args = vals[0], vals[1:1 + len(e.args)]
            kwargs = dict(zip([k.arg for k in e.keywords], vals[1 + len(e.args):]))
            res += self.call(s, f, args, kwargs, e)
        return res + raised

    def call(self, st, f, args, kwargs, node):
        r = self.model.call(self, st, f, args, kwargs, node)
        if r is not NotImplemented:
            return r
        if isinstance(f, Closure):
            return self.call_closure(st, f, args, kwargs)
        if isinstance(f, BoundNative) and f.name == "__encode__":
            return [Path(st, "normal", f.obj)]
        if isinstance(f, PyConst) and f.obj is len and len(args) == 1 and isinstance(args[0], Encoded):
            n = ENCODED_LEN(args[0].s)
            st.pc.append(n >= z3.Length(args[0].s))
            return [Path(st, "normal", n)]
        if isinstance(f, PyConst) and f.obj is len and len(args) == 1:
            a = args[0]
            if is_z3(a) and z3.is_string(a):
                return [Path(st, "normal", z3.Length(a))]
            if isinstance(a, (Tup, Lst)):
                return [Path(st, "normal", z3.IntVal(len(a.items)))]
        target = f.obj if isinstance(f, PyConst) else (f.bound() if isinstance(f, BoundNative) else None)
        if target is not None and self.model.native_ok(target):
            try:
                a = [self.concrete(x) for x in args]
                kw = {k: self.concrete(v) for k, v in kwargs.items()}
            except LookupError:
                raise Unsupported(f"native call of {target!r} with symbolic arguments")
            try:
                return [Path(st, "normal", self.wrap_native(target(*a, **kw)))]
            except Exception as ex:  # noqa: BLE001
                return [Path(st, "raise", ExcVal(PyConst(type(ex)), tag=str(ex)))]
        raise Unsupported(f"call of {f!r} (no contract)")

    def call_closure(self, st, f, args, kwargs):
        node = f.node
        a = node.args
        if a.vararg or a.kwarg or a.kwonlyargs or a.posonlyargs:
            raise Unsupported("closure with complex signature")
        names = [x.arg for x in a.args]
        frame = Frame(f.frame)
        saved = st.frame
        bound = dict(zip(names, args))
        bound.update(kwargs)
        ndef = len(a.defaults)
        for i, n in enumerate(names):
            if n not in bound:
                j = i - (len(names) - ndef)
                if j < 0:
                    raise Unsupported(f"missing argument {n}")
                (p,) = self.ev(st, a.defaults[j])
                bound[n] = p.val
        frame.vars.update(bound)
        st.frame = frame
        out = []
        body = node.body if isinstance(node, ast.FunctionDef) else [ast.Return(value=node.body)]
        for p in self.run_block(st, body):
            # restore the caller's frame (copied along with the state on forks: find it as the callee frame's sibling)
            p.st.frame = p.st._caller_frames.pop() if getattr(p.st, "_caller_frames", None) else p.st.frame
            out.append(p)
        return out

    # ---- statements
    def run_block(self, st, stmts):
        paths = [Path(st)]
        for s in stmts:
            nxt = []
            for p in paths:
                if p.kind != "normal":
                    nxt.append(p)
                else:
                    nxt += self.step(p.st, s)
            paths = nxt
        return paths

    def step(self, st, s):
        m = getattr(self, "st_" + type(s).__name__, None)
        if m is None:
            raise Unsupported(f"statement {type(s).__name__} in {self.fn_name}")
        return m(st, s)

    def st_Pass(self, st, s):
        return [Path(st)]

    def st_ImportFrom(self, st, s):
        # imported names are resolved by the Model (name hook) or the target's namespace when they are used
        return [Path(st)]

    st_Import = st_ImportFrom

    def st_Global(self, st, s):
        st.frame.globals_decl.update(s.names)
        return [Path(st)]

    def st_Nonlocal(self, st, s):
        st.frame.nonlocal_decl.update(s.names)
        return [Path(st)]

    def st_Expr(self, st, s):
        if isinstance(s.value, ast.Constant):
            return [Path(st)]
        return [Path(p.st, p.kind, p.val if p.kind != "normal" else None) for p in self.ev(st, s.value)]

    def assign(self, st, t, v):
        if isinstance(t, ast.Name):
            self.store_name(st, t.id, v)
            return [Path(st)]
        if isinstance(t, (ast.Tuple, ast.List)):
            items = v.items if isinstance(v, (Tup, Lst)) else None
            if items is None or len(items) != len(t.elts):
                raise Unsupported("unpacking")
            for x, y in zip(t.elts, items):
                self.assign(st, x, y)
            return [Path(st)]
        if isinstance(t, ast.Attribute):
            out = []
            for p in self.ev(st, t.value):
                if p.kind != "normal":
                    out.append(p)
                    continue
                r = self.model.setattr(self, p.st, p.val, t.attr, v, t)
                if r is NotImplemented:
                    if isinstance(p.val, Obj):
                        p.st.fields[(p.val.oid, t.attr)] = v
                        r = [Path(p.st)]
                    else:
                        raise Unsupported(f"setattr on {p.val!r}")
                out += r
            return out
        raise Unsupported(f"assignment target {type(t).__name__}")

    def st_Assign(self, st, s):
        out = []
        for p in self.ev(st, s.value):
            if p.kind != "normal":
                out.append(p)
                continue
            paths = [Path(p.st)]
            for t in s.targets:
                nxt = []
                for q in paths:
                    nxt += self.assign(q.st, t, p.val) if q.kind == "normal" else [q]
                paths = nxt
            out += paths
        return out

    def st_AugAssign(self, st, s):
        load = copy.copy(s.target)
        load.ctx = ast.Load()
        out = []
        outs, raised = self.ev_list(st, [load, s.value])
        for s2, (a, b) in outs:
            r = self.model.augassign(self, s2, s, a, b)
            if r is NotImplemented:
                r = self.binop(s2, s.op, a, b)
            out += self.assign(s2, s.target, r)
        return out + raised

    def st_AnnAssign(self, st, s):
        if s.value is None:
            return [Path(st)]
        return self.st_Assign(st, ast.Assign(targets=[s.target], value=s.value))

    def st_Return(self, st, s):
        if s.value is None:
            return [Path(st, "return", NONE)]
        return [Path(p.st, "return" if p.kind == "normal" else p.kind, p.val) for p in self.ev(st, s.value)]

    def st_Break(self, st, s):
        return [Path(st, "break")]

    def st_Continue(self, st, s):
        return [Path(st, "continue")]

    def st_If(self, st, s):
        out = []
        for p in self.ev(st, s.test):
            if p.kind != "normal":
                out.append(p)
                continue
            for s2, val in self.branch(p.st, self.as_bool(p.st, p.val)):
                out += self.run_block(s2, s.body if val else s.orelse)
        return out

    def st_FunctionDef(self, st, s):
        self.store_name(st, s.name, Closure(s, st.frame, s.name))
        return [Path(st)]

    def st_Raise(self, st, s):
        if s.exc is None:
            if st.cur_exc is None:
                raise Unsupported("bare raise outside handler")
            return [Path(st, "raise", st.cur_exc)]
        out = []
        for p in self.ev(st, s.exc):
            if p.kind != "normal":
                out.append(p)
                continue
            v = p.val
            if isinstance(v, PyConst) and isinstance(v.obj, type):
                v = ExcVal(v)
            if not isinstance(v, ExcVal):
                raise Unsupported(f"raise of {v!r}")
            out.append(Path(p.st, "raise", v))
        return out

    def exc_matches(self, st, exc, handler_type):
        """-> True/False: does exception value `exc` match the handler's class expression value?"""
        classes = handler_type.items if isinstance(handler_type, Tup) else [handler_type]
        for c in classes:
            if not (isinstance(c, PyConst) and isinstance(c.obj, type)):
                raise Unsupported(f"handler type {c!r}")
            ec = exc.cls
            if c.obj is BaseException:
                return True                       # every exception, whatever its (possibly abstract) class
            if isinstance(ec, PyConst):
                if issubclass(ec.obj, c.obj):
                    return True
            else:
                raise Unsupported("abstract exception class")
        return False

    def st_Try(self, st, s):
        out = []
        for p in self.run_block(st, s.body):
            if p.kind == "normal":
                after = self.run_block(p.st, s.orelse) if s.orelse else [p]
            elif p.kind == "raise":
                after = None
                for h in s.handlers:
                    if h.type is None:
                        match = True
                    else:
                        (tp,) = self.ev(p.st, h.type)
                        match = self.exc_matches(p.st, p.val, tp.val)
                    if match:
                        if h.name:
                            self.store_name(p.st, h.name, p.val)
                        saved = p.st.cur_exc
                        p.st.cur_exc = p.val
                        after = self.run_block(p.st, h.body)
                        for q in after:
                            q.st.cur_exc = saved
                        break
                if after is None:
                    after = [p]
            else:
                after = [p]
            for q in after:
                if not s.finalbody:
                    out.append(q)
                    continue
                for f in self.run_block(q.st, s.finalbody):
                    out.append(Path(f.st, q.kind, q.val) if f.kind == "normal" else f)
        return out

    def find_def(self, name):
        for n in ast.walk(self.module_ast):
            if isinstance(n, ast.FunctionDef) and n.name == name:
                return n
        return None

    def st_With(self, st, s):
        if len(s.items) != 1:
            # nest
            inner = ast.With(items=s.items[1:], body=s.body)
            return self.st_With(st, ast.With(items=s.items[:1], body=[inner]))
        item = s.items[0]
        out = []

        def body(entered, exit_fn):
            for q in entered:
                if q.kind != "normal":
                    out.append(q)
                    continue
                if item.optional_vars is not None:
                    self.assign(q.st, item.optional_vars, q.val)
                for b in self.run_block(q.st, s.body):
                    for f in exit_fn(self, b.st, b.val if b.kind == "raise" else None):
                        if f.kind != "normal":
                            out.append(f)          # __exit__ raised
                        elif b.kind == "raise" and f.val is True:
                            out.append(Path(f.st))  # suppressed
                        else:
                            out.append(Path(f.st, b.kind, b.val))
        ce = item.context_expr
        gd = self.find_def(ce.func.id) if isinstance(ce, ast.Call) and isinstance(ce.func, ast.Name) and not ce.keywords else None
        if gd is not None and self.model.name(self, st, ce.func.id) is NotImplemented and any(
                (isinstance(d, ast.Name) and d.id == "contextmanager") or (isinstance(d, ast.Attribute) and d.attr == "contextmanager")
                for d in gd.decorator_list) and len(gd.args.args) == len(ce.args):
            # a @contextmanager generator function of the module under verification: inlined (code before the yield on
            # entry; code after a bare yield only on normal exit, a try/finally around the yield on every exit)
            outs, raised = self.ev_list(st, list(ce.args))
            out += raised
            for s2, vals in outs:
                entered, exit_fn, _ = self.inline_contextmanager(s2, gd, dict(zip([a.arg for a in gd.args.args], vals)))
                body([Path(p.st, p.kind, NONE if p.kind == "normal" else p.val) for p in entered], exit_fn)
            return out
        for p in self.ev(st, ce):
            if p.kind != "normal":
                out.append(p)
                continue
            r = self.model.with_enter(self, p.st, p.val, s)
            if r is NotImplemented:
                raise Unsupported(f"with on {p.val!r}")
            body(*r)
        return out

    def inline_contextmanager(self, st, gen_def, frame_vars):
        """@contextmanager generator of the shape `pre...; try: yield [v]; finally: post...` (or without try)."""
        body = gen_def.body
        pre, ytry = [], None
        for i, x in enumerate(body):
            if isinstance(x, ast.Try) and any(isinstance(n, ast.Yield) for n in ast.walk(x)):
                pre, ytry, post = body[:i], x, body[i + 1:]
                break
            if isinstance(x, ast.Expr) and isinstance(x.value, ast.Yield):
                pre, ytry, post = body[:i], x, body[i + 1:]
                break
        if ytry is None:
            raise Unsupported("contextmanager shape")
        frame = Frame(None)
        frame.vars.update(frame_vars)
        saved = st.frame
        st.frame = frame
        entered = []
        for p in self.run_block(st, pre):
            p.st.frame = saved if p.st is st else p.st.frame
            entered.append(p)
        if isinstance(ytry, ast.Try):
            if len(ytry.body) != 1 or ytry.handlers or post:
                raise Unsupported("contextmanager shape (try)")
            final = ytry.finalbody
            always = True
        else:
            final = post
            always = False       # code after a bare `yield` runs only on normal exit of the body

        def exit_fn(ex, st2, exc):
            if exc is not None and not always:
                return [Path(st2, "normal", False)]
            sv = st2.frame
            st2.frame = frame
            res = []
            for p in ex.run_block(st2, final):
                p.st.frame = sv
                res.append(Path(p.st, p.kind, False if p.kind == "normal" else p.val))
            return res
        return entered, exit_fn, frame

    def st_While(self, st, s):
        ordinal = self.loop_ordinal
        self.loop_ordinal += 1
        inv = self.model.loop_invariant(self, st, s, ordinal)
        if inv is None:
            raise Unsupported(f"while loop #{ordinal} without invariant")
        return inv.run(self, st, s)

    def st_For(self, st, s):
        out = []
        for p in self.ev(st, s.iter):
            if p.kind != "normal":
                out.append(p)
                continue
            seq = p.val
            if not isinstance(seq, (Tup, Lst)):
                raise Unsupported(f"for over {seq!r}")
            paths = [Path(p.st)]
            for item in list(seq.items):
                nxt = []
                for q in paths:
                    if q.kind != "normal":
                        nxt.append(q)
                        continue
                    self.assign(q.st, s.target, item)
                    for b in self.run_block(q.st, s.body):
                        if b.kind == "continue":
                            nxt.append(Path(b.st))
                        else:
                            nxt.append(b)
                paths = nxt
            for q in paths:
                if q.kind == "break":
                    out.append(Path(q.st))
                elif q.kind == "normal" and s.orelse:
                    out += self.run_block(q.st, s.orelse)
                else:
                    out.append(q)
        return out


class LoopInv:
    """An inductive loop invariant for a `while` loop.
    inv(ex, st) -> z3 Bool: the invariant in state st (over the current values of the loop's variables);
    havoc(ex, st) -> None: replace every variable the loop may modify by a fresh symbolic value in st.
    Obligations: holds on entry; preserved by every path through the body that reaches the loop head again.  The code
    after the loop (and every return/raise/break out of the body) is executed from an arbitrary state satisfying the
    invariant, so it is verified for every number of iterations."""

    def __init__(self, name, inv, havoc):
        self.name, self.inv, self.havoc = name, inv, havoc

    def run(self, ex, st, node):
        ex.oblige(f"{self.name}: holds on entry", st, self.inv(ex, st))
        s = st.fork()
        self.havoc(ex, s)
        s.pc.append(self.inv(ex, s))
        out = []
        for p in ex.ev(s, node.test):
            if p.kind != "normal":
                out.append(p)
                continue
            for s2, val in ex.branch(p.st, ex.as_bool(p.st, p.val)):
                if not val:
                    out += ex.run_block(s2, node.orelse) if node.orelse else [Path(s2)]
                    continue
                for b in ex.run_block(s2, node.body):
                    if b.kind in ("normal", "continue"):
                        ex.oblige(f"{self.name}: preserved by the loop body", b.st, self.inv(ex, b.st))
                    elif b.kind == "break":
                        out.append(Path(b.st))
                    else:
                        out.append(b)
        return out


class BoundNative:
    def __init__(self, obj, name):
        self.obj, self.name = obj, name

    def bound(self):
        return getattr(self.obj, self.name)


def call_closure_fixed(self, st, f, args, kwargs):
    """call_closure with correct frame restoration across forks: the callee frame's parent chain is independent of the
    caller's frame, so the caller frame is carried through forks in st.callers (a stack copied by fork)."""
    node = f.node
    a = node.args
    if a.vararg or a.kwarg or a.kwonlyargs or a.posonlyargs:
        raise Unsupported("closure with complex signature")
    names = [x.arg for x in a.args]
    bound = dict(zip(names, args))
    bound.update(kwargs)
    ndef = len(a.defaults)
    for i, n in enumerate(names):
        if n not in bound:
            j = i - (len(names) - ndef)
            if j < 0:
                raise Unsupported(f"missing argument {n}")
            (p,) = self.ev(st, a.defaults[j])
            bound[n] = p.val
    frame = Frame(f.frame)
    frame.vars.update(bound)
    # keep the caller frame reachable from the callee frame so that State.fork copies both consistently
    frame.vars["<caller>"] = st.frame
    st.frame = frame
    out = []
    body = node.body if isinstance(node, ast.FunctionDef) else [ast.Return(value=node.body)]
    for p in self.run_block(st, body):
        caller = p.st.frame.vars.pop("<caller>") if "<caller>" in p.st.frame.vars else None
        fr = p.st.frame
        while caller is None and fr is not None:      # returned from a nested block frame
            caller = fr.vars.pop("<caller>", None)
            fr = fr.parent
        p.st.frame = caller
        if p.kind == "return":
            out.append(Path(p.st, "normal", p.val))
        elif p.kind == "normal":
            out.append(Path(p.st, "normal", NONE))
        elif p.kind == "raise":
            out.append(p)
        else:
            raise Unsupported(f"{p.kind} escaping a function")
    return out


Executor.call_closure = call_closure_fixed


def _fork_with_caller(self):
    return State._fork0(self)


# Frame values may hold Frames (the "<caller>" link): make fork's copier handle it (it already does: Frame case).
def load_function(path, qualname, repo):
    """Parse `path` (relative to repo) and return (module_ast, function node) for `qualname` (Class.method or name)."""
    full = os.path.join(repo, path)
    src = open(full).read()
    if path.endswith(".hy"):
        import types
        import hy  # noqa: F401
        from hy.compiler import hy_compile
        from hy.reader import read_many
        mod = types.ModuleType("pyvc_" + os.path.basename(path).replace(".", "_"))
        tree = hy_compile(read_many(src, filename=full), mod)
    else:
        tree = ast.parse(src)
    node = tree
    for part in qualname.split("."):
        found = None
        for n in ast.walk(node) if node is tree else node.body:
            if isinstance(n, (ast.FunctionDef, ast.ClassDef)) and n.name == part:
                found = n
                break
        if found is None:
            raise LookupError(f"{qualname} not found in {path}")
        node = found
    return tree, node


def discharge(chk, prefix, ex, kind="proved", extra_models=None):
    """Solve all obligations collected by an Executor and register them on the Check."""
    n = 0
    for name, pc, goal in ex.obligations:
        t0 = time.time()
        status, info = prove(pc, goal)
        dt = time.time() - t0
        oname = f"{prefix}/{name}"
        n += 1
        if status == "proved":
            chk.ob(oname, True, info, kind, t=dt)
        elif status == "refuted":
            wit = None
            if isinstance(info, z3.ModelRef):
                wit = {str(d): str(info[d]) for d in info.decls()}
            chk.ob(oname, False, "z3", kind, detail=f"counter-model: {wit if wit is not None else info}", witness={"model": wit},
                   replay=(extra_models(name, info) if (extra_models and isinstance(info, z3.ModelRef)) else None), t=dt)
        else:
            chk.ob(oname, None, "z3+cvc5", kind, detail=str(info), t=dt)
    return n
