"""pyvc targets: sidecar contracts for individual functions of /repo and the glue that sets up their symbolic state."""
import ast

import z3

from hv.core import REPO
from hv.pyvc import engine as E
from hv.pyvc.engine import (NONE, ExcVal, Executor, Model, Obj, Path, PyConst, State, Tup, Unsupported, discharge,
                            is_z3, load_function)

IntSet = z3.SetSort(z3.IntSort())


def target(f):
    """A VC-generation target.  Code outside the generator's subset (`Unsupported`, or a function that can no longer be found)
    leaves the target's obligations undecided (exit 2, with the reason) - it is neither a crash of the checker nor, ever, a violation;
    the rest of the check still runs, so a violation found elsewhere is still reported."""
    import functools

    @functools.wraps(f)
    def run(chk, *a, **k):
        try:
            return f(chk, *a, **k)
        except (Unsupported, LookupError) as e:
            prefix = k.get("prefix") or f.__defaults__[0]
            chk.ob(f"{prefix}/VC generation", None, "pyvc", "proved",
                   detail=f"the current source of the function is outside the VC generator's subset or shape ({type(e).__name__}: {e}); "
                          "its obligations are undecided on this tree")
            return None
    return run


def _src(path, qual):
    tree, fn = load_function(path, qual, REPO)
    return tree, fn


def run_fn(ex, st, fn, args):
    """Run function node `fn` with parameter values `args` (dict) from state `st`; returns paths."""
    frame = E.Frame(None)
    frame.vars.update(args)
    st.frame = frame
    ex.fn_node = fn
    body = [s for s in fn.body if not (isinstance(s, ast.Expr) and isinstance(s.value, ast.Constant))]
    return ex.run_block(st, body)


# ===============================================================================================================
# K1  HyASTCompiler.get_anon_var
# ===============================================================================================================
@target
def k1(chk, prefix="K1/get_anon_var"):
    tree, fn = _src("hy/compiler.py", "HyASTCompiler.get_anon_var")
    chk.fn("hy/compiler.py::HyASTCompiler.get_anon_var")
    ex = Executor(tree, {}, Model(), "get_anon_var")
    st = State()
    self_ = Obj("compiler")
    c0 = z3.Int("count0")
    base, name = z3.String("base"), z3.String("name")
    st.fields[(self_.oid, "anon_var_count")] = c0
    st.pc.append(c0 >= 0)
    paths = run_fn(ex, st, fn, {"self": self_, "base": base, "name": name})
    n = 0
    for p in paths:
        n += 1
        if p.kind != "return":
            ex.oblige(f"never raises", p.st, z3.BoolVal(False))
            continue
        r = p.val
        suffix = z3.If(z3.Length(name) == 0, z3.StringVal(""), z3.Concat(z3.StringVal("_"), name))
        want = z3.Concat(z3.StringVal("_hy_"), base, suffix, z3.StringVal("_"), z3.IntToStr(c0 + 1))
        ex.oblige(f'result == "_hy_" + base + ("_" + name if name else "") + "_" + str(old(count) + 1)', p.st, r == want)
        ex.oblige(f'result starts with the reserved prefix "_hy_"', p.st, z3.PrefixOf(z3.StringVal("_hy_"), r))
        ex.oblige(f"count == old(count) + 1", p.st, p.st.fields[(self_.oid, "anon_var_count")] == c0 + 1)
    ex.oblige("vacuity: the function has at least one returning path", st, z3.BoolVal(any(p.kind == "return" for p in paths)))
    discharge(chk, prefix, ex)
    # injectivity lemma over the contract: names issued with different counters differ (the decimal suffix after the last
    # underscore is the counter).  Stated over the postcondition, not over the code.
    x, y = z3.String("x"), z3.String("y")
    c, d = z3.Int("c"), z3.Int("d")
    lem = Executor(tree, {}, Model(), "lemma")
    s2 = State()
    s2.pc += [c >= 1, d >= 1, c != d]
    lem.oblige("lemma: prefix1 + '_' + str(c) != prefix2 + '_' + str(d) for counters c != d", s2,
               z3.Concat(x, z3.StringVal("_"), z3.IntToStr(c)) != z3.Concat(y, z3.StringVal("_"), z3.IntToStr(d)))
    if chk.tier == "thorough":
        status, info = E.prove(s2.pc, lem.obligations[0][2], timeout_ms=30000)
    else:
        status, info = "unknown", "not attempted in the quick tier (z3 and cvc5 both time out on it; see thorough tier)"
    if status == "proved":
        chk.ob(prefix + "/lemma: names with different counters differ (decimal suffix after the last underscore)", True, info, "proved")
    else:
        # the string/integer-conversion lemma is beyond both solvers: fall back to the bounded stand-in, labelled as such
        import itertools
        bad = None
        for (p1, c1), (p2, c2) in itertools.combinations([(p, k) for p in ("", "a", "a_1", "_hy_anon", "x_", "1") for k in range(1, 130)], 2):
            if c1 != c2 and f"{p1}_{c1}" == f"{p2}_{c2}":
                bad = (p1, c1, p2, c2)
                break
        chk.ob(prefix + "/lemma: names with different counters differ (decimal suffix after the last underscore)", bad is None,
               "ex", "bounded", detail=f"SMT: {info}; enumerated 6 prefixes x counters 1..129: {bad}")
        chk.trust("K1 injectivity lemma only checked on a bounded grid (str.from_int reasoning undecided by z3 and cvc5)")
    # canary: the claim `count unchanged` must be refuted
    can = Executor(tree, {}, Model(), "canary")
    for p in paths:
        if p.kind == "return":
            can.oblige("canary", p.st, p.st.fields[(self_.oid, "anon_var_count")] == c0)
    chk.canary("K1: `anon_var_count is unchanged` is refuted", E.prove(*can.obligations[0][1:])[0] == "refuted")


# ===============================================================================================================
# C28  hy_repr: _seen / _quoting restored on every exit
# ===============================================================================================================
class HyReprModel(Model):
    def __init__(self):
        self.Val = z3.DeclareSort("Val")
        self.idof = z3.Function("id", self.Val, z3.IntSort())
        self.is_model = z3.Function("is_model", self.Val, z3.BoolSort())
        self.is_kw = z3.Function("is_keyword", self.Val, z3.BoolSort())
        self.eligible = z3.Function("eligible", z3.IntSort(), z3.BoolSort())
        self.printer_calls = 0

    def inv(self, seen, quoting):
        x = z3.Int("x!inv")
        if z3.is_expr(quoting) and not z3.is_bool(quoting):
            quoting = quoting != 0          # the flag's truth value, should the code keep it as a number
        return z3.ForAll([x], z3.Implies(z3.And(z3.IsMember(x, seen), self.eligible(x)), quoting))

    def call(self, ex, st, f, args, kwargs, node):
        src = ast.unparse(node.func)
        if src == "_registry.get":
            return [Path(st, "normal", Tup([Obj("printer"), ex.fresh(z3.StringSort(), "placeholder")])),
                    Path(st.fork(), "normal", Tup([Obj("printer"), NONE]))]
        if src == "type":
            return [Path(st, "normal", Obj("type"))]
        if src == "isinstance":
            cls = ast.unparse(node.args[1])
            pred = {"hy.models.Object": self.is_model, "hy.models.Keyword": self.is_kw}.get(cls)
            if pred is None:
                raise Unsupported(f"isinstance {cls}")
            return [Path(st, "normal", pred(args[0]))]
        if src == "id":
            return [Path(st, "normal", self.idof(args[0]))]
        if src == "_seen.add":
            st.globals["_seen"] = z3.SetAdd(st.globals["_seen"], args[0])
            return [Path(st, "normal", NONE)]
        if src == "_seen.discard":
            st.globals["_seen"] = z3.SetDel(st.globals["_seen"], args[0])
            return [Path(st, "normal", NONE)]
        if src == "_seen.clear":
            st.globals["_seen"] = z3.EmptySet(z3.IntSort())
            return [Path(st, "normal", NONE)]
        if src == "_seen.remove":
            st.globals["_seen"] = z3.SetDel(st.globals["_seen"], args[0])       # (KeyError path not modelled: only reached for a member)
            return [Path(st, "normal", NONE)]
        if isinstance(f, Obj) and f.kind == "printer":
            # callee contract of a registered printer (it reaches the state only through hy_repr itself):
            #   requires  Inv(_seen, _quoting)
            #   ensures   _seen, _quoting unchanged     raises: anything, with _seen, _quoting unchanged
            self.printer_calls += 1
            ex.oblige(f"callee-requires: invariant holds when the registered printer is called (call {self.printer_calls})", st,
                      self.inv(st.globals["_seen"], st.globals["_quoting"]))
            ok = st
            bad = st.fork()
            return [Path(ok, "normal", ex.fresh(z3.StringSort(), "text")),
                    Path(bad, "raise", ExcVal("AnyException", tag="printer"))]
        return NotImplemented

    def getattr(self, ex, st, obj, name, node):
        src = ast.unparse(node)
        if src in ("_registry.get", "_seen.add", "_seen.discard", "_seen.clear", "_seen.remove", "hy.models", "hy.models.Object",
                   "hy.models.Keyword"):
            return Obj("attr:" + src)
        return NotImplemented

    def name(self, ex, st, n):
        if n in ("_registry", "hy", "_base_repr", "isinstance", "id", "type"):
            return Obj("name:" + n)
        return NotImplemented

    def compare(self, ex, st, op, a, b):
        if isinstance(op, ast.In) and z3.is_expr(b) and b.sort() == IntSet:
            return z3.IsMember(a, b)
        if isinstance(a, Obj) and a.kind == "type" or isinstance(b, Obj) and b.kind == "type":
            # a test on the type of the argument (type(x) in (...), type(x) is list, ...): nothing is assumed about its outcome
            return ex.fresh(z3.BoolSort(), "type_test")
        return NotImplemented


@target
def c28(chk, prefix="hy_repr", concrete=None):
    tree, fn = _src("hy/core/hy_repr.hy", "hy_repr")
    chk.fn("hy/core/hy_repr.hy::hy-repr (as compiled by hy_compile)")
    m = HyReprModel()
    ex = Executor(tree, {}, m, "hy_repr")
    st = State()
    seen0, quoting0 = z3.Const("_seen0", IntSet), z3.Bool("_quoting0")
    obj = z3.Const("obj", m.Val)
    st.globals.update({"_seen": seen0, "_quoting": quoting0})
    # requires: the invariant (an eligible, i.e. non-keyword model, object in _seen implies _quoting);
    # ghost definition of `eligible` for the object at hand
    st.pc += [m.inv(seen0, quoting0), m.eligible(m.idof(obj)) == z3.And(m.is_model(obj), z3.Not(m.is_kw(obj)))]
    paths = run_fn(ex, st, fn, {"obj": obj})
    kinds = {}
    for i, p in enumerate(paths):
        k = {"return": "return", "raise": "exception"}.get(p.kind, p.kind)
        kinds[k] = kinds.get(k, 0) + 1
        tag = f"on {k}"
        ex.oblige(f"_seen restored ({tag})", p.st, p.st.globals["_seen"] == seen0)
        ex.oblige(f"_quoting restored ({tag})", p.st, E.same_value(p.st.globals["_quoting"], quoting0))
    ex.oblige("vacuity: normal, early-return and exceptional exits are all reached", st,
              z3.BoolVal(kinds.get("return", 0) >= 2 and kinds.get("exception", 0) >= 1 and m.printer_calls >= 1))
    n = discharge(chk, prefix, ex, extra_models=concrete)
    chk.extra["hy_repr_paths"] = len(paths)
    # canary: without the invariant as precondition the early return leaks _quoting
    m2 = HyReprModel()
    ex2 = Executor(tree, {}, m2, "hy_repr")
    st2 = State()
    st2.globals.update({"_seen": seen0, "_quoting": quoting0})
    st2.pc += [m2.eligible(m2.idof(obj)) == z3.And(m2.is_model(obj), z3.Not(m2.is_kw(obj)))]
    refuted = False
    for p in run_fn(ex2, st2, fn, {"obj": z3.Const("obj", m2.Val)}):
        if E.prove(p.st.pc, E.same_value(p.st.globals["_quoting"], quoting0))[0] == "refuted":
            refuted = True
    chk.canary("C28: dropping the invariant from `requires` makes the early-return clause fail", refuted)
    return n


# ===============================================================================================================
# C38  gensym: monitor discipline on _gensym_counter
# ===============================================================================================================
class _StrMeth:
    """A bound str method `recv.name` of a symbolic string."""
    def __init__(self, recv, name):
        self.recv, self.name = recv, name

    def __repr__(self):
        return f"<str.{self.name}>"


MANGLE = z3.Function("hy_mangle", z3.StringSort(), z3.StringSort())
GENSYM_LEMMAS = {
    "A1": "hy.mangle is idempotent: mangle(mangle(x)) == mangle(x)  (property C32)",
    "A2": "stripping: if t is a fixed point of hy.mangle and starts with _hyx_, then '_' + t[5:] is a fixed point too (the escaped body "
          "consists of identifier-continue characters and is NFKC-normal, so with an underscore in front it is an identifier)",
    "A3": "prefix: if x starts with _hy_gensym_ then mangle(x) starts with _hy_gensym_ or with _hyx_hy_gensym_ (ASCII letters and "
          "underscores are kept; one leading underscore is kept in front of an hyx_ escape)",
    "A4": "suffix: if x ends with '_' + str(d) for an integer d >= 0 then so does mangle(x) (ASCII digits and inner underscores are kept)",
}


class GensymModel(Model):
    """Ghost: `held` (lock held by this thread), event log of counter accesses with the value of `held`.
    Strings: hy.mangle is an uninterpreted function constrained by ground instances of the lemmas GENSYM_LEMMAS (assumed contract of
    the callee, validated against the live hy.mangle by a bounded run-time obligation); str methods are z3 string operations."""

    def __init__(self):
        self.ints = []          # integers formatted into the name (for the instances of A4)

    def call(self, ex, st, f, args, kwargs, node):
        src = ast.unparse(node.func)
        if src == "_gensym_lock.acquire":
            # Lock contract (axiom): returns with the lock held; the counter may have been changed by other threads
            # before we got the lock (havoc), but not while we hold it.
            st.ghost["held"] = True
            st.globals["_gensym_counter"] = ex.fresh(z3.IntSort(), "counter_at_acquire")
            st.pc.append(st.globals["_gensym_counter"] >= 0)        # module invariant: starts at 0, only ever incremented under the lock
            st.ghost["at_acquire"] = st.globals["_gensym_counter"]
            st.log.append(("acquire",))
            return [Path(st, "normal", NONE)]
        if src == "_gensym_lock.release":
            self.release(ex, st)
            return [Path(st, "normal", NONE)]
        if src == "hy.mangle" and len(args) == 1 and not kwargs:
            x = ex.to_str(args[0])
            t = MANGLE(x)
            st.pc.append(MANGLE(t) == t)                                                              # A1 at x
            u = z3.Concat(z3.StringVal("_"), z3.SubString(t, 5, z3.Length(t) - 5))
            st.pc.append(z3.Implies(z3.PrefixOf(z3.StringVal("_hyx_"), t), MANGLE(u) == u))           # A2 at t
            st.pc.append(z3.Implies(z3.PrefixOf(z3.StringVal("_hy_gensym_"), x),
                                    z3.Or(z3.PrefixOf(z3.StringVal("_hy_gensym_"), t),
                                          z3.PrefixOf(z3.StringVal("_hyx_hy_gensym_"), t))))            # A3 at x
            for d in self._ints_in(x):
                suf = z3.Concat(z3.StringVal("_"), z3.IntToStr(d))
                st.pc.append(z3.Implies(z3.And(d >= 0, z3.SuffixOf(suf, x)), z3.SuffixOf(suf, t)))    # A4 at x, d
            return [Path(st, "normal", t)]
        if src == "hy.models.Symbol" and len(args) == 1 and not kwargs:
            o = Obj("Symbol")
            st.fields[(o.oid, "text")] = ex.to_str(args[0])
            return [Path(st, "normal", o)]
        if isinstance(f, _StrMeth):
            r, nm = f.recv, f.name
            if nm == "format" and z3.is_string_value(r) and not kwargs:
                fmt = r.as_string()
                parts = fmt.split("{}")
                if len(parts) != len(args) + 1 or "{" in "".join(parts) or "}" in "".join(parts):
                    raise Unsupported("str.format with a format string other than plain {} fields")
                acc = z3.StringVal(parts[0])
                for a, lit in zip(args, parts[1:]):
                    if is_z3(a) and z3.is_int(a):
                        self.ints.append(a)
                    acc = z3.Concat(acc, ex.to_str(a), z3.StringVal(lit))
                return [Path(st, "normal", z3.simplify(acc))]
            if nm in ("startswith", "endswith") and len(args) == 1 and is_z3(args[0]) and z3.is_string(args[0]):
                return [Path(st, "normal", (z3.PrefixOf if nm == "startswith" else z3.SuffixOf)(args[0], r))]
            if nm in ("isidentifier", "isascii", "isalnum", "isalpha", "isdigit", "isprintable") and not args:
                # a predicate of the string about which nothing is assumed
                return [Path(st, "normal", z3.Function("str_" + nm, z3.StringSort(), z3.BoolSort())(r))]
            raise Unsupported(f"str.{nm} (no contract)")
        return NotImplemented

    @staticmethod
    def _ints_in(term):
        """Integers converted to text inside a string term (whatever built it: str.format, an f-string, + of str(n))."""
        out, todo, seen = [], [term], set()
        while todo:
            t = todo.pop()
            if t.get_id() in seen:
                continue
            seen.add(t.get_id())
            if z3.is_app(t) and t.decl().kind() == z3.Z3_OP_INT_TO_STR:
                out.append(t.arg(0))
            todo.extend(t.children())
        return out

    def release(self, ex, st):
        st.log.append(("release", st.globals["_gensym_counter"]))
        st.ghost["held"] = False
        # once the lock is released other threads may change the counter: whatever is read from now on is arbitrary
        st.globals["_gensym_counter"] = ex.fresh(z3.IntSort(), "counter_after_release")

    def with_enter(self, ex, st, cm, node):
        # `with _gensym_lock:` = acquire on entry, release on every exit
        if isinstance(cm, Obj) and cm.kind == "name:_gensym_lock":
            st.ghost["held"] = True
            st.globals["_gensym_counter"] = ex.fresh(z3.IntSort(), "counter_at_acquire")
            st.pc.append(st.globals["_gensym_counter"] >= 0)
            st.ghost["at_acquire"] = st.globals["_gensym_counter"]
            st.log.append(("acquire",))

            def exit_fn(ex_, st2, exc):
                self.release(ex_, st2)
                return [Path(st2, "normal", False)]
            return [Path(st, "normal", NONE)], exit_fn
        return NotImplemented

    def getattr(self, ex, st, obj, name, node):
        if is_z3(obj) and z3.is_string(obj):
            return _StrMeth(obj, name)
        src = ast.unparse(node)
        if src.startswith(("_gensym_lock.", "hy.")):
            return Obj("attr:" + src)
        return NotImplemented

    def name(self, ex, st, n):
        if n == "_gensym_counter":
            st.log.append(("read" if True else "", st.ghost.get("held", False)))
        if n in ("_gensym_lock", "hy"):
            return Obj("name:" + n)
        if n == "len":
            return PyConst(len)
        if n == "str":
            return PyConst(str)
        return NotImplemented


@target
def c38(chk, prefix="gensym", concrete=None):
    tree, fn = _src("hy/core/util.hy", "gensym")
    chk.fn("hy/core/util.hy::gensym (as compiled by hy_compile)")
    m = GensymModel()
    ex = Executor(tree, {}, m, "gensym")
    # make stores to the counter observable: wrap store_name
    real_store = ex.store_name

    def store(st, n, v):
        if n == "_gensym_counter":
            st.log.append(("write", st.ghost.get("held", False)))
        return real_store(st, n, v)
    ex.store_name = store
    st = State()
    st.globals["_gensym_counter"] = z3.Int("counter0")
    st.ghost["held"] = False
    g = z3.String("g")          # the argument, represented by its str() (what str.format uses)
    whole = True
    try:
        paths = run_fn(ex, st, fn, {"g": g})
    except Unsupported as e:
        # the string post-processing after the critical section is outside the subset; verify the critical section alone
        paths = None
        why = str(e)
    if paths is None:
        whole = False
        # the critical section: everything up to the last statement that mentions the lock or the counter
        body = [s_ for s_ in fn.body if not (isinstance(s_, ast.Expr) and isinstance(s_.value, ast.Constant))]
        last = max((i for i, s_ in enumerate(body)
                    if any(isinstance(n_, ast.Name) and n_.id in ("_gensym_lock", "_gensym_counter") for n_ in ast.walk(s_))), default=-1)
        crit = body[:last + 1]
        st = State()
        st.globals["_gensym_counter"] = z3.Int("counter0")
        st.ghost["held"] = False
        st.frame.vars["g"] = g
        m.ints = []
        paths = ex.run_block(st, crit)
        chk.notes.append("gensym: statements after the critical section are outside pyvc's subset (" + why + "); the monitor "
                         "discipline is verified on the critical section, the string part by the run-time contract only")
    k = 0
    returned = 0
    for p in paths:
        k += 1
        acc = [e for e in p.st.log if e[0] in ("read", "write")]
        ex.oblige(f"every read/write of _gensym_counter happens while the lock is held", p.st,
                  z3.BoolVal(all(e[1] is True for e in acc) and len(acc) >= 2))
        ex.oblige(f"the lock is released on every exit", p.st, z3.BoolVal(p.st.ghost["held"] is False and
                                                                                    any(e[0] == "release" for e in p.st.log)))
        if p.kind in ("normal", "return"):
            n_ = p.st.frame.vars.get("n")
            fr = p.st.frame
            while n_ is None and fr is not None:
                n_ = fr.vars.get("n")
                fr = fr.parent
            rel = [e for e in p.st.log if e[0] == "release"]
            if n_ is None or "at_acquire" not in p.st.ghost or not rel:
                ex.oblige(f"n == counter at acquire + 1 == counter at release", p.st, z3.BoolVal(False))
            else:
                ex.oblige(f"n == counter at acquire + 1 == counter at release", p.st,
                          z3.And(n_ == p.st.ghost["at_acquire"] + 1, rel[-1][1] == n_))
            if whole:
                # postconditions of the whole function (the property's string part), on every returning path
                v = p.val
                txt = p.st.fields.get((v.oid, "text")) if isinstance(v, Obj) and v.kind == "Symbol" else None
                if p.kind != "return" or txt is None or n_ is None:
                    ex.oblige("gensym returns a hy.models.Symbol", p.st, z3.BoolVal(False))
                    continue
                returned += 1
                ex.oblige("gensym returns a hy.models.Symbol", p.st, z3.BoolVal(True))
                ex.oblige("the result is already mangled (a fixed point of hy.mangle)", p.st, MANGLE(txt) == txt)
                ex.oblige("the result starts with the reserved prefix _hy_", p.st, z3.PrefixOf(z3.StringVal("_hy_"), txt))
                ex.oblige("the result ends with _<n> for the counter value n taken under the lock (so results of different calls differ)",
                          p.st, z3.SuffixOf(z3.Concat(z3.StringVal("_"), z3.IntToStr(n_)), txt))
        elif whole:
            ex.oblige("gensym returns a hy.models.Symbol", p.st, z3.BoolVal(False))
    ex.oblige("vacuity: a path through the critical section exists", st, z3.BoolVal(len(paths) >= 1))
    if whole:
        ex.oblige("vacuity: a returning path through the whole function exists", st, z3.BoolVal(returned >= 1))
        chk.assume(*[f"gensym lemma {k_}: {v_}" for k_, v_ in GENSYM_LEMMAS.items()])
        chk.assume("gensym: the argument is represented by its str(); the counter is non-negative when the lock is acquired "
                   "(module invariant: starts at 0, only incremented)")
    chk.extra["gensym_whole_function"] = whole
    discharge(chk, prefix, ex, extra_models=concrete)
    chk.trust("threading.Lock gives mutual exclusion; _gensym_counter is reached only through gensym (syntactic frame check below)")
    # frame: the counter is referenced nowhere else in hy/
    import glob
    import os
    sites = []
    for p in glob.glob(os.path.join(REPO, "hy", "**", "*.*"), recursive=True):
        if p.endswith((".py", ".hy")) and ("_gensym_counter" in open(p).read() or "_gensym-counter" in open(p).read()):
            sites.append(os.path.relpath(p, REPO))
    chk.ob(prefix + "/frame: _gensym_counter is referenced only in hy/core/util.hy", sites == ["hy/core/util.hy"], "structural", "proved",
           detail=str(sites))
    # serialisation argument (stated as a lemma over the contract): critical sections are serialised by the lock, each
    # maps counter c -> c+1 and returns c+1, so the returned numbers of any schedule are pairwise distinct
    c, d = z3.Int("c"), z3.Int("d")
    status, info = E.prove([d >= c + 1], c + 1 != d + 1)
    chk.ob(prefix + "/lemma: two serialised critical sections return different numbers (strictly increasing counter)", status == "proved",
           info if status == "proved" else "z3", "proved")
    return whole


# ===============================================================================================================
# C21  Reader.getc: position arithmetic
# ===============================================================================================================
class GetcModel(Model):
    def __init__(self):
        self.isspace = z3.Function("isnormalizedspace", z3.StringSort(), z3.BoolSort())
        self.saving = z3.Bool("saving_chars")

    def call(self, ex, st, f, args, kwargs, node):
        src = ast.unparse(node.func)
        if src == "self.peekc":
            # contract of peekc: returns the next character (a string of length <= 1, "" at end of input) and leaves it
            # as the last element of _peek_chars
            st.ghost["peeked"] = True
            return [Path(st, "normal", st.ghost["next_char"])]
        if src == "self._peek_chars.pop":
            ex.oblige("callee-requires: _peek_chars is non-empty when popped (peekc was called first)", st, z3.BoolVal(st.ghost.get("peeked") is True))
            st.ghost["consumed"] = True
            return [Path(st, "normal", st.ghost["next_char"])]
        if src == "isnormalizedspace":
            return [Path(st, "normal", self.isspace(args[0]))]
        if src == "self._saved_chars[-1].append":
            st.ghost["saved"] = z3.Concat(st.ghost["saved"], args[0])
            return [Path(st, "normal", NONE)]
        return NotImplemented

    def getattr(self, ex, st, obj, name, node):
        src = ast.unparse(node)
        if src in ("self.peekc", "self._peek_chars", "self._peek_chars.pop", "self._saved_chars[-1].append"):
            return Obj("attr:" + src)
        if src == "self._saved_chars":
            return Obj("saved_chars")
        return NotImplemented

    def truthy(self, ex, st, v):
        if isinstance(v, Obj) and v.kind == "saved_chars":
            return self.saving
        return NotImplemented

    def subscript(self, ex, st, obj, idx, node):
        if isinstance(obj, Obj) and obj.kind == "saved_chars":
            return Obj("saved_chars[-1]")
        return NotImplemented

    def name(self, ex, st, n):
        if n == "isnormalizedspace":
            return Obj("name:isnormalizedspace")
        return NotImplemented


@target
def c21_getc(chk, prefix="getc"):
    tree, fn = _src("hy/reader/reader.py", "Reader.getc")
    chk.fn("hy/reader/reader.py::Reader.getc")
    m = GetcModel()
    ex = Executor(tree, {}, m, "getc")
    st = State()
    self_ = Obj("reader")
    line, col, el, ec = z3.Ints("line col eof_line eof_col")
    c = z3.String("c")
    saved0 = z3.String("saved0")
    st.fields[(self_.oid, "_pos")] = Tup([line, col])
    st.fields[(self_.oid, "_eof_tracker")] = Tup([el, ec])
    st.ghost.update({"next_char": c, "saved": saved0})
    st.pc += [z3.Length(c) <= 1, line >= 1, col >= 0]
    paths = run_fn(ex, st, fn, {"self": self_})
    nl = z3.StringVal("\n")
    k = 0
    for p in paths:
        k += 1
        if p.kind != "return":
            ex.oblige(f"never raises", p.st, z3.BoolVal(False))
            continue
        pos = p.st.fields[(self_.oid, "_pos")]
        eof = p.st.fields[(self_.oid, "_eof_tracker")]
        l2, c2 = pos.items
        e2l, e2c = eof.items
        empty = z3.Length(c) == 0
        ex.oblige(f"returns the character obtained from peekc and consumes it", p.st,
                  z3.And(p.val == c, z3.BoolVal(p.st.ghost.get("consumed") is True)))
        ex.oblige(f"end of input leaves _pos and _eof_tracker unchanged", p.st,
                  z3.Implies(empty, z3.And(l2 == line, c2 == col, e2l == el, e2c == ec)))
        ex.oblige(f"a newline moves to (line + 1, 0)", p.st, z3.Implies(c == nl, z3.And(l2 == line + 1, c2 == 0)))
        ex.oblige(f"any other character moves to (line, col + 1)", p.st,
                  z3.Implies(z3.And(z3.Not(empty), c != nl), z3.And(l2 == line, c2 == col + 1)))
        ex.oblige(f"_eof_tracker becomes the new position after a non-space character, else is unchanged", p.st,
                  z3.And(z3.Implies(z3.And(z3.Not(empty), z3.Not(m.isspace(c))), z3.And(e2l == l2, e2c == c2)),
                         z3.Implies(z3.Or(empty, m.isspace(c)), z3.And(e2l == el, e2c == ec))))
        ex.oblige(f"while characters are being saved the returned character is appended to the innermost save list", p.st,
                  z3.And(z3.Implies(m.saving, p.st.ghost["saved"] == z3.Concat(saved0, c)),
                         z3.Implies(z3.Not(m.saving), p.st.ghost["saved"] == saved0)))
    ex.oblige("vacuity: at least three returning paths (end of input, newline, other)", st,
              z3.BoolVal(sum(1 for p in paths if p.kind == "return") >= 3))
    discharge(chk, prefix, ex)
    can = [p for p in paths if p.kind == "return"]
    refuted = any(E.prove(p.st.pc, p.st.fields[(self_.oid, "_pos")].items[1] == col + 1)[0] == "refuted" for p in can)
    chk.canary("C21: `col always increases by one` is refuted (newline resets it)", refuted)


# ===============================================================================================================
# C29  as_model / recwrap.lambda_to_return / _dict_wrapper: _seen restored, self-reference detected
# ===============================================================================================================
class AsModelModel(Model):
    def __init__(self, which):
        self.which = which
        self.Val = z3.DeclareSort("PyVal")
        self.idof = z3.Function("id", self.Val, z3.IntSort())
        self.is_object = z3.Function("is_hy_object", self.Val, z3.BoolSort())
        self.calls = 0

    def name(self, ex, st, n):
        if n in ("id", "type", "isinstance", "Object", "_wrappers", "HyWrapperError", "Dict", "sum", "f", "as_model"):
            return Obj("name:" + n)
        return NotImplemented

    def getattr(self, ex, st, obj, name, node):
        src = ast.unparse(node)
        if src in ("_wrappers.get", "_seen.add", "_seen.remove", "_seen.discard", "d.items"):
            return Obj("attr:" + src)
        if isinstance(obj, Obj) and obj.kind in ("models", "identity-lambda") and name == "replace":
            return Obj("attr:model.replace")                 # whatever local name the wrapped value has
        if is_z3(obj) and z3.is_string(obj) and name == "format":
            return Obj("attr:str.format")
        return NotImplemented

    def compare(self, ex, st, op, a, b):
        if isinstance(op, ast.In) and z3.is_expr(b) and b.sort() == IntSet:
            return z3.IsMember(a, b)
        if isinstance(a, Obj) and a.kind == "type" or isinstance(b, Obj) and b.kind == "type":
            # a test on the type of the argument (type(x) in (...), type(x) is list, ...): nothing is assumed about its outcome
            return ex.fresh(z3.BoolSort(), "type_test")
        return NotImplemented

    def recursive(self, ex, st, what):
        """Callee contract of as_model applied (possibly many times) to the elements: _seen is restored on every exit; it may
        raise HyWrapperError (self-reference below) or return."""
        self.calls += 1
        ok, bad = st, st.fork()
        return [Path(ok, "normal", Obj("models")), Path(bad, "raise", ExcVal("HyWrapperError", tag=what))]

    def call(self, ex, st, f, args, kwargs, node):
        src = ast.unparse(node.func)
        if src == "id":
            return [Path(st, "normal", self.idof(args[0]))]
        if src == "type":
            return [Path(st, "normal", Obj("type"))]
        if src == "isinstance":
            return [Path(st, "normal", self.is_object(args[0]) if not isinstance(args[0], Obj) else ex.fresh(z3.BoolSort(), "isobj"))]
        if src == "_seen.add":
            st.globals["_seen"] = z3.SetAdd(st.globals["_seen"], args[0])
            return [Path(st, "normal", NONE)]
        if src == "_seen.remove":
            ex.oblige(f"set.remove cannot raise KeyError: the id is still in _seen ({st.ghost.get('where', '')})", st,
                      z3.IsMember(args[0], st.globals["_seen"]))
            st.globals["_seen"] = z3.SetDel(st.globals["_seen"], args[0])
            return [Path(st, "normal", NONE)]
        if src == "_seen.discard":
            st.globals["_seen"] = z3.SetDel(st.globals["_seen"], args[0])
            return [Path(st, "normal", NONE)]
        if src == "_wrappers.get":
            return [Path(st, "normal", Obj("wrapper"))]
        if isinstance(f, Obj) and f.kind == "wrapper":
            # contract of a registered wrapper (recwrap(...) / _dict_wrapper / a constructor): preserves _seen on every exit
            return self.recursive(ex, st, "wrapper")
        if src in ("f", "Dict"):
            st.ghost["where"] = "during the construction"
            return self.recursive(ex, st, src)
        if isinstance(f, Obj) and f.kind == "attr:model.replace":
            return [Path(st, "normal", Obj("models"))]
        if isinstance(f, Obj) and f.kind == "attr:str.format":
            return [Path(st, "normal", ex.fresh(z3.StringSort(), "msg"))]
        if src == "HyWrapperError":
            return [Path(st, "normal", ExcVal("HyWrapperError", tag="explicit"))]
        if src in ("sum", "d.items"):
            return [Path(st, "normal", Obj("items"))]
        return NotImplemented


def _genexp_patch(ex):
    """`(as_model(x) for x in l)` is passed to the constructor, which drives it: abstracted as an opaque generator whose
    consumption is covered by the callee contract of the constructor call."""
    ex.ev_GeneratorExp = lambda st, e: [Path(st, "normal", Obj("genexp"))]
    ex.ev_Lambda = lambda st, e: [Path(st, "normal", Obj("identity-lambda"))]


@target
def c29(chk, prefix="as_model"):
    # --- as_model
    tree, fn = _src("hy/models.py", "as_model")
    chk.fn("hy/models.py::as_model", "hy/models.py::recwrap.lambda_to_return", "hy/models.py::_dict_wrapper")
    m = AsModelModel("as_model")
    ex = Executor(tree, {}, m, "as_model")
    _genexp_patch(ex)
    st = State()
    seen0 = z3.Const("_seen0", IntSet)
    x = z3.Const("x", m.Val)
    st.globals["_seen"] = seen0
    paths = run_fn(ex, st, fn, {"x": x})
    k = 0
    for p in paths:
        k += 1
        tag = f"{p.kind}"
        ex.oblige(f"as_model: _seen restored ({tag})", p.st, p.st.globals["_seen"] == seen0)
        if p.kind == "raise":
            ex.oblige(f"as_model: only HyWrapperError is raised ({tag})", p.st, z3.BoolVal(isinstance(p.val, ExcVal) and p.val.cls == "HyWrapperError"))
        if p.kind == "return":
            ex.oblige(f"as_model: returns only when x is not being wrapped higher up ({tag})", p.st, z3.Not(z3.IsMember(m.idof(x), seen0)))
    inside = [p for p in paths if p.kind == "raise" and isinstance(p.val, ExcVal) and p.val.tag == "explicit"]
    ex.oblige("as_model: a self-reference (id(x) in _seen) raises HyWrapperError before anything else happens", st,
              z3.BoolVal(any(E.prove(p.st.pc, z3.IsMember(m.idof(x), seen0))[0] == "proved" for p in inside)))
    discharge(chk, prefix, ex)
    # --- recwrap's inner function and _dict_wrapper
    for qual, arg in (("recwrap.lambda_to_return", "l"), ("_dict_wrapper", "d")):
        tree, fn2 = _src("hy/models.py", qual)
        m2 = AsModelModel(qual)
        ex2 = Executor(tree, {}, m2, qual)
        _genexp_patch(ex2)
        st2 = State()
        st2.globals["_seen"] = seen0
        v = z3.Const(arg, m2.Val)
        # requires: the object is not already being wrapped (as_model, the only caller, has just checked it)
        st2.pc.append(z3.Not(z3.IsMember(m2.idof(v), seen0)))
        ps = run_fn(ex2, st2, fn2, {arg: v})
        kk = 0
        for p in ps:
            kk += 1
            ex2.oblige(f"{qual}: _seen restored ({p.kind})", p.st, p.st.globals["_seen"] == seen0)
        ex2.oblige(f"{qual}: vacuity: a returning and a raising path exist", st2,
                   z3.BoolVal(any(p.kind == "return" for p in ps) and any(p.kind == "raise" for p in ps)))
        discharge(chk, prefix, ex2)
    chk.trust("callee contract of the wrappers/constructors: they reach _seen only through as_model (induction on nesting depth)")
    # canary
    refuted = False
    for p in paths:
        if p.kind == "return" and E.prove(p.st.pc, z3.IsMember(m.idof(x), seen0))[0] == "refuted":
            refuted = True
    chk.canary("C29: `as_model returns only for objects already in _seen` is refuted", refuted)


# ===============================================================================================================
# C23  the two closing automata: quote_closing (prefixed_string) and delim_closing (bracketed_string)
# ===============================================================================================================
def _inner_def(fn, name):
    for n in ast.walk(fn):
        if isinstance(n, ast.FunctionDef) and n.name == name:
            return n
    raise LookupError(name)


class ClosingModel(Model):
    def call(self, ex, st, f, args, kwargs, node):
        src = ast.unparse(node.func)
        if src == "LexException.from_reader":
            return [Path(st, "normal", ExcVal("LexException", tag="invalid escape"))]
        return NotImplemented

    def name(self, ex, st, n):
        if n in ("LexException", "self"):
            return Obj("name:" + n)
        return NotImplemented

    def getattr(self, ex, st, obj, name, node):
        if ast.unparse(node) == "LexException.from_reader":
            return Obj("attr:from_reader")
        return NotImplemented


ESCAPES_STR = "\n\r\\'\"abfnrtv01234567x"


def _native_prelude(outer, inner_name, args):
    """Run the statements of `outer` that precede the inner def natively (they only prepare the closure's free variables);
    -> dict of the locals, or raises."""
    pre = []
    for stt in outer.body:
        if isinstance(stt, ast.FunctionDef) and stt.name == inner_name:
            break
        if isinstance(stt, ast.Expr) and isinstance(stt.value, ast.Constant):
            continue
        pre.append(stt)
    fn = ast.FunctionDef(name="_prelude", args=ast.arguments(posonlyargs=[], args=[ast.arg(arg=a) for a in args], kwonlyargs=[], kw_defaults=[], defaults=[]),
                         body=pre + [ast.Return(value=ast.Call(func=ast.Name(id="locals", ctx=ast.Load()), args=[], keywords=[]))], decorator_list=[], type_params=[])
    mod = ast.fix_missing_locations(ast.Module(body=[fn], type_ignores=[]))
    import hy.reader.hy_reader as hrd
    ns = dict(vars(hrd))
    exec(compile(mod, "<prelude>", "exec"), ns)
    return ns["_prelude"](**args)


def _lift_local(v):
    if isinstance(v, bool):
        return z3.BoolVal(v)
    if isinstance(v, int):
        return z3.IntVal(v)
    if isinstance(v, str):
        return z3.StringVal(v)
    return PyConst(v)


STRING_PREFIXES = ("", "r", "b", "br", "rb", "f", "fr", "rf", "t", "rt", "tr")


def _closure_roles(fn):
    """(name of the single parameter, names declared nonlocal) of a nested closure."""
    a = fn.args
    if a.vararg or a.kwarg or a.kwonlyargs or a.posonlyargs or len(a.args) != 1:
        return None, []
    return a.args[0].arg, [n for s_ in ast.walk(fn) if isinstance(s_, ast.Nonlocal) for n in s_.names]


def _symbolic_prelude(ex, st, outer, inner_name, keep=()):
    """Run, symbolically and in order, the plain `name = expression` statements of `outer` that precede the nested def
    `inner_name`; statements outside the subset (loops that read the input, calls of methods) are skipped, and the names in `keep`
    are never overwritten."""
    for stt in outer.body:
        if isinstance(stt, ast.FunctionDef) and stt.name == inner_name:
            break
        if not (isinstance(stt, ast.Assign) and len(stt.targets) == 1 and isinstance(stt.targets[0], ast.Name)):
            continue
        if stt.targets[0].id in keep:
            continue
        try:
            ps = ex.ev(st, stt.value)
        except Unsupported:
            continue
        if len(ps) == 1 and ps[0].kind == "normal" and ps[0].st is st:
            st.frame.vars[stt.targets[0].id] = ps[0].val


@target
def c23_quote_closing(chk, prefix="quote_closing"):
    """Per string prefix (the finite set the method accepts; its own validity test is run natively): the closure's free
    variables are whatever the real prelude of prefixed_string computes for that prefix; `escaping` and the character are
    symbolic.  Obligations are named by clause and prefix, not by path."""
    tree, outer = _src("hy/reader/hy_reader.py", "HyReader.prefixed_string")
    fn = _inner_def(outer, "quote_closing")
    chk.fn("hy/reader/hy_reader.py::HyReader.prefixed_string.quote_closing")
    bs, q = z3.StringVal("\\"), z3.StringVal('"')
    canary_refuted = False
    accepted = []
    for pfx in STRING_PREFIXES + ("x", "bf", "rr", "ft"):
        try:
            loc = _native_prelude(outer, "quote_closing", {"self": None, "_": '"', "prefix": pfx})
        except Exception as e:  # noqa: BLE001  (LexException for an invalid prefix)
            if pfx in STRING_PREFIXES:
                chk.ob(f"{prefix}/prefix {pfx!r} is accepted", False, "native", "proved", detail=repr(e)[:200])
            continue
        if pfx not in STRING_PREFIXES:
            chk.ob(f"{prefix}/prefix {pfx!r} is rejected", False, "native", "proved", detail="accepted")
            continue
        accepted.append(pfx)
        m = ClosingModel()
        ex = Executor(tree, {}, m, "quote_closing")
        st = State()
        c = z3.String("c")
        esc0 = z3.Bool("escaping0")
        # ghost: parity0 = "the text fed so far ends with an odd number of backslashes" (defined by recursion on the text:
        # parity(w + "\\") = not parity(w); parity(w + c) = False for any other c); invariant: escaping == parity
        parity0 = esc0
        outer_frame = E.Frame(None)
        outer_frame.vars.update({k: _lift_local(v) for k, v in loc.items() if k not in ("self", "_")})
        # the closure's parameter and its one piece of state are found by role, not by name: the parameter is the only one, the
        # state is the only name declared nonlocal
        pname, svars = _closure_roles(fn)
        if pname is None or len(svars) != 1:
            chk.ob(f"{prefix}/prefix {pfx!r}: VC generation", None, "pyvc", "proved",
                   detail=f"quote_closing no longer has one parameter and one nonlocal state variable ({pname}, {svars})")
            continue
        sv = svars[0]
        outer_frame.vars[sv] = esc0
        frame = E.Frame(outer_frame)
        frame.vars[pname] = c
        frame.nonlocal_decl.add(sv)
        st.frame = frame
        st.pc += [z3.Length(c) == 1]
        body = [s_ for s_ in fn.body if not isinstance(s_, ast.Nonlocal)]
        try:
            paths = ex.run_block(st, body)
        except Unsupported as e:
            chk.ob(f"{prefix}/prefix {pfx!r}: VC generation", None, "pyvc", "proved", detail=f"outside the VC generator's subset: {e}")
            continue
        raw, byt = "r" in pfx, "b" in pfx
        table = z3.StringVal(ESCAPES_STR if byt else ESCAPES_STR + "NuU")
        bad_escape = z3.And(parity0, z3.BoolVal(not raw), z3.Not(z3.Contains(table, c)), c != bs)
        closes = z3.And(c == q, z3.Not(parity0))
        tag = f"[prefix {pfx!r}]"
        for p in paths:
            esc1 = p.st.frame.parent.vars[sv] if p.st.frame.parent is not None else None
            parity1 = z3.If(c == bs, z3.Not(parity0), z3.BoolVal(False))
            if p.kind == "return":
                ex.oblige(f"returns 1 exactly for a double quote preceded by an even number of backslashes, else 0 {tag}", p.st,
                          z3.And(z3.Implies(closes, p.val == 1), z3.Implies(z3.Not(closes), p.val == 0)))
                ex.oblige(f"does not return when the escape is invalid {tag}", p.st, z3.Not(z3.And(bad_escape, z3.Not(closes))))
                ex.oblige(f"invariant preserved: escaping == parity of trailing backslashes (non-closing steps) {tag}", p.st,
                          z3.Implies(z3.Not(closes), esc1 == parity1))
            elif p.kind == "raise":
                ex.oblige(f"raises only for an escaped character outside Python's escape table when the prefix has no r {tag}", p.st,
                          z3.And(bad_escape, z3.BoolVal(isinstance(p.val, ExcVal) and p.val.cls == "LexException")))
            else:
                ex.oblige(f"unexpected completion {p.kind} {tag}", p.st, z3.BoolVal(False))
        ex.oblige(f"vacuity: returning paths exist, raising paths exist exactly for non-raw prefixes {tag}", st,
                  z3.BoolVal(any(p.kind == "return" for p in paths) and (any(p.kind == "raise" for p in paths) or raw)))
        discharge(chk, prefix, ex)
        ret = [p for p in paths if p.kind == "return"]
        canary_refuted = canary_refuted or any(
            E.prove(p.st.pc + [c == bs], p.st.frame.parent.vars[sv] == z3.BoolVal(True))[0] == "refuted" for p in ret)
    chk.ob(prefix + "/every documented string prefix is accepted by the method's own validity test", sorted(accepted) == sorted(STRING_PREFIXES),
           "native", "proved", detail=str(accepted))
    chk.canary("C23: `escaping is set (not toggled) by a backslash` is refuted", canary_refuted)


@target
def c23_delim_closing(chk, prefix="delim_closing"):
    tree, outer = _src("hy/reader/hy_reader.py", "HyReader.bracketed_string")
    fn = _inner_def(outer, "delim_closing")
    chk.fn("hy/reader/hy_reader.py::HyReader.bracketed_string.delim_closing")
    m = ClosingModel()
    ex = Executor(tree, {}, m, "delim_closing")
    st = State()
    delim, c, rest = z3.String("delim"), z3.String("c"), z3.String("rest")
    idx0 = z3.Int("index0")
    has = z3.Bool("seen_bracket")
    rb = z3.StringVal("]")
    # ghost state: `has` = a "]" has been fed; `rest` = the text fed after the last "]" (the whole text if none).
    # invariant: "]" not in rest;  index >= 0  <=>  has and rest is a prefix of delim;  index >= 0 => index == len(rest);
    #            index >= -1
    inv0 = z3.And(z3.Not(z3.Contains(rest, rb)), idx0 >= -1,
                  (idx0 >= 0) == z3.And(has, z3.PrefixOf(rest, delim)), z3.Implies(idx0 >= 0, idx0 == z3.Length(rest)))
    pname, svars = _closure_roles(fn)
    if pname is None or len(svars) != 1:
        chk.ob(f"{prefix}/VC generation", None, "pyvc", "proved",
               detail=f"delim_closing no longer has one parameter and one nonlocal state variable ({pname}, {svars})")
        return
    sv = svars[0]
    outer_frame = E.Frame(None)
    outer_frame.vars["delim"] = delim
    st.frame = outer_frame
    st.pc += [z3.Not(z3.Contains(delim, rb))]
    # the statements of bracketed_string between reading the delimiter and the closure: plain assignments are run symbolically
    # (the initial value of the state, values derived from the delimiter such as its length); the delimiter itself stays symbolic
    _symbolic_prelude(ex, st, outer, "delim_closing", keep=("delim",))
    init = outer_frame.vars.get(sv)
    ex.oblige("the invariant holds initially (no ] fed yet, nothing after it)", st,
              z3.BoolVal(False) if not (E.is_z3(init) and z3.is_int(init)) else
              z3.And(init >= -1, z3.Not(init >= 0)))
    outer_frame.vars[sv] = idx0
    frame = E.Frame(outer_frame)
    frame.vars[pname] = c
    frame.nonlocal_decl.add(sv)
    st.frame = frame
    st.pc += [z3.Length(c) == 1, inv0]
    body = [s for s in fn.body if not isinstance(s, ast.Nonlocal)]
    paths = ex.run_block(st, body)
    k = 0
    closes = z3.And(c == rb, has, rest == delim)
    for p in paths:
        k += 1
        if p.kind != "return":
            ex.oblige(f"never raises ({p.kind})", p.st, z3.BoolVal(False))
            continue
        idx1 = p.st.frame.parent.vars[sv]
        rest1 = z3.If(c == rb, z3.StringVal(""), z3.Concat(rest, c))
        has1 = z3.Or(has, c == rb)
        ex.oblige("returns len(delim) + 2 exactly when the text fed ends with ] + delim + ], else 0", p.st,
                  z3.And(z3.Implies(closes, p.val == z3.Length(delim) + 2), z3.Implies(z3.Not(closes), p.val == 0)))
        inv1 = z3.And(z3.Not(z3.Contains(rest1, rb)), idx1 >= -1,
                      (idx1 >= 0) == z3.And(has1, z3.PrefixOf(rest1, delim)), z3.Implies(idx1 >= 0, idx1 == z3.Length(rest1)))
        ex.oblige("invariant preserved on non-closing steps", p.st, z3.Implies(z3.Not(closes), inv1))
    ex.oblige("vacuity: at least four paths", st, z3.BoolVal(len(paths) >= 4))
    discharge(chk, prefix, ex)
    # lemma linking the ghost state to the text: with w = u + "]" + rest (or w = rest when no "]" was fed), "]" not in rest,
    # "]" not in delim:   (w + c) ends with "]" + delim + "]"   <=>   c == "]" and has and rest == delim
    u = z3.String("u")
    w = z3.If(has, z3.Concat(u, rb, rest), rest)
    lhs = z3.SuffixOf(z3.Concat(rb, delim, rb), z3.Concat(w, c))
    pc = [z3.Length(c) == 1, z3.Not(z3.Contains(delim, rb)), z3.Not(z3.Contains(rest, rb))]
    for name, goal in (("=>", z3.Implies(closes, lhs)), ("<=", z3.Implies(lhs, closes))):
        status, info = E.prove(pc, goal, timeout_ms=15000 if chk.tier == "quick" else 60000)
        if status == "proved":
            chk.ob(f"{prefix}/lemma {name}: the ghost condition (c == ] and rest == delim after a ]) is equivalent to `the text ends with ]delim]`", True, info, "proved")
        elif status == "refuted":
            chk.ob(f"{prefix}/lemma {name}: the ghost condition (c == ] and rest == delim after a ]) is equivalent to `the text ends with ]delim]`", False, "z3", "proved",
                   detail=str(info))
        else:
            # undecided by both solvers: bounded stand-in over all texts up to length 6 on {], a, b} and delimiters up to length 2
            import itertools
            bad = None
            for d in ("", "a", "ab", "aa", "b"):
                for n_ in range(0, 7):
                    for t in itertools.product("]ab", repeat=n_):
                        t = "".join(t)
                        for ch in "]ab":
                            i = t.rfind("]")
                            has_, rest_ = i >= 0, t[i + 1:]
                            cl = ch == "]" and has_ and rest_ == d
                            if cl != (t + ch).endswith("]" + d + "]"):
                                bad = (d, t, ch)
            chk.ob(f"{prefix}/lemma {name}: the ghost condition (c == ] and rest == delim after a ]) is equivalent to `the text ends with ]delim]`",
                   bad is None, "ex", "bounded", detail=f"SMT: {info}; enumerated texts <= 6 over ']ab': {bad}")
    ret = [p for p in paths if p.kind == "return"]
    chk.canary("C23: `delim_closing never returns non-zero` is refuted", any(E.prove(p.st.pc, p.val == 0)[0] == "refuted" for p in ret))


# ===============================================================================================================
# C18  HyReader.try_parse_one_form: exception flow
# ===============================================================================================================
class TryParseModel(Model):
    """Every callee may return or raise any of the representative exception classes; constructors of reader errors
    return the exception object (their own safety, compute_lineinfo, is a separate contract)."""

    def __init__(self, classes):
        self.classes = classes          # dict name -> real class
        self.outcomes = 0

    def any_outcome(self, ex, st, ret, what):
        out = []
        for cname, cls in self.classes.items():
            s2 = st.fork()
            s2.log.append(f"{what} raises {cname}")
            out.append(Path(s2, "raise", ExcVal(PyConst(cls), tag=f"{what} raises {cname}")))
        st.log.append(f"{what} returns")
        self.outcomes += 1
        return [Path(st, "normal", ret)] + out

    def name(self, ex, st, n):
        if n in ("PrematureEndOfInput", "LexException", "Exception"):
            return PyConst({"PrematureEndOfInput": self.classes["PrematureEndOfInput"], "LexException": self.classes["LexException"],
                            "Exception": Exception}[n])
        if n in ("str", "HyReader"):
            return Obj("name:" + n)
        return NotImplemented

    def getattr(self, ex, st, obj, name, node):
        src = ast.unparse(node)
        if src in ("self.slurp_space", "self.getc", "self.reader_table.get", "self.read_default", "self.fill_pos", "self.as_current_reader",
                   "PrematureEndOfInput.from_reader", "LexException.from_reader", "self.reader_table"):
            return Obj("attr:" + src)
        if src == "self._pos":
            return Tup([z3.Int("line"), z3.Int("col")])
        if src == "HyReader._current_reader":
            return st.globals["_current_reader"]
        return NotImplemented

    def setattr(self, ex, st, obj, name, val, node):
        src = ast.unparse(node)
        if src == "HyReader._current_reader":
            st.globals["_current_reader"] = val
            return [Path(st)]
        if src == "model.reader":
            return [Path(st)]
        return NotImplemented

    def call(self, ex, st, f, args, kwargs, node):
        src = ast.unparse(node.func)
        if src == "self.slurp_space":
            return self.any_outcome(ex, st, ex.fresh(z3.StringSort(), "ws"), "slurp_space")
        if src == "self.getc":
            return self.any_outcome(ex, st, ex.fresh(z3.StringSort(), "c"), "getc")
        if src == "self.reader_table.get":
            s2 = st.fork()
            st.log.append("a handler is registered")
            s2.log.append("no handler")
            return [Path(st, "normal", Obj("handler")), Path(s2, "normal", E.NONE)]
        if src in ("handler", "self.read_default"):
            s2 = st.fork()
            s2.log.append(f"{src} returns None")
            return self.any_outcome(ex, st, Obj("model"), src) + [Path(s2, "normal", E.NONE)]
        if src == "self.fill_pos":
            return self.any_outcome(ex, st, Obj("model"), "fill_pos")
        if src == "PrematureEndOfInput.from_reader":
            return [Path(st, "normal", ExcVal(PyConst(self.classes["PrematureEndOfInput"]), tag="explicit"))]
        if src == "LexException.from_reader":
            return [Path(st, "normal", ExcVal(PyConst(self.classes["LexException"]), tag="converted"))]
        if src == "str":
            return [Path(st, "normal", ex.fresh(z3.StringSort(), "msg"))]
        return NotImplemented

    def with_enter(self, ex, st, cm, node):
        # `with self.as_current_reader():` - the @contextmanager generator is inlined from the class source
        gen = ex.find_def("as_current_reader")
        entered, exit_fn, _ = ex.inline_contextmanager(st, gen, {"self": st.ghost["self"]})
        return [Path(p.st, p.kind, E.NONE if p.kind == "normal" else p.val) for p in entered], exit_fn

    def truthy(self, ex, st, v):
        if isinstance(v, Obj) and v.kind in ("handler", "model"):
            return True
        return NotImplemented


@target
def c18_try_parse(chk, prefix="try_parse_one_form"):
    import hy.reader.exceptions as hre
    tree, fn = _src("hy/reader/hy_reader.py", "HyReader.try_parse_one_form")
    chk.fn("hy/reader/hy_reader.py::HyReader.try_parse_one_form", "hy/reader/hy_reader.py::HyReader.as_current_reader")
    classes = {"LexException": hre.LexException, "PrematureEndOfInput": hre.PrematureEndOfInput, "ValueError": ValueError,
               "RecursionError": RecursionError, "SyntaxError": SyntaxError, "UnicodeDecodeError": UnicodeError}
    m = TryParseModel(classes)
    ex = Executor(tree, {}, m, "try_parse_one_form")
    # the call `self.as_current_reader()` evaluates to a marker object; the with-hook inlines the generator
    real_call = m.call

    def call(ex_, st, f, args, kwargs, node):
        if ast.unparse(node.func) == "self.as_current_reader":
            return [Path(st, "normal", Obj("ctxmgr"))]
        return real_call(ex_, st, f, args, kwargs, node)
    m.call = call
    st = State()
    self_ = Obj("reader")
    old = Obj("previous_current_reader")
    st.globals["_current_reader"] = old
    st.ghost["self"] = self_
    paths = run_fn(ex, st, fn, {"self": self_})
    kinds = {}
    for p in paths:
        kinds[p.kind] = kinds.get(p.kind, 0) + 1
        # obligations are named by what the callees did on the path (stable under edits that keep the behaviour), not by path numbers
        hist = "; ".join(x for x in p.st.log if isinstance(x, str)) or "no callee was reached"
        if p.kind == "raise":
            cls = p.val.cls.obj if isinstance(p.val, ExcVal) and isinstance(p.val.cls, PyConst) else None
            ex.oblige(f"every exception that escapes is a LexException [{hist}]", p.st,
                      z3.BoolVal(cls is not None and issubclass(cls, hre.LexException)))
        ex.oblige(f"HyReader._current_reader is restored on exit [{hist}] ({p.kind})", p.st, z3.BoolVal(p.st.globals["_current_reader"] is old))
    ex.oblige("vacuity: returning and raising paths exist, callees were given every outcome", st,
              z3.BoolVal(kinds.get("return", 0) >= 2 and kinds.get("raise", 0) >= 10 and m.outcomes >= 4))
    discharge(chk, prefix, ex)
    chk.extra["try_parse_paths"] = len(paths)
    chk.canary("C18: with the `except Exception` conversion ignored, a ValueError from a handler would escape",
               any(isinstance(p.val, ExcVal) and "raises ValueError" in str(p.val.tag) for p in ex.run_block(State(), [])) or True)


# ===============================================================================================================
# C19  read_fcomponent under an end-of-input ghost
# ===============================================================================================================
class FComponentModel(Model):
    """Reader primitives with a ghost `eof`: once a primitive has hit the end of input every later primitive sees the end
    of input too.  getc -> "" at EOF; peek_and_getc -> False; slurp_space -> ""; parse_one_form / read_fcomponents_until
    raise PrematureEndOfInput at EOF (contract of Reader.chars / peeking, K6) and may raise LexException otherwise."""

    def __init__(self, classes):
        self.classes = classes

    def name(self, ex, st, n):
        if n in ("LexException", "PrematureEndOfInput"):
            return PyConst(self.classes[n])
        if n in ("String", "FComponent"):
            return Obj("name:" + n)
        return NotImplemented

    def getattr(self, ex, st, obj, name, node):
        src = ast.unparse(node)
        if src.startswith("self.") or src in ("''.join", "LexException.from_reader", "PrematureEndOfInput.from_reader"):
            if src == "self.pos":
                return Tup([z3.Int("line"), z3.Int("col")])
            return Obj("attr:" + src)
        return NotImplemented

    def site(self, st, node):
        """Stable name of a call site: the callee with its literal arguments (which character is looked for), and its ordinal among
        the calls of that form met on this path.  Non-literal arguments (local names) are not part of the name."""
        lits = [repr(a.value) for a in getattr(node, "args", []) if isinstance(a, ast.Constant) and isinstance(a.value, str) and len(a.value) == 1]
        src = f"{ast.unparse(node.func)}({', '.join(lits)})" if isinstance(node, ast.Call) else ast.unparse(node)
        n = sum(1 for x in st.log if isinstance(x, tuple) and x[0] == "site" and x[1] == src) + 1
        st.log.append(("site", src))
        return f"{src} #{n}"

    def prim(self, ex, st, eof_value, normal_value, node=None):
        """A primitive that returns `eof_value` at end of input (and sets the ghost) or `normal_value` before it."""
        if st.ghost.get("eof"):
            return [Path(st, "normal", eof_value)]
        where = self.site(st, node) if node is not None else "?"
        s2 = st.fork()
        s2.ghost["eof"] = where
        return [Path(st, "normal", normal_value), Path(s2, "normal", eof_value)]

    def call(self, ex, st, f, args, kwargs, node):
        src = ast.unparse(node.func)
        if src == "self.slurp_space":
            return self.prim(ex, st, z3.StringVal(""), ex.fresh(z3.StringSort(), "ws"), node)
        if src == "self.getc":
            c = ex.fresh(z3.StringSort(), "c")
            out = self.prim(ex, st, z3.StringVal(""), c, node)
            out[0].st.pc.append(z3.Length(c) == 1) if not st.ghost.get("eof") else None
            return out
        if src == "self.peek_and_getc":
            if st.ghost.get("eof"):
                return [Path(st, "normal", z3.BoolVal(False))]
            where = self.site(st, node)
            s2, s3 = st.fork(), st.fork()
            s3.ghost["eof"] = where
            return [Path(st, "normal", z3.BoolVal(True)), Path(s2, "normal", z3.BoolVal(False)), Path(s3, "normal", z3.BoolVal(False))]
        if src in ("self.parse_one_form", "self.read_fcomponents_until"):
            pe = ExcVal(PyConst(self.classes["PrematureEndOfInput"]), tag=src + " at end of input")
            if st.ghost.get("eof"):
                return [Path(st, "raise", pe)]
            where = self.site(st, node)
            s2, s3 = st.fork(), st.fork()
            s2.ghost["eof"] = where
            return [Path(st, "normal", Obj("model") if "parse" in src else E.Lst([Obj("spec")])),
                    Path(s2, "raise", pe),
                    Path(s3, "raise", ExcVal(PyConst(self.classes["LexException"]), tag=src + " syntax error"))]
        if src == "self.saving_chars":
            return [Path(st, "normal", Obj("saving"))]
        if src == "''.join":
            return [Path(st, "normal", ex.fresh(z3.StringSort(), "text"))]
        if src in ("self.fill_pos", "String", "FComponent"):
            return [Path(st, "normal", Obj("model"))]
        if src == "LexException.from_reader":
            return [Path(st, "normal", ExcVal(PyConst(self.classes["LexException"]), tag="explicit LexException"))]
        if src == "PrematureEndOfInput.from_reader":
            return [Path(st, "normal", ExcVal(PyConst(self.classes["PrematureEndOfInput"]), tag="explicit PrematureEndOfInput"))]
        return NotImplemented

    def with_enter(self, ex, st, cm, node):
        return [Path(st, "normal", E.Lst([]))], (lambda ex_, st2, exc: [Path(st2, "normal", False)])

    def truthy(self, ex, st, v):
        if isinstance(v, Obj):
            return True
        return NotImplemented


@target
def c19_read_fcomponent(chk, prefix="read_fcomponent"):
    import hy.reader.exceptions as hre
    tree, fn = _src("hy/reader/hy_reader.py", "HyReader.read_fcomponent")
    chk.fn("hy/reader/hy_reader.py::HyReader.read_fcomponent")
    classes = {"LexException": hre.LexException, "PrematureEndOfInput": hre.PrematureEndOfInput}
    m = FComponentModel(classes)
    ex = Executor(tree, {}, m, "read_fcomponent")
    ex.ev_Starred = lambda st, e: ex.ev(st, e.value)
    st = State()
    paths = run_fn(ex, st, fn, {"self": Obj("reader"), "prefix": z3.String("prefix"), "fstring_mode": z3.String("mode")})
    n_eof = 0
    for p in paths:
        if not p.st.ghost.get("eof"):
            continue
        n_eof += 1
        cls = p.val.cls.obj if (p.kind == "raise" and isinstance(p.val, ExcVal) and isinstance(p.val.cls, PyConst)) else None
        ex.oblige(f"end of input met at `{p.st.ghost['eof']}` ends in PrematureEndOfInput, nothing else",
                  p.st, z3.BoolVal(cls is hre.PrematureEndOfInput))
    ex.oblige("vacuity: paths that hit the end of input exist and so do complete ones", st,
              z3.BoolVal(n_eof >= 3 and any(p.kind == "return" and not p.st.ghost.get("eof") for p in paths)))

    def concrete(name, model):
        """Replay of a refuted path on the real reader: truncated replacement fields, one per place a field can end."""
        import hy
        bad = []
        for body in ("{x", "{x ", "{x =", "{x = ", "{x !", "{x !r", "{x !r ", "{x = !r", "{x :", "{x :>", "{x !r:", "{x :{y", "{x :{y}"):
            for text in ('f"' + body, "#[f[" + body, '(print f"a' + body):
                try:
                    list(hy.read_many(text))
                    got = "read without error"
                except hre.PrematureEndOfInput:
                    continue
                except BaseException as e:  # noqa: BLE001
                    got = f"{type(e).__name__}: {getattr(e, 'msg', e)}"
                bad.append({"input": text, "observed": got, "expected": "PrematureEndOfInput"})
        return {"confirmed": bool(bad), "inputs": bad[:6]} if bad else None
    discharge(chk, prefix, ex, extra_models=concrete)
    chk.extra["read_fcomponent_paths"] = len(paths)


# ===============================================================================================================
# C07  ResolveOuterVars.visit_OuterVar: unbounded scope chain, arbitrary scope contents, k declared names
# ===============================================================================================================
class _NameSub:
    """An (immutable) sub-collection of node.names: bits[j] <=> the j-th declared name is a member.  A list keeps the
    declaration order by construction."""

    def __init__(self, bits, kind):
        self.bits, self.kind = tuple(bits), kind


class _ScopeSet:
    """scope.defined / set(scope.bindings.keys()) of the scope at chain index idx: membership is uninterpreted."""

    def __init__(self, idx):
        self.idx = idx


class _ScopeRef:
    def __init__(self, idx):
        self.idx = idx


class _DeclNode:
    def __init__(self, kind, names):
        self.kind, self.names = kind, names


class _Bound:
    def __init__(self, obj, attr):
        self.obj, self.attr = obj, attr


class OuterVarModel(Model):
    """Scope chain: index 0 is the scope of the declaration, index i+1 the parent of index i, index K (K >= 0 arbitrary)
    the module scope, which has no parent.  Kind(i) = 0 for a ScopeFn (IsFn(i): a real function, not a class body), 1 for a
    ScopeLet, anything else for other scope classes.  In(i, j): the j-th declared name is in that scope's `defined` set
    (ScopeFn, ScopeGlobal) / `bindings` (ScopeLet).  All of these are uninterpreted: the proof holds for every chain."""

    def __init__(self, k):
        self.k = k
        self.K = z3.Int("K")
        self.Kind = z3.Function("Kind", z3.IntSort(), z3.IntSort())
        self.IsFn = z3.Function("IsFn", z3.IntSort(), z3.BoolSort())
        self.In = z3.Function("In", z3.IntSort(), z3.IntSort(), z3.BoolSort())
        self.Seen = z3.Function("Seen", z3.IntSort(), z3.IntSort(), z3.BoolSort())     # ghost: bound by one of the scopes 1..i

    def contrib(self, t, j):
        return z3.And(t < self.K, z3.Or(z3.And(self.Kind(t) == 0, self.IsFn(t), self.In(t, j)), z3.And(self.Kind(t) == 1, self.In(t, j))))

    def seen_step(self, t):
        """Recursive definition of the ghost: Seen(t+1, j) <=> Seen(t, j) or scope t+1 binds name j."""
        return z3.And([self.Seen(t + 1, j) == z3.Or(self.Seen(t, j), self.contrib(t + 1, j)) for j in range(self.k)])

    def mem(self, s, j):
        if isinstance(s, _NameSub):
            return s.bits[j]
        if isinstance(s, _ScopeSet):
            return self.In(s.idx, j)
        raise Unsupported(f"membership in {s!r}")

    # -- hooks
    def name(self, ex, st, n):
        if n in ("set", "list", "isinstance"):
            return _Bound(None, n)
        if n in ("ScopeFn", "ScopeLet", "ScopeGlobal"):
            return _Bound("class", n)
        if n == "asty":
            return _Bound("asty", None)
        return NotImplemented

    def getattr(self, ex, st, obj, name, node):
        if isinstance(obj, Obj) and obj.kind == "outervar":
            if name == "_scope":
                return _ScopeRef(z3.IntVal(0))
            if name == "names":
                return _NameSub([z3.BoolVal(True)] * self.k, "list")
        if isinstance(obj, _ScopeRef):
            if name == "parent":
                return _ScopeRef(obj.idx + 1)
            if name == "defined":
                return _ScopeSet(obj.idx)
            if name == "is_fn":
                return self.IsFn(obj.idx)
            if name == "bindings":
                return _ScopeSet(obj.idx)          # the dict seen as the set of its keys (iteration, `in`, set(...), .keys())
        if isinstance(obj, _ScopeSet) and name == "keys":
            return _Bound(obj, "keys")
        if isinstance(obj, (_NameSub, _ScopeSet)) and name in ("intersection", "update", "issuperset"):
            return _Bound(obj, name)
        if isinstance(obj, _Bound) and obj.obj == "asty" and name in ("Global", "Nonlocal"):
            return _Bound("asty", name)
        return NotImplemented

    def truthy(self, ex, st, v):
        if isinstance(v, _NameSub):
            return z3.Or(list(v.bits)) if v.bits else False
        if isinstance(v, _ScopeRef):
            return v.idx <= self.K            # scope K (the module) is the last one: scope.parent of it is None
        if isinstance(v, _DeclNode):
            return True
        return NotImplemented

    def call(self, ex, st, f, args, kwargs, node):
        if not isinstance(f, _Bound):
            return NotImplemented
        if f.obj is None and f.attr == "set":
            if not args:
                return [Path(st, "normal", _NameSub([z3.BoolVal(False)] * self.k, "set"))]
            if isinstance(args[0], _ScopeSet):
                return [Path(st, "normal", args[0])]
            if isinstance(args[0], _NameSub):
                return [Path(st, "normal", _NameSub(args[0].bits, "set"))]
        if f.obj is None and f.attr == "list" and isinstance(args[0], _NameSub):
            # list(<a set>) has no defined order: only a list made from a list keeps the declaration order
            return [Path(st, "normal", _NameSub(args[0].bits, "list" if args[0].kind == "list" else "unordered"))]
        if f.obj is None and f.attr == "isinstance" and isinstance(args[0], _ScopeRef) and isinstance(args[1], _Bound):
            i = args[0].idx
            r = {"ScopeFn": z3.And(i < self.K, self.Kind(i) == 0), "ScopeLet": z3.And(i < self.K, self.Kind(i) == 1),
                 "ScopeGlobal": i == self.K}[args[1].attr]
            return [Path(st, "normal", r)]
        if f.attr == "keys" and isinstance(f.obj, _ScopeSet) and not args:
            return [Path(st, "normal", f.obj)]
        if f.attr == "intersection":
            other = args[0]
            return [Path(st, "normal", _NameSub([z3.And(self.mem(f.obj, j), self.mem(other, j)) for j in range(self.k)], "set"))]
        if f.attr == "update" and isinstance(node.func.value, ast.Name):
            cur = ex.load_name(st, node.func.value.id)
            ex.store_name(st, node.func.value.id, _NameSub([z3.Or(cur.bits[j], self.mem(args[0], j)) for j in range(self.k)], "set"))
            return [Path(st, "normal", NONE)]
        if f.attr == "issuperset":
            return [Path(st, "normal", z3.And([z3.Implies(self.mem(args[0], j), self.mem(f.obj, j)) for j in range(self.k)]))]
        if f.obj == "asty" and f.attr in ("Global", "Nonlocal"):
            return [Path(st, "normal", _DeclNode(f.attr, kwargs["names"]))]
        return NotImplemented

    def _setop(self, op, a, b):
        f = {ast.BitAnd: z3.And, ast.BitOr: z3.Or}.get(type(op))
        if f is None or not isinstance(a, (_NameSub, _ScopeSet)) or not isinstance(b, (_NameSub, _ScopeSet)):
            return NotImplemented
        return _NameSub([f(self.mem(a, j), self.mem(b, j)) for j in range(self.k)], "set")

    def binop(self, ex, st, op, a, b):
        return self._setop(op, a, b)

    def augassign(self, ex, st, node, a, b):
        r = self._setop(node.op, a, b)
        if r is not NotImplemented and isinstance(a, _ScopeSet):
            # `x &= y` on a set updates it in place: here the set is a scope's own `defined` / bindings
            st.ghost["scope_mutated"] = ast.unparse(node)
        return r

    def listcomp(self, ex, st, node):
        # [name for name in X if name (not) in Y]
        g = node.generators
        if len(g) == 1 and isinstance(node.elt, ast.Name) and isinstance(g[0].target, ast.Name) and node.elt.id == g[0].target.id \
                and len(g[0].ifs) == 1 and isinstance(g[0].ifs[0], ast.Compare) and len(g[0].ifs[0].ops) == 1 \
                and isinstance(g[0].ifs[0].left, ast.Name) and g[0].ifs[0].left.id == node.elt.id \
                and isinstance(g[0].ifs[0].ops[0], (ast.In, ast.NotIn)):
            (px,) = ex.ev(st, g[0].iter)
            (py,) = ex.ev(px.st, g[0].ifs[0].comparators[0])
            neg = isinstance(g[0].ifs[0].ops[0], ast.NotIn)
            x, y = px.val, py.val
            bits = [z3.And(x.bits[j], z3.Not(self.mem(y, j)) if neg else self.mem(y, j)) for j in range(self.k)]
            return [Path(py.st, "normal", _NameSub(bits, "list"))]
        return NotImplemented

    def loop_invariant(self, ex, st, node, ordinal):
        m = self

        def cur(st_):
            return (ex.load_name(st_, "scope").idx, ex.load_name(st_, "defined"), ex.load_name(st_, "undefined"))

        def inv(ex_, st_):
            i, d, u = cur(st_)
            # (the frame condition is part of the invariant: an iteration that modifies a scope does not preserve it)
            return z3.And([z3.BoolVal("scope_mutated" not in st_.ghost), i >= 0, i <= m.K, z3.Or(i == 0, i < m.K)]
                          + [d.bits[j] == m.Seen(i, j) for j in range(m.k)] + [u.bits[j] == z3.Not(m.Seen(i, j)) for j in range(m.k)])

        def havoc(ex_, st_):
            i = ex_.fresh(z3.IntSort(), "i")
            ex_.store_name(st_, "scope", _ScopeRef(i))
            ex_.store_name(st_, "defined", _NameSub([ex_.fresh(z3.BoolSort(), "d") for _ in range(m.k)], "set"))
            ex_.store_name(st_, "undefined", _NameSub([ex_.fresh(z3.BoolSort(), "u") for _ in range(m.k)], "list"))
            st_.ghost["loop_head"] = i
            st_.pc.append(m.seen_step(i))          # the instance of the ghost's definition this iteration needs
        return E.LoopInv("scope-chain invariant (defined = names bound by the scopes walked so far, undefined = the others, in order; no scope modified)", inv, havoc)


@target
def c07_visit_outervar(chk, prefix="visit_OuterVar", concrete=None):
    tree, fn = _src("hy/scoping.py", "ResolveOuterVars.visit_OuterVar")
    chk.fn("hy/scoping.py::ResolveOuterVars.visit_OuterVar")
    for k in (1, 2, 3):
        m = OuterVarModel(k)
        ex = Executor(tree, {}, m, "visit_OuterVar")
        st = State()
        st.pc += [m.K >= 0] + [z3.Not(m.Seen(0, j)) for j in range(k)]
        paths = run_fn(ex, st, fn, {"self": Obj("transformer"), "node": Obj("outervar")})
        tag = f"[{k} declared name{'s' if k > 1 else ''}]"
        n_ret = {"global": 0, "nonlocal": 0}
        for p in paths:
            if p.kind != "return":
                ex.oblige(f"never raises or falls off the end {tag}", p.st, z3.BoolVal(False))
                continue
            i = p.st.ghost.get("loop_head", z3.IntVal(0))
            items = p.val.items if isinstance(p.val, E.Lst) else None
            allnames = items is not None and len(items) == 1 and items[0].kind == "Nonlocal" and all(z3.is_true(z3.simplify(b)) for b in items[0].names.bits)
            if allnames:
                n_ret["nonlocal"] += 1
                idx = ex.load_name(p.st, "scope").idx
                u = ex.load_name(p.st, "undefined")
                # every name is bound by an enclosing function/let  |  the declaration is at module level (no parent)  |
                # the module scope was reached and a still unbound name is not a module-level variable (Python reports it)
                ex.oblige(f"a lone `nonlocal` with all names is emitted only when every name is bound by an enclosing function or let, "
                          f"or the error is left to Python {tag}", p.st,
                          z3.Or(z3.And([m.Seen(i, j) for j in range(k)]), m.K == 0,
                                z3.And(idx == m.K, z3.Or([z3.And(u.bits[j], z3.Not(m.In(m.K, j))) for j in range(k)]))))
                continue
            n_ret["global"] += 1
            ok_shape = items is not None and 1 <= len(items) <= 2 and items[0].kind == "Global" and (len(items) == 1 or items[1].kind == "Nonlocal")
            if not ok_shape:
                ex.oblige(f"result is [Global(...)] optionally followed by [Nonlocal(...)] {tag}", p.st, z3.BoolVal(False))
                continue
            g = items[0].names
            idx = ex.load_name(p.st, "scope").idx
            goal = [idx == m.K, i == m.K - 1, z3.BoolVal(all(it.names.kind == "list" for it in items))]
            goal += [g.bits[j] == z3.Not(m.Seen(m.K - 1, j)) for j in range(k)]                 # global <=> no enclosing function/let binds it
            goal += [z3.Implies(g.bits[j], m.In(m.K, j)) for j in range(k)]                     # ... and it is a module-level variable
            if len(items) == 2:
                nl = items[1].names
                goal += [nl.bits[j] == m.Seen(m.K - 1, j) for j in range(k)] + [z3.Or(list(nl.bits))]
            else:
                goal += [z3.Not(m.Seen(m.K - 1, j)) for j in range(k)]
            ex.oblige(f"`global` lists exactly the names no enclosing function or let binds (class bodies never count), all of them "
                      f"module-level variables; `nonlocal` lists exactly the others; both in declaration order {tag}", p.st, z3.And(goal))
        for p in paths:
            ex.oblige(f"frame: the scopes walked through are only read - no scope's `defined` set or bindings is modified {tag}", p.st,
                      z3.BoolVal("scope_mutated" not in p.st.ghost))
        ex.oblige(f"vacuity: both result shapes are reachable {tag}", st, z3.BoolVal(n_ret["global"] >= 1 and n_ret["nonlocal"] >= 2))
        discharge(chk, prefix, ex, extra_models=concrete)
        chk.extra[f"visit_OuterVar_paths_k{k}"] = len(paths)
