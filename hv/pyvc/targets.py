"""pyvc targets: sidecar contracts for individual functions of /repo and the glue that sets up their symbolic state."""
import ast

import z3

from hv.core import REPO
from hv.pyvc import engine as E
from hv.pyvc.engine import (NONE, ExcVal, Executor, Model, Obj, Path, PyConst, State, Tup, Unsupported, discharge,
                            load_function)

IntSet = z3.SetSort(z3.IntSort())


def _src(path, qual):
    tree, fn = load_function(path, qual, REPO)
    return tree, fn


def run_fn(ex, st, fn, args):
    """Run function node `fn` with parameter values `args` (dict) from state `st`; returns paths."""
    frame = E.Frame(None)
    frame.vars.update(args)
    st.frame = frame
    body = [s for s in fn.body if not (isinstance(s, ast.Expr) and isinstance(s.value, ast.Constant))]
    return ex.run_block(st, body)


# ===============================================================================================================
# K1  HyASTCompiler.get_anon_var
# ===============================================================================================================
def k1(chk, prefix="K1/get_anon_var"):
    tree, fn = _src("hy/compiler.py", "HyASTCompiler.get_anon_var")
    chk.fn("hy/compiler.py::HyASTCompiler.get_anon_var")
    ex = Executor(tree, {}, Model(), "get_anon_var")
    st = State()
    self_ = Obj("compiler")
    c0 = z3.Int("count0")
    base, name = z3.String("base"), z3.String("name")
    st.fields[(self_.oid, "anon_var_count")] = c0
    st.pc.append(c0 >= 0)
    paths = run_fn(ex, st, fn, {"self": self_, "base": base, "name": name})
    n = 0
    for p in paths:
        n += 1
        if p.kind != "return":
            ex.oblige(f"never raises (path {n})", p.st, z3.BoolVal(False))
            continue
        r = p.val
        suffix = z3.If(z3.Length(name) == 0, z3.StringVal(""), z3.Concat(z3.StringVal("_"), name))
        want = z3.Concat(z3.StringVal("_hy_"), base, suffix, z3.StringVal("_"), z3.IntToStr(c0 + 1))
        ex.oblige(f'result == "_hy_" + base + ("_" + name if name else "") + "_" + str(old(count) + 1) (path {n})', p.st, r == want)
        ex.oblige(f'result starts with the reserved prefix "_hy_" (path {n})', p.st, z3.PrefixOf(z3.StringVal("_hy_"), r))
        ex.oblige(f"count == old(count) + 1 (path {n})", p.st, p.st.fields[(self_.oid, "anon_var_count")] == c0 + 1)
    ex.oblige("vacuity: the function has at least one returning path", st, z3.BoolVal(any(p.kind == "return" for p in paths)))
    discharge(chk, prefix, ex)
    # injectivity lemma over the contract: names issued with different counters differ (the decimal suffix after the last
    # underscore is the counter).  Stated over the postcondition, not over the code.
    x, y = z3.String("x"), z3.String("y")
    c, d = z3.Int("c"), z3.Int("d")
    lem = Executor(tree, {}, Model(), "lemma")
    s2 = State()
    s2.pc += [c >= 1, d >= 1, c != d]
    lem.oblige("lemma: prefix1 + '_' + str(c) != prefix2 + '_' + str(d) for counters c != d", s2,
               z3.Concat(x, z3.StringVal("_"), z3.IntToStr(c)) != z3.Concat(y, z3.StringVal("_"), z3.IntToStr(d)))
    if chk.tier == "thorough":
        status, info = E.prove(s2.pc, lem.obligations[0][2], timeout_ms=30000)
    else:
        status, info = "unknown", "not attempted in the quick tier (z3 and cvc5 both time out on it; see thorough tier)"
    if status == "proved":
        chk.ob(prefix + "/lemma: names with different counters differ (decimal suffix after the last underscore)", True, info, "proved")
    else:
        # the string/integer-conversion lemma is beyond both solvers: fall back to the bounded stand-in, labelled as such
        import itertools
        bad = None
        for (p1, c1), (p2, c2) in itertools.combinations([(p, k) for p in ("", "a", "a_1", "_hy_anon", "x_", "1") for k in range(1, 130)], 2):
            if c1 != c2 and f"{p1}_{c1}" == f"{p2}_{c2}":
                bad = (p1, c1, p2, c2)
                break
        chk.ob(prefix + "/lemma: names with different counters differ (decimal suffix after the last underscore)", bad is None,
               "ex", "bounded", detail=f"SMT: {info}; enumerated 6 prefixes x counters 1..129: {bad}")
        chk.trust("K1 injectivity lemma only checked on a bounded grid (str.from_int reasoning undecided by z3 and cvc5)")
    # canary: the claim `count unchanged` must be refuted
    can = Executor(tree, {}, Model(), "canary")
    for p in paths:
        if p.kind == "return":
            can.oblige("canary", p.st, p.st.fields[(self_.oid, "anon_var_count")] == c0)
    chk.canary("K1: `anon_var_count is unchanged` is refuted", E.prove(*can.obligations[0][1:])[0] == "refuted")


# ===============================================================================================================
# C28  hy_repr: _seen / _quoting restored on every exit
# ===============================================================================================================
class HyReprModel(Model):
    def __init__(self):
        self.Val = z3.DeclareSort("Val")
        self.idof = z3.Function("id", self.Val, z3.IntSort())
        self.is_model = z3.Function("is_model", self.Val, z3.BoolSort())
        self.is_kw = z3.Function("is_keyword", self.Val, z3.BoolSort())
        self.eligible = z3.Function("eligible", z3.IntSort(), z3.BoolSort())
        self.printer_calls = 0

    def inv(self, seen, quoting):
        x = z3.Int("x!inv")
        return z3.ForAll([x], z3.Implies(z3.And(z3.IsMember(x, seen), self.eligible(x)), quoting))

    def call(self, ex, st, f, args, kwargs, node):
        src = ast.unparse(node.func)
        if src == "_registry.get":
            return [Path(st, "normal", Tup([Obj("printer"), ex.fresh(z3.StringSort(), "placeholder")])),
                    Path(st.fork(), "normal", Tup([Obj("printer"), NONE]))]
        if src == "type":
            return [Path(st, "normal", Obj("type"))]
        if src == "isinstance":
            cls = ast.unparse(node.args[1])
            pred = {"hy.models.Object": self.is_model, "hy.models.Keyword": self.is_kw}.get(cls)
            if pred is None:
                raise Unsupported(f"isinstance {cls}")
            return [Path(st, "normal", pred(args[0]))]
        if src == "id":
            return [Path(st, "normal", self.idof(args[0]))]
        if src == "_seen.add":
            st.globals["_seen"] = z3.SetAdd(st.globals["_seen"], args[0])
            return [Path(st, "normal", NONE)]
        if src == "_seen.discard":
            st.globals["_seen"] = z3.SetDel(st.globals["_seen"], args[0])
            return [Path(st, "normal", NONE)]
        if isinstance(f, Obj) and f.kind == "printer":
            # callee contract of a registered printer (it reaches the state only through hy_repr itself):
            #   requires  Inv(_seen, _quoting)
            #   ensures   _seen, _quoting unchanged     raises: anything, with _seen, _quoting unchanged
            self.printer_calls += 1
            ex.oblige(f"callee-requires: invariant holds when the registered printer is called (call {self.printer_calls})", st,
                      self.inv(st.globals["_seen"], st.globals["_quoting"]))
            ok = st
            bad = st.fork()
            return [Path(ok, "normal", ex.fresh(z3.StringSort(), "text")),
                    Path(bad, "raise", ExcVal("AnyException", tag="printer"))]
        return NotImplemented

    def getattr(self, ex, st, obj, name, node):
        src = ast.unparse(node)
        if src in ("_registry.get", "_seen.add", "_seen.discard", "hy.models", "hy.models.Object", "hy.models.Keyword"):
            return Obj("attr:" + src)
        return NotImplemented

    def name(self, ex, st, n):
        if n in ("_registry", "hy", "_base_repr", "isinstance", "id", "type"):
            return Obj("name:" + n)
        return NotImplemented

    def compare(self, ex, st, op, a, b):
        if isinstance(op, ast.In) and z3.is_expr(b) and b.sort() == IntSet:
            return z3.IsMember(a, b)
        return NotImplemented


def c28(chk, prefix="hy_repr"):
    tree, fn = _src("hy/core/hy_repr.hy", "hy_repr")
    chk.fn("hy/core/hy_repr.hy::hy-repr (as compiled by hy_compile)")
    m = HyReprModel()
    ex = Executor(tree, {}, m, "hy_repr")
    st = State()
    seen0, quoting0 = z3.Const("_seen0", IntSet), z3.Bool("_quoting0")
    obj = z3.Const("obj", m.Val)
    st.globals.update({"_seen": seen0, "_quoting": quoting0})
    # requires: the invariant (an eligible, i.e. non-keyword model, object in _seen implies _quoting);
    # ghost definition of `eligible` for the object at hand
    st.pc += [m.inv(seen0, quoting0), m.eligible(m.idof(obj)) == z3.And(m.is_model(obj), z3.Not(m.is_kw(obj)))]
    paths = run_fn(ex, st, fn, {"obj": obj})
    kinds = {}
    for i, p in enumerate(paths):
        k = {"return": "return", "raise": "exception"}.get(p.kind, p.kind)
        kinds[k] = kinds.get(k, 0) + 1
        tag = f"{k} path {kinds[k]}"
        ex.oblige(f"_seen restored ({tag})", p.st, p.st.globals["_seen"] == seen0)
        ex.oblige(f"_quoting restored ({tag})", p.st, p.st.globals["_quoting"] == quoting0)
    ex.oblige("vacuity: normal, early-return and exceptional exits are all reached", st,
              z3.BoolVal(kinds.get("return", 0) >= 2 and kinds.get("exception", 0) >= 1 and m.printer_calls >= 1))
    n = discharge(chk, prefix, ex)
    chk.extra["hy_repr_paths"] = len(paths)
    # canary: without the invariant as precondition the early return leaks _quoting
    m2 = HyReprModel()
    ex2 = Executor(tree, {}, m2, "hy_repr")
    st2 = State()
    st2.globals.update({"_seen": seen0, "_quoting": quoting0})
    st2.pc += [m2.eligible(m2.idof(obj)) == z3.And(m2.is_model(obj), z3.Not(m2.is_kw(obj)))]
    refuted = False
    for p in run_fn(ex2, st2, fn, {"obj": z3.Const("obj", m2.Val)}):
        if E.prove(p.st.pc, p.st.globals["_quoting"] == quoting0)[0] == "refuted":
            refuted = True
    chk.canary("C28: dropping the invariant from `requires` makes the early-return clause fail", refuted)
    return n


# ===============================================================================================================
# C38  gensym: monitor discipline on _gensym_counter
# ===============================================================================================================
class GensymModel(Model):
    """Ghost: `held` (lock held by this thread), event log of counter accesses with the value of `held`."""

    def call(self, ex, st, f, args, kwargs, node):
        src = ast.unparse(node.func)
        if src == "_gensym_lock.acquire":
            # Lock contract (axiom): returns with the lock held; the counter may have been changed by other threads
            # before we got the lock (havoc), but not while we hold it.
            st.ghost["held"] = True
            st.globals["_gensym_counter"] = ex.fresh(z3.IntSort(), "counter_at_acquire")
            st.ghost["at_acquire"] = st.globals["_gensym_counter"]
            st.log.append(("acquire",))
            return [Path(st, "normal", NONE)]
        if src == "_gensym_lock.release":
            st.log.append(("release", st.globals["_gensym_counter"]))
            st.ghost["held"] = False
            return [Path(st, "normal", NONE)]
        if src in ("hy.mangle", "'_hy_gensym_{}_{}'.format", "hy.models.Symbol", "g.startswith", "len"):
            return [Path(st, "normal", Obj("opaque:" + src))]
        return NotImplemented

    def getattr(self, ex, st, obj, name, node):
        src = ast.unparse(node)
        if src.startswith(("_gensym_lock.", "hy.", "g.")) or src.endswith(".format"):
            return Obj("attr:" + src)
        return NotImplemented

    def name(self, ex, st, n):
        if n == "_gensym_counter":
            st.log.append(("read" if True else "", st.ghost.get("held", False)))
        if n in ("_gensym_lock", "hy", "len"):
            return Obj("name:" + n)
        return NotImplemented

    def truthy(self, ex, st, v):
        if isinstance(v, Obj) and v.kind.startswith("opaque:g.startswith"):
            return ex.fresh(z3.BoolSort(), "startswith")
        return NotImplemented

    def subscript(self, ex, st, obj, idx, node):
        return Obj("opaque:slice")


def c38(chk, prefix="gensym"):
    tree, fn = _src("hy/core/util.hy", "gensym")
    chk.fn("hy/core/util.hy::gensym (as compiled by hy_compile)")
    m = GensymModel()
    ex = Executor(tree, {}, m, "gensym")
    # make stores to the counter observable: wrap store_name
    real_store = ex.store_name

    def store(st, n, v):
        if n == "_gensym_counter":
            st.log.append(("write", st.ghost.get("held", False)))
        return real_store(st, n, v)
    ex.store_name = store
    st = State()
    st.globals["_gensym_counter"] = z3.Int("counter0")
    st.ghost["held"] = False
    g = z3.String("g")

    class Slice(ast.NodeTransformer):
        pass
    try:
        paths = run_fn(ex, st, fn, {"g": g})
    except Unsupported as e:
        # the string post-processing after the critical section is outside the subset; verify the critical section alone
        paths = None
        why = str(e)
    if paths is None:
        crit = [s for s in fn.body if isinstance(s, (ast.Expr, ast.Try)) and not (isinstance(s, ast.Expr) and isinstance(s.value, ast.Constant))][:2]
        st = State()
        st.globals["_gensym_counter"] = z3.Int("counter0")
        st.ghost["held"] = False
        st.frame.vars["g"] = g
        paths = ex.run_block(st, crit)
        chk.notes.append("gensym: statements after the critical section are outside pyvc's subset (" + why + "); the monitor "
                         "discipline is verified on the critical section, the string part by the run-time contract")
    k = 0
    for p in paths:
        k += 1
        acc = [e for e in p.st.log if e[0] in ("read", "write")]
        ex.oblige(f"every read/write of _gensym_counter happens while the lock is held (path {k})", p.st,
                  z3.BoolVal(all(e[1] is True for e in acc) and len(acc) >= 2))
        ex.oblige(f"the lock is released on every exit (path {k})", p.st, z3.BoolVal(p.st.ghost["held"] is False and
                                                                                    any(e[0] == "release" for e in p.st.log)))
        if p.kind in ("normal", "return"):
            n_ = p.st.frame.vars.get("n")
            fr = p.st.frame
            while n_ is None and fr is not None:
                n_ = fr.vars.get("n")
                fr = fr.parent
            ex.oblige(f"n == counter at acquire + 1 == counter at release (path {k})", p.st,
                      z3.And(n_ == p.st.ghost["at_acquire"] + 1, [e for e in p.st.log if e[0] == "release"][-1][1] == n_))
    ex.oblige("vacuity: a path through the critical section exists", st, z3.BoolVal(len(paths) >= 1))
    discharge(chk, prefix, ex)
    chk.trust("threading.Lock gives mutual exclusion; _gensym_counter is reached only through gensym (syntactic frame check below)")
    # frame: the counter is referenced nowhere else in hy/
    import glob
    import os
    sites = []
    for p in glob.glob(os.path.join(REPO, "hy", "**", "*.*"), recursive=True):
        if p.endswith((".py", ".hy")) and ("_gensym_counter" in open(p).read() or "_gensym-counter" in open(p).read()):
            sites.append(os.path.relpath(p, REPO))
    chk.ob(prefix + "/frame: _gensym_counter is referenced only in hy/core/util.hy", sites == ["hy/core/util.hy"], "structural", "proved",
           detail=str(sites))
    # serialisation argument (stated as a lemma over the contract): critical sections are serialised by the lock, each
    # maps counter c -> c+1 and returns c+1, so the returned numbers of any schedule are pairwise distinct
    c, d = z3.Int("c"), z3.Int("d")
    status, info = E.prove([d >= c + 1], c + 1 != d + 1)
    chk.ob(prefix + "/lemma: two serialised critical sections return different numbers (strictly increasing counter)", status == "proved",
           info if status == "proved" else "z3", "proved")


# ===============================================================================================================
# C21  Reader.getc: position arithmetic
# ===============================================================================================================
class GetcModel(Model):
    def __init__(self):
        self.isspace = z3.Function("isnormalizedspace", z3.StringSort(), z3.BoolSort())
        self.saving = z3.Bool("saving_chars")

    def call(self, ex, st, f, args, kwargs, node):
        src = ast.unparse(node.func)
        if src == "self.peekc":
            # contract of peekc: returns the next character (a string of length <= 1, "" at end of input) and leaves it
            # as the last element of _peek_chars
            st.ghost["peeked"] = True
            return [Path(st, "normal", st.ghost["next_char"])]
        if src == "self._peek_chars.pop":
            ex.oblige("callee-requires: _peek_chars is non-empty when popped (peekc was called first)", st, z3.BoolVal(st.ghost.get("peeked") is True))
            st.ghost["consumed"] = True
            return [Path(st, "normal", st.ghost["next_char"])]
        if src == "isnormalizedspace":
            return [Path(st, "normal", self.isspace(args[0]))]
        if src == "self._saved_chars[-1].append":
            st.ghost["saved"] = z3.Concat(st.ghost["saved"], args[0])
            return [Path(st, "normal", NONE)]
        return NotImplemented

    def getattr(self, ex, st, obj, name, node):
        src = ast.unparse(node)
        if src in ("self.peekc", "self._peek_chars", "self._peek_chars.pop", "self._saved_chars[-1].append"):
            return Obj("attr:" + src)
        if src == "self._saved_chars":
            return Obj("saved_chars")
        return NotImplemented

    def truthy(self, ex, st, v):
        if isinstance(v, Obj) and v.kind == "saved_chars":
            return self.saving
        return NotImplemented

    def subscript(self, ex, st, obj, idx, node):
        if isinstance(obj, Obj) and obj.kind == "saved_chars":
            return Obj("saved_chars[-1]")
        return NotImplemented

    def name(self, ex, st, n):
        if n == "isnormalizedspace":
            return Obj("name:isnormalizedspace")
        return NotImplemented


def c21_getc(chk, prefix="getc"):
    tree, fn = _src("hy/reader/reader.py", "Reader.getc")
    chk.fn("hy/reader/reader.py::Reader.getc")
    m = GetcModel()
    ex = Executor(tree, {}, m, "getc")
    st = State()
    self_ = Obj("reader")
    line, col, el, ec = z3.Ints("line col eof_line eof_col")
    c = z3.String("c")
    saved0 = z3.String("saved0")
    st.fields[(self_.oid, "_pos")] = Tup([line, col])
    st.fields[(self_.oid, "_eof_tracker")] = Tup([el, ec])
    st.ghost.update({"next_char": c, "saved": saved0})
    st.pc += [z3.Length(c) <= 1, line >= 1, col >= 0]
    paths = run_fn(ex, st, fn, {"self": self_})
    nl = z3.StringVal("\n")
    k = 0
    for p in paths:
        k += 1
        if p.kind != "return":
            ex.oblige(f"never raises (path {k})", p.st, z3.BoolVal(False))
            continue
        pos = p.st.fields[(self_.oid, "_pos")]
        eof = p.st.fields[(self_.oid, "_eof_tracker")]
        l2, c2 = pos.items
        e2l, e2c = eof.items
        empty = z3.Length(c) == 0
        ex.oblige(f"returns the character obtained from peekc and consumes it (path {k})", p.st,
                  z3.And(p.val == c, z3.BoolVal(p.st.ghost.get("consumed") is True)))
        ex.oblige(f"end of input leaves _pos and _eof_tracker unchanged (path {k})", p.st,
                  z3.Implies(empty, z3.And(l2 == line, c2 == col, e2l == el, e2c == ec)))
        ex.oblige(f"a newline moves to (line + 1, 0) (path {k})", p.st, z3.Implies(c == nl, z3.And(l2 == line + 1, c2 == 0)))
        ex.oblige(f"any other character moves to (line, col + 1) (path {k})", p.st,
                  z3.Implies(z3.And(z3.Not(empty), c != nl), z3.And(l2 == line, c2 == col + 1)))
        ex.oblige(f"_eof_tracker becomes the new position after a non-space character, else is unchanged (path {k})", p.st,
                  z3.And(z3.Implies(z3.And(z3.Not(empty), z3.Not(m.isspace(c))), z3.And(e2l == l2, e2c == c2)),
                         z3.Implies(z3.Or(empty, m.isspace(c)), z3.And(e2l == el, e2c == ec))))
        ex.oblige(f"while characters are being saved the returned character is appended to the innermost save list (path {k})", p.st,
                  z3.And(z3.Implies(m.saving, p.st.ghost["saved"] == z3.Concat(saved0, c)),
                         z3.Implies(z3.Not(m.saving), p.st.ghost["saved"] == saved0)))
    ex.oblige("vacuity: at least three returning paths (end of input, newline, other)", st,
              z3.BoolVal(sum(1 for p in paths if p.kind == "return") >= 3))
    discharge(chk, prefix, ex)
    can = [p for p in paths if p.kind == "return"]
    refuted = any(E.prove(p.st.pc, p.st.fields[(self_.oid, "_pos")].items[1] == col + 1)[0] == "refuted" for p in can)
    chk.canary("C21: `col always increases by one` is refuted (newline resets it)", refuted)


# ===============================================================================================================
# C29  as_model / recwrap.lambda_to_return / _dict_wrapper: _seen restored, self-reference detected
# ===============================================================================================================
class AsModelModel(Model):
    def __init__(self, which):
        self.which = which
        self.Val = z3.DeclareSort("PyVal")
        self.idof = z3.Function("id", self.Val, z3.IntSort())
        self.is_object = z3.Function("is_hy_object", self.Val, z3.BoolSort())
        self.calls = 0

    def name(self, ex, st, n):
        if n in ("id", "type", "isinstance", "Object", "_wrappers", "HyWrapperError", "Dict", "sum", "f", "as_model"):
            return Obj("name:" + n)
        return NotImplemented

    def getattr(self, ex, st, obj, name, node):
        src = ast.unparse(node)
        if src in ("_wrappers.get", "_seen.add", "_seen.remove", "new.replace", "d.items", "'Self-referential structure detected in {!r}'.format",
                   "\"Don't know how to wrap {!r}: {!r}\".format"):
            return Obj("attr:" + src)
        return NotImplemented

    def compare(self, ex, st, op, a, b):
        if isinstance(op, ast.In) and z3.is_expr(b) and b.sort() == IntSet:
            return z3.IsMember(a, b)
        return NotImplemented

    def recursive(self, ex, st, what):
        """Callee contract of as_model applied (possibly many times) to the elements: _seen is restored on every exit; it may
        raise HyWrapperError (self-reference below) or return."""
        self.calls += 1
        ok, bad = st, st.fork()
        return [Path(ok, "normal", Obj("models")), Path(bad, "raise", ExcVal("HyWrapperError", tag=what))]

    def call(self, ex, st, f, args, kwargs, node):
        src = ast.unparse(node.func)
        if src == "id":
            return [Path(st, "normal", self.idof(args[0]))]
        if src == "type":
            return [Path(st, "normal", Obj("type"))]
        if src == "isinstance":
            return [Path(st, "normal", self.is_object(args[0]) if not isinstance(args[0], Obj) else ex.fresh(z3.BoolSort(), "isobj"))]
        if src == "_seen.add":
            st.globals["_seen"] = z3.SetAdd(st.globals["_seen"], args[0])
            return [Path(st, "normal", NONE)]
        if src == "_seen.remove":
            ex.oblige(f"set.remove cannot raise KeyError: the id is still in _seen ({st.ghost.get('where', '')})", st,
                      z3.IsMember(args[0], st.globals["_seen"]))
            st.globals["_seen"] = z3.SetDel(st.globals["_seen"], args[0])
            return [Path(st, "normal", NONE)]
        if src == "_wrappers.get":
            return [Path(st, "normal", Obj("wrapper"))]
        if isinstance(f, Obj) and f.kind == "wrapper":
            # contract of a registered wrapper (recwrap(...) / _dict_wrapper / a constructor): preserves _seen on every exit
            return self.recursive(ex, st, "wrapper")
        if src in ("f", "Dict"):
            st.ghost["where"] = "during the construction"
            return self.recursive(ex, st, src)
        if src == "new.replace":
            return [Path(st, "normal", Obj("models"))]
        if src.endswith(".format"):
            return [Path(st, "normal", ex.fresh(z3.StringSort(), "msg"))]
        if src == "HyWrapperError":
            return [Path(st, "normal", ExcVal("HyWrapperError", tag="explicit"))]
        if src in ("sum", "d.items"):
            return [Path(st, "normal", Obj("items"))]
        return NotImplemented


def _genexp_patch(ex):
    """`(as_model(x) for x in l)` is passed to the constructor, which drives it: abstracted as an opaque generator whose
    consumption is covered by the callee contract of the constructor call."""
    ex.ev_GeneratorExp = lambda st, e: [Path(st, "normal", Obj("genexp"))]
    ex.ev_Lambda = lambda st, e: [Path(st, "normal", Obj("identity-lambda"))]


def c29(chk, prefix="as_model"):
    # --- as_model
    tree, fn = _src("hy/models.py", "as_model")
    chk.fn("hy/models.py::as_model", "hy/models.py::recwrap.lambda_to_return", "hy/models.py::_dict_wrapper")
    m = AsModelModel("as_model")
    ex = Executor(tree, {}, m, "as_model")
    _genexp_patch(ex)
    st = State()
    seen0 = z3.Const("_seen0", IntSet)
    x = z3.Const("x", m.Val)
    st.globals["_seen"] = seen0
    paths = run_fn(ex, st, fn, {"x": x})
    k = 0
    for p in paths:
        k += 1
        tag = f"{p.kind} path {k}"
        ex.oblige(f"as_model: _seen restored ({tag})", p.st, p.st.globals["_seen"] == seen0)
        if p.kind == "raise":
            ex.oblige(f"as_model: only HyWrapperError is raised ({tag})", p.st, z3.BoolVal(isinstance(p.val, ExcVal) and p.val.cls == "HyWrapperError"))
        if p.kind == "return":
            ex.oblige(f"as_model: returns only when x is not being wrapped higher up ({tag})", p.st, z3.Not(z3.IsMember(m.idof(x), seen0)))
    inside = [p for p in paths if p.kind == "raise" and isinstance(p.val, ExcVal) and p.val.tag == "explicit"]
    ex.oblige("as_model: a self-reference (id(x) in _seen) raises HyWrapperError before anything else happens", st,
              z3.BoolVal(any(E.prove(p.st.pc, z3.IsMember(m.idof(x), seen0))[0] == "proved" for p in inside)))
    discharge(chk, prefix, ex)
    # --- recwrap's inner function and _dict_wrapper
    for qual, arg in (("recwrap.lambda_to_return", "l"), ("_dict_wrapper", "d")):
        tree, fn2 = _src("hy/models.py", qual)
        m2 = AsModelModel(qual)
        ex2 = Executor(tree, {}, m2, qual)
        _genexp_patch(ex2)
        st2 = State()
        st2.globals["_seen"] = seen0
        v = z3.Const(arg, m2.Val)
        # requires: the object is not already being wrapped (as_model, the only caller, has just checked it)
        st2.pc.append(z3.Not(z3.IsMember(m2.idof(v), seen0)))
        ps = run_fn(ex2, st2, fn2, {arg: v})
        kk = 0
        for p in ps:
            kk += 1
            ex2.oblige(f"{qual}: _seen restored ({p.kind} path {kk})", p.st, p.st.globals["_seen"] == seen0)
        ex2.oblige(f"{qual}: vacuity: a returning and a raising path exist", st2,
                   z3.BoolVal(any(p.kind == "return" for p in ps) and any(p.kind == "raise" for p in ps)))
        discharge(chk, prefix, ex2)
    chk.trust("callee contract of the wrappers/constructors: they reach _seen only through as_model (induction on nesting depth)")
    # canary
    refuted = False
    for p in paths:
        if p.kind == "return" and E.prove(p.st.pc, z3.IsMember(m.idof(x), seen0))[0] == "refuted":
            refuted = True
    chk.canary("C29: `as_model returns only for objects already in _seen` is refuted", refuted)
