from hv.pyvc import targets


def add(chk):
    targets.k1(chk)
