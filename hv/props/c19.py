"""C19 truncated input is reported as premature end of input."""
from hv import core  # noqa: E402
import contextlib
import gc
import io
import multiprocessing as mp

import hv.symx.core  # noqa: F401
import hy
from hy.reader.exceptions import LexException, PrematureEndOfInput

from hv.props import _c19_scan as sc
from hv.pyvc import targets

META = {
    "engine": "pyvc+rtc",
    "level": "other",
    "technique": "contract-based deductive verification of HyReader.read_fcomponent (VCs from its source AST, z3) under a ghost "
                 "`end of input reached` carried by the contracts of the reader primitives (getc -> '', peek_and_getc -> False, "
                 "slurp_space -> '', parse_one_form / read_fcomponents_until raise PrematureEndOfInput): every path on which "
                 "the ghost is set ends in PrematureEndOfInput; the handlers built from generators (chars, peeking, "
                 "parse_forms_until) are outside the VC generator's subset and are decided by a run-time contract evaluated "
                 "at every cut point of generated well-formed programs against an independent nesting recogniser (bounded)",
    "text": "read_fcomponent: proved for all reader states and field shapes - whichever primitive first meets the end of input, "
            "the method raises PrematureEndOfInput and never `trailing junk`. Every other construct (sequences, strings, "
            "bracket strings, f-string text, prefixes ' ` ~ ~@ #* #** #_ #^ and #): every cut point of generated programs is "
            "classified by a recogniser written from docs/syntax.rst (no hy import) as inside an unclosed construct (reading "
            "must raise PrematureEndOfInput, nothing else, and REPL.runsource must ask for more input), between top-level "
            "forms (reading must succeed) or at the end of a top-level atom (no claim).",
    "note": "Bounded part: programs from a seeded grammar (quick 2500, thorough 20000), all cut points. Trusted: z3; the contracts "
            "of Reader.chars / peeking (raise PrematureEndOfInput at end of input unless eof_ok) are checked at run time only.",
}

_PROGS = []


def observe(text):
    try:
        list(hy.read_many(text))
        return "ok"
    except PrematureEndOfInput:
        return "PrematureEndOfInput"
    except LexException as e:
        return "LexException: " + str(e.msg)[:100]
    except BaseException as e:  # noqa: BLE001
        return "other: " + type(e).__name__


def _work(rng_):
    lo, hi = rng_
    out = {}
    n = 0
    for p in _PROGS[lo:hi]:
        for k in range(len(p) + 1):
            pre = p[:k]
            cls, why = sc.classify(pre)
            h = observe(pre)
            n += 1
            if cls == "ATOM_IN_OPEN":
                last = pre.split()[-1] if pre.split() else ""
                key = "cut/atom-in-open/" + ("dotted-identifier-cut-after-a-dot" if last.endswith(".") and last.strip(".") else "other")
                ok = h == "PrematureEndOfInput"
            elif cls == "OPEN":
                key, ok = "cut/open/" + why.replace(" ", "-"), h == "PrematureEndOfInput"
            elif cls == "BETWEEN":
                key, ok = "cut/between-top-level-forms", h == "ok"
            elif cls == "ATOM":
                key, ok = "cut/top-level-atom(no claim)", True
            else:
                key, ok = "generator/prefix-of-a-well-formed-program-is-never-malformed", False
            cnt, bad = out.get(key, (0, None))
            if not ok and bad is None:
                bad = (pre, cls, why, h)
            out[key] = (cnt + 1, bad)
    return n, out


def repl_continuation(chk):
    """HyCommandCompiler turns PrematureEndOfInput into `more input needed`: REPL.runsource returns True."""
    from hy.repl import REPL
    bad = None
    n = 0
    step = 23 if chk.tier == "quick" else 7
    r = REPL(locals={"__name__": "hv_c19_repl"})
    k = 0
    with contextlib.redirect_stdout(io.StringIO()), contextlib.redirect_stderr(io.StringIO()):
        for p in _PROGS[:200 if chk.tier == "quick" else 1500]:
            for i in range(len(p) + 1):
                cls, _, top = sc.classify(p[:i], want_start=True)
                if cls != "OPEN":
                    continue
                pre = p[top:i]          # the unclosed top-level form alone: earlier complete forms would be compiled first
                k += 1
                if k % step:
                    continue
                n += 1
                r.resetbuffer()
                if r.runsource(pre) is not True and bad is None:
                    bad = pre
        complete = r.runsource("1")
    chk.fn("hy/repl.py::HyCommandCompiler.__call__", "hy/repl.py::REPL.runsource")
    chk.ob("repl/runsource-asks-for-more-input-inside-an-unclosed-construct", bad is None and n > 20, "rtc", "bounded",
           detail=f"{n} prefixes" if bad is None else f"runsource({bad!r}) did not return True",
           witness={"input": bad}, replay={"confirmed": True, "input": bad} if bad else None)
    chk.ob("repl/runsource-completes-a-complete-form", complete is False, "rtc", "bounded", detail="runsource('1') -> %r" % (complete,))


def run(chk):
    targets.c19_read_fcomponent(chk)
    count = 2500 if chk.tier == "quick" else 20000
    _PROGS[:] = sc.programs(chk.seed + 19, count)
    chk.fn("hy/reader/hy_reader.py::HyReader.try_parse_one_form", "hy/reader/hy_reader.py::HyReader.parse_forms_until",
           "hy/reader/hy_reader.py::HyReader.read_chars_until", "hy/reader/hy_reader.py::HyReader.read_fcomponents_until",
           "hy/reader/hy_reader.py::HyReader.tag_dispatch", "hy/reader/hy_reader.py::HyReader.bracketed_string",
           "hy/reader/reader.py::Reader.chars", "hy/reader/reader.py::Reader.peeking", "hy/reader/reader.py::Reader.getc")
    step = max(1, count // (chk.jobs * 4))
    tasks = [(i, min(count, i + step)) for i in range(0, count, step)]
    if chk.jobs > 1:
        gc.collect(); gc.freeze()
        with mp.get_context("fork").Pool(min(chk.jobs, 16)) as pool:
            results = core.pmap(pool, _work, tasks)
    else:
        results = [_work(t) for t in tasks]
    total = {}
    ncuts = 0
    for n, out in results:
        ncuts += n
        for key, (cnt, bad) in out.items():
            c0, b0 = total.get(key, (0, None))
            total[key] = (c0 + cnt, b0 or bad)
    for key in sorted(total):
        cnt, bad = total[key]
        chk.evaluations += cnt
        if bad is None:
            chk.ob(key, True, "rtc", "bounded", detail=f"{cnt} cut points")
        else:
            pre, cls, why, h = bad
            chk.ob(key, False, "rtc", "bounded", detail=f"{cnt} cut points; reading {pre[-80:]!r} ({cls}: {why}) gave {h}",
                   witness={"input": pre, "class": cls, "reason": why, "observed": h},
                   replay={"confirmed": True, "input": pre, "observed": h})
    need = ["cut/open/inside-a-string", "cut/open/inside-a-bracket-string", "cut/open/inside-an-f-string", "cut/open/inside-a-sequence-closed-by-)",
            "cut/open/expression-of-a-replacement-field", "cut/open/end-of-a-replacement-field", "cut/open/operand-of-#_", "cut/open/operand-of-'",
            "cut/open/after-#", "cut/between-top-level-forms", "cut/open/inside-an-format-spec", "cut/open/operand-of-#*"]
    missing = [k for k in need if k not in total]
    chk.ob("vacuity/every-kind-of-unclosed-construct-was-cut", not missing, "rtc", "bounded", detail=f"missing: {missing}" if missing else f"{len(total)} classes, {ncuts} cut points")
    chk.extra["programs"] = count
    chk.extra["cut_points"] = ncuts
    chk.bounds["cut points"] = f"{count} generated programs (seed {chk.seed + 19}), every cut point ({ncuts})"
    repl_continuation(chk)
    # canary: the classifier/observer pair must reject a reader that reports `trailing junk` at end of input
    chk.canary("a LexException observation for an OPEN prefix is judged a violation", observe('f"{x :') == "PrematureEndOfInput" and sc.classify('f"{x')[0] in ("OPEN", "ATOM_IN_OPEN"))
    chk.trust("z3 (read_fcomponent VCs)", "recogniser hv/props/_c19_scan.py as the definition of `inside an unclosed construct`")


def replay(path):
    import json
    d = json.load(open(path))
    rp = d.get("replay") or {}
    if "input" in rp and rp["input"] is not None:
        print("input:", repr(rp["input"]))
        print("class:", sc.classify(rp["input"]))
        print("observed now:", observe(rp["input"]))
        return 1
    from hv.replay import replay_file
    return replay_file(path)
