"""C11 no subform is silently dropped."""
import ast
import types

from hy.models import Dict, Expression, Integer, Keyword, List, Set, String, Symbol, Tuple
import hy.models as hm

from hv import catalog, structural
from hv.catalog import B, V, P, Entry, K, U
from hv.symx import core as sx
from hv.symx.core import E, S, Tok, AbsExpr, AbsStmt

META = {
    "engine": "symx",
    "level": "proof",
    "technique": "contract-based: token-conservation postcondition on every compile_* rule and model compiler, checked by "
                 "symbolic execution of the real rule on opaque children for every child-shape vector; contract on "
                 "Result.expr_as_stmt / _compile_collect branch coverage",
    "text": "For every rule in the catalogue (all core special forms and literals, with #* / #** children in every "
            "collection, call, subscript and operator slot) and every vector of child shapes, the emission is proved to "
            "contain each evaluated child's statements and expression, or the rule raises a Hy error. Rule-level proof "
            "for all child values; composes over form depth by induction (a rule never inspects inside a child's Result).",
    "note": "Trusted: parametricity (rules see children only as abstract Results), catalogue completeness is checked "
            "against the live macro table (every core result-macro head must occur in the catalogue or be listed as "
            "staging/placeholder). Presence in the emission is structural; that present code also runs in the right order "
            "is C01.",
}

U_ = "hy/compiler.py::HyASTCompiler._compile_collect"


def extra_entries():
    N = Entry
    um = lambda x: E(S("unpack-mapping"), x)
    ui = lambda x: E(S("unpack-iterable"), x)
    N("c11/list-dstar", lambda a, b: List([a, um(b)]), [B, B], U_).rejected = True          # a #** / #* where Python has no such thing: must be a Hy error, never dropped
    N("c11/tuple-dstar", lambda a, b: Tuple([a, um(b)]), [B, B], U_).rejected = True          # a #** / #* where Python has no such thing: must be a Hy error, never dropped
    N("c11/set-dstar", lambda a, b: Set([a, um(b)]), [B, B], U_).rejected = True          # a #** / #* where Python has no such thing: must be a Hy error, never dropped
    N("c11/set-star", lambda a, b: Set([a, ui(b)]), [B, B], U_)
    N("c11/dict-star", lambda a, b, c: Dict([a, b, ui(c)]), [V, V, B], U_).rejected = True          # a #** / #* where Python has no such thing: must be a Hy error, never dropped
    N("c11/get-dstar", lambda o, i: E(S("get"), o, um(i)), [B, B], U_).rejected = True          # a #** / #* where Python has no such thing: must be a Hy error, never dropped
    N("c11/op-dstar", lambda a, b: E(S("+"), a, um(b)), [B, B], U_).rejected = True          # a #** / #* where Python has no such thing: must be a Hy error, never dropped
    N("c11/cmp-dstar", lambda a, b: E(S("<"), a, um(b)), [B, B], U_).rejected = True          # a #** / #* where Python has no such thing: must be a Hy error, never dropped
    N("c11/fstring-dstar", lambda a, b: hm.FString([hm.FComponent([a, um(b)])]), [B, B], U_).rejected = True          # a #** / #* where Python has no such thing: must be a Hy error, never dropped
    N("c11/try-types-dstar", lambda b, t, h: E(S("try"), b, E(S("except"), List([List([t, um(h)])]), Integer(1))), [P, P, P], U_).rejected = True          # a #** / #* where Python has no such thing: must be a Hy error, never dropped
    N("c11/decorator-dstar", lambda d, b: E(S("defn"), List([um(d)]), U("f"), List([]), b), [B, P], U_).rejected = True          # a #** / #* where Python has no such thing: must be a Hy error, never dropped
    N("c11/class-base-dstar", lambda d: E(S("defclass"), U("C"), List([um(d)])), [B], U_)
    N("c11/call-kw-dstar-mix", lambda f, a, b, c: E(f, um(a), K("k"), b, ui(c)), [P, B, B, B], U_)
    N("c11/method-star", lambda o, a, b: E(S("."), o, E(U("m"), ui(a), um(b))), [P, B, B], U_)
    N("c11/do-name-after-stmts", lambda a, b: E(S("do"), E(S("do"), a, U("y")), b), [("SE", "S"), P], "hy/compiler.py::Result.expr_as_stmt")
    N("c11/if-branch-name-after-stmts", lambda c, a: E(S("do"), E(S("if"), c, E(S("do"), a, U("y")), Integer(1)), Integer(2)),
      [P, ("SE", "S")], "hy/compiler.py::Result.expr_as_stmt")
    return [n for n in catalog.ENTRIES if n.startswith("c11/")]


def required_atoms(t):
    return {"E": [("E", t)], "SE": [("S", t), ("E", t)], "S": [("S", t)], "T": [("E", t)], "0": []}[t.shape]


def user_syms(form):
    out = []

    def go(x, evaluated=True):
        if isinstance(x, Symbol) and str(x).startswith("u_"):
            out.append(x)
        elif isinstance(x, hm.Sequence):
            for y in x:
                go(y)
    go(form)
    return out


def live_atoms(node):
    """As sx.walk_toks, but only positions Python evaluates: the annotation of a `lambda` parameter is carried by the AST
    and printed by ast.unparse, yet never evaluated (a lambda has no __annotations__), so a child placed there is dropped."""
    out = []

    def go(n, in_lambda_args=False):
        if isinstance(n, AbsStmt):
            out.append(("S", n.tok))
        elif isinstance(n, AbsExpr):
            out.append(("E", n.tok))
        elif isinstance(n, ast.Lambda):
            go(n.args, True)
            go(n.body)
        elif isinstance(n, ast.arg) and in_lambda_args:
            return
        elif isinstance(n, ast.AST):
            for c in ast.iter_child_nodes(n):
                go(c, in_lambda_args)
        elif isinstance(n, (list, tuple)):
            for c in n:
                go(c, in_lambda_args)
    go(node)
    return out


def conservation(entry, sv):
    toks, form, out = structural.emit(entry, sv)
    if not out.ok:
        if sx.is_hy_user_error(out.exc):
            return ("hy-error", f"{type(out.exc).__name__}: {str(out.exc)[:120]}", None)
        return ("ok", f"raises {type(out.exc).__name__} (not a silent drop; classified by C10)", None)
    atoms = live_atoms([out.result.stmts, out.result._expr])
    have = {(k, id(t)) for k, t in atoms}
    missing = []
    for i, t in enumerate(toks):
        if not isinstance(t, Tok) or (entry.evaluated is not None and i not in entry.evaluated):
            continue
        for k, tt in required_atoms(t):
            if (k, id(tt)) not in have:
                missing.append(f"{k}[{t.name}]")
    # evaluated user-variable leaves (only for the dedicated entries): the name must be loaded somewhere
    names = {n.id for n in structural.nodes_of(out.result) if isinstance(n, ast.Name)}
    if entry.name.startswith("c11/") and "name-after-stmts" in entry.name:
        from hy.reader import mangle
        for s_ in user_syms(form):
            if mangle(str(s_)) not in names:
                missing.append(f"variable {s_}")
    if missing:
        rp = confirm(entry, sv, missing)
        return ("violated", f"dropped without a Hy error: {', '.join(missing)}\n{sx.show(out.result)}",
                {"emitted": sx.show(out.result), "missing": missing, "replay": rp})
    return ("ok", None, None)


def confirm(entry, sv, missing):
    """Replay on the real code: every token becomes a uniquely named variable; compile with the real compiler and look
    for the variable in the compiled module."""
    import hy
    from hy.compiler import hy_compile
    toks, form = structural.make(entry, sv)

    def inst(x):
        if isinstance(x, Tok):
            v = sx.S(f"leaf_{x.name}")
            if x.shape == "E":
                return v
            if x.shape == "SE":
                return E(S("do"), E(S("setv"), S(f"side_{x.name}"), Integer(1)), v)
            if x.shape == "S":
                return E(S("setv"), S(f"side_{x.name}"), Integer(1))
            return v
        if isinstance(x, hm.Sequence):
            return type(x)((inst(y) for y in x), **{k: getattr(x, k) for k in getattr(x, "_extra_kwargs", ())})
        return x
    f2 = inst(form)
    try:
        tree = hy_compile(f2, types.ModuleType("hv_c11_replay"), import_stdlib=False)
    except Exception as e:  # noqa: BLE001
        return {"confirmed": False, "reason": f"instantiated form does not compile: {type(e).__name__}: {e}"[:300]}
    ids = {n.id for n in ast.walk(tree) if isinstance(n, ast.Name)}
    # a name that sits in the AST but in a place CPython never compiles (an annotation of a lambda parameter) is lost all the same:
    # take the names from the code objects when the module compiles
    try:
        names, todo = set(), [compile(tree, "<hv-c11-replay>", "exec")]
        while todo:
            co = todo.pop()
            names.update(co.co_names, co.co_varnames, co.co_freevars, co.co_cellvars)
            todo.extend(c for c in co.co_consts if isinstance(c, types.CodeType))
        ids &= names
    except Exception:  # noqa: BLE001
        pass
    lost = []
    for m in missing:
        if m.startswith("variable "):
            from hy.reader import mangle
            if mangle(m.split()[1]) not in ids:
                lost.append(m.split()[1])
        else:
            kind, name = m[0], m[2:-1]
            want = f"leaf_{name}" if kind == "E" else f"side_{name}"
            if want not in ids:
                lost.append(want)
    src = hy.repr(f2)
    return {"confirmed": bool(lost), "hy_source": src[1:] if src.startswith("'") else src,
            "variables_absent_from_compiled_module": lost, "python": _unparse(tree)}


def _unparse(tree):
    try:
        return ast.unparse(tree)[:600]
    except Exception as e:  # noqa: BLE001
        return f"<ast.unparse failed: {type(e).__name__}: {e}>"


def truth_blind(chk, names):
    """A rule sees a child model's *presence*, never its truth value: a falsy literal child (0, the empty string) in any
    evaluated slot must be compiled exactly as a truthy literal of the same type in that slot - otherwise a test like
    `if guard:` on the model itself silently treats the sub-form as absent.  For every catalogue entry and every evaluated
    slot: the emission with Integer(0) equals the emission with Integer(7) up to that constant (same for "" / "x");
    a Hy error for both is fine, an error for exactly one of them is not."""
    pairs = (("0", lambda: Integer(0), lambda: Integer(7), lambda v: isinstance(v, int) and not isinstance(v, bool) and v in (0, 7)),
             ("empty string", lambda: String(""), lambda: String("x"), lambda v: isinstance(v, str) and v in ("", "x")))

    def emit(entry, i, mk):
        sv = tuple(("E" if "E" in sl else sl[0]) for sl in entry.slots)
        toks, _ = structural.make(entry, sv)
        toks = list(toks)
        toks[i] = mk()
        form = structural.position(entry.builder(*toks), len(sv))
        out = sx.run_rule(form, scope_ctx=structural.scope_ctx_for(entry))
        if not out.ok:
            return ("hy-error" if sx.is_hy_user_error(out.exc) else "error", type(out.exc).__name__)
        return ("ok", out.result)

    def norm(res, same):
        nodes = list(res.stmts) + ([res._expr] if res._expr is not None else [])
        outl = []
        for n in nodes:
            n = __import__("copy").deepcopy(n)
            for c in ast.walk(n):
                if isinstance(c, ast.Constant) and same(c.value):
                    c.value = "<LIT>"
                for a in ("lineno", "col_offset", "end_lineno", "end_col_offset"):
                    if hasattr(c, a):
                        try:
                            delattr(c, a)
                        except AttributeError:
                            pass
            outl.append(sx.show(n) if isinstance(n, (AbsStmt, AbsExpr)) else ast.dump(n))
        return outl
    for name in names:
        entry = catalog.ENTRIES[name]
        for i, sl in enumerate(entry.slots):
            if "E" not in sl or (entry.evaluated is not None and i not in entry.evaluated):
                continue
            for pname, falsy, truthy, same in pairs:
                oname = f"truth-blind/{name}/slot {i}/{pname}"
                chk.case(oname)
                try:
                    a, b = emit(entry, i, falsy), emit(entry, i, truthy)
                except Exception as e:  # noqa: BLE001  (the schema itself cannot hold a literal there)
                    chk.ob(oname, True, "structural", "proved", detail=f"not instantiable with a literal: {type(e).__name__}")
                    continue
                if a[0] != "ok" or b[0] != "ok":
                    ok = a[0] == b[0]
                    chk.ob(oname, ok, "structural", "proved", detail=f"falsy literal: {a[0]} {a[1] if a[0] != 'ok' else ''}; truthy literal: {b[0]} {b[1] if b[0] != 'ok' else ''}")
                    continue
                try:
                    na, nb = norm(a[1], same), norm(b[1], same)
                except Exception as e:  # noqa: BLE001
                    chk.ob(oname, None, "structural", "proved", detail=f"cannot normalise: {e}")
                    continue
                chk.ob(oname, na == nb, "structural", "proved",
                       detail=None if na == nb else f"the emission depends on the literal's truth value:\n falsy : {sx.show(a[1])}\n truthy: {sx.show(b[1])}")


def coverage_of_macro_table(chk):
    """Vacuity guard: every core result macro must be exercised by the catalogue, or be on the explicit exclusion list."""
    import hy.core.result_macros as rm
    heads = set(rm._hy_macros)
    used = set()

    def go(x):
        if isinstance(x, Expression) and x and isinstance(x[0], Symbol):
            from hy.reader import mangle
            used.add(mangle(str(x[0])))
        if isinstance(x, hm.Sequence):
            for y in x:
                go(y)
    for e in catalog.ENTRIES.values():
        toks = [Tok(f"t{i}", s[0]) for i, s in enumerate(e.slots)]
        go(e.builder(*toks))
    from hy.reader import mangle
    excluded = {mangle(x) for x in ("eval-and-compile", "eval-when-compile", "do-mac", "pragma", "defmacro", "require",
                                    "unquote", "unquote-splice", "unpack-mapping", "except", "except*", "finally", "else",
                                    "unpack-iterable")}
    missing = sorted(heads - used - excluded)
    chk.ob("catalogue covers every core result macro", not missing, "structural", "proved",
           detail=f"uncovered heads: {missing}" if missing else f"{len(heads)} heads, {len(excluded)} excluded (staging/placeholders: C16, C35)")


def run(chk):
    names = [n for n, e in catalog.ENTRIES.items() if catalog.supported(e)]
    names += extra_entries()
    chk.fn(*sorted({e.fn for e in catalog.ENTRIES.values() if e.fn}), "hy/compiler.py::Result.expr_as_stmt")
    chk.trust("parametricity: a rule can drop a child only by not placing its Result; it cannot look inside",
              "catalogue of rule schemas (hv/catalog.py) enumerates the child slots of every rule")
    chk.bounds["variadic slots"] = "2-3 children per variadic slot; unpacking forms placed in every collection/call/subscript/operator slot"
    structural.run(chk, "conserve", conservation, names,
                   kind_of=lambda n: "proved")
    coverage_of_macro_table(chk)
    truth_blind(chk, names)
    # canary: a rule that really drops a child must be refuted (use a stub rule registered only here)
    from hy.compiler import Result
    import hy.compiler as hc

    class Drop(hm.Object):
        def __init__(self, a, b):
            self.a, self.b = a, b
    hc._model_compilers[Drop] = lambda comp, d: comp.compile(d.a) + Result()   # compiles a, ignores b entirely
    t = [Tok("t0", "E"), Tok("t1", "E")]
    out = sx.run_rule(Drop(*t))
    atoms = {(k, id(x)) for k, x in sx.walk_toks([out.result.stmts, out.result._expr])}
    chk.canary("stub rule that ignores its second child", ("E", id(t[1])) not in atoms)
    del hc._model_compilers[Drop]
    chk.sample({"entry": "call/star", "shapes": ["E", "SE", "E"], "emitted": sx.show(structural.emit(catalog.ENTRIES["call/star"], ("E", "SE", "E"))[2].result)})


def replay(path):
    from hv.replay import replay_file
    return replay_file(path)
