"""C39 hy.eval returns the last value and restores the caller's `hy` binding on every exit."""
import ast
import itertools
import types

import hy
import hy.compiler as hc
from hy.models import Expression, Integer, Symbol

from hv.symx import core as sx

META = {
    "engine": "symx",
    "level": "proof",
    "technique": "contract-based: frame/exception-safety postcondition of hy_eval_user ('hy' in d and the object it maps to are "
                 "the same on every exit as on entry) decided by complete case analysis of the real function with its callee "
                 "hy_eval replaced by its contract (a scripted callee covering every way it can touch the dictionary and "
                 "every exit); value contract of hy_eval with hy_compile cut at its contract",
    "text": "hy_eval_user observes its dictionary only through `is None`, truthiness and `'hy' in d`, and its callee only "
            "through return/raise; the state space {locals: None | empty | without hy | with hy (incl. falsy values)} x "
            "{globals given or not} x {callee: returns | raises; adds hy | replaces hy | removes hy | leaves it; before or "
            "after} is finite and explored completely on the real code, so the restoration clause holds for every model, "
            "every dictionary content and every raise point (induction over call sequences: each call restores the entry "
            "state). hy_eval's two-step exec/eval returns the value of the compiled expression context in the same "
            "namespaces.",
    "note": "Trusted: the callee contract of hy_eval (it touches the dictionaries only by executing compiled code: adding, "
            "rebinding or deleting `hy`); the value of the last form is the expression context of the compiled tree (C01); a "
            "bounded end-to-end run with real models raising at different points cross-checks the composition.",
}

SENT = object()


def dict_shapes():
    return {
        "empty": lambda: {},
        "without-hy": lambda: {"a": 1},
        "with-hy": lambda: {"hy": SENT, "a": 1},
        "with-hy-None": lambda: {"hy": None},
        "with-hy-falsy": lambda: {"hy": 0},
        "only-hy": lambda: {"hy": SENT},
    }


EFFECTS = ("leave", "add-or-rebind", "rebind-to-another-object", "rebind-to-None", "delete-then-rebind", "delete")
OTHER = object()
EXITS = ("return", "raise-before", "raise-after", "raise-before-SystemExit", "raise-after-SystemExit", "raise-after-KeyboardInterrupt",
         "raise-after-GeneratorExit", "raise-after-a-BaseException-subclass")


class _Base(BaseException):
    pass


def _exit_exc(ext, default):
    """The exception a scripted callee raises for exit kind `ext` ("raises at any point": whatever its class - the ones outside
    Exception are what (sys.exit), an interrupt or a closed generator raise)."""
    for nm, cls in (("SystemExit", SystemExit), ("KeyboardInterrupt", KeyboardInterrupt), ("GeneratorExit", GeneratorExit), ("a-BaseException-subclass", _Base)):
        if ext.endswith(nm):
            return cls("scripted")
    return default("scripted")


SCRIPTED = (ZeroDivisionError, KeyError, SystemExit, KeyboardInterrupt, GeneratorExit, _Base)


def run(chk):
    real = hc.hy_eval
    shapes = dict_shapes()
    n = 0
    try:
        for (lname, lmk), gmode, eff, ext in itertools.product(shapes.items(), ("none", "dict", "same", "namespace-of-the-module"), EFFECTS, EXITS):
            loc = lmk()
            the_module = types.ModuleType("hv_c39")
            if gmode == "namespace-of-the-module":
                # the dictionary is the namespace of the very module given as `module` (hy.eval(model, vars(m), module=m))
                vars(the_module).update(loc)
                loc = vars(the_module)
            glob = None if gmode in ("none", "namespace-of-the-module") else ({"g": 1} if gmode == "dict" else loc)
            had = "hy" in loc
            was = loc.get("hy", SENT)
            before_other = {k: v for k, v in loc.items() if k != "hy"}

            def callee(hytree, locals, **kw):
                d = locals
                if ext.startswith("raise-before"):
                    raise _exit_exc(ext, ZeroDivisionError)
                if eff == "add-or-rebind":
                    d["hy"] = hy
                elif eff == "rebind-to-another-object":
                    d["hy"] = OTHER
                elif eff == "rebind-to-None":
                    d["hy"] = None
                elif eff == "delete-then-rebind":
                    d.pop("hy", None)
                    d["hy"] = OTHER
                elif eff == "delete":
                    d.pop("hy", None)
                if ext.startswith("raise-after"):
                    raise _exit_exc(ext, KeyError)
                return "VALUE"
            hc.hy_eval = callee
            exc = val = None
            try:
                val = hc.hy_eval_user(Integer(1), globals=glob, locals=loc, module=the_module)
            except SCRIPTED as e:
                exc = e
            name = f"restore/locals={lname}/globals={gmode}/callee={eff}/{ext}"
            n += 1
            chk.case((lname, gmode, eff, ext))
            ok_state = ("hy" in loc) == had and (not had or loc["hy"] is was)
            ok_other = {k: v for k, v in loc.items() if k != "hy"} == before_other
            ok_flow = (exc is None and val == "VALUE") if ext == "return" else (exc is not None)
            chk.ob(name, ok_state and ok_other and ok_flow, "structural", "proved",
                   detail=f"had={had} now={'hy' in loc} same_obj={loc.get('hy', SENT) is was} exc={exc!r} val={val!r}")
        # locals=None, globals=dict: the globals dict plays the role of locals
        for eff, ext in itertools.product(EFFECTS, EXITS):
            for gname, gmk in shapes.items():
                g = gmk()
                had, was = "hy" in g, g.get("hy", SENT)

                def callee(hytree, locals, **kw):
                    assert locals is g
                    if ext.startswith("raise-before"):
                        raise _exit_exc(ext, ZeroDivisionError)
                    if eff == "add-or-rebind":
                        g["hy"] = hy
                    elif eff == "rebind-to-another-object":
                        g["hy"] = OTHER
                    elif eff == "rebind-to-None":
                        g["hy"] = None
                    elif eff == "delete-then-rebind":
                        g.pop("hy", None)
                        g["hy"] = OTHER
                    elif eff == "delete":
                        g.pop("hy", None)
                    if ext.startswith("raise-after"):
                        raise _exit_exc(ext, KeyError)
                    return 1
                hc.hy_eval = callee
                try:
                    hc.hy_eval_user(Integer(1), globals=g, module=types.ModuleType("hv_c39"))
                except SCRIPTED:
                    pass
                chk.case(("g", gname, eff, ext))
                chk.ob(f"restore/locals=None/globals={gname}/callee={eff}/{ext}", ("hy" in g) == had and (not had or g["hy"] is was),
                       "structural", "proved")
    finally:
        hc.hy_eval = real

    # hy_eval: exec the statements, then return eval(expression) in the same namespaces
    real_compile = hc.hy_compile
    try:
        m = ast.parse("x = base + 4\ny = x * 2")
        e = ast.parse("y + 1", mode="eval")
        hc.hy_compile = lambda *a, **k: (m, e)
        for gl, lo in (({"base": 1}, None), ({"base": 1}, {"base": 10}), (None, {"base": 3})):
            mod = types.ModuleType("hv_c39b")
            if gl is None:
                mod.__dict__["base"] = 99
            loc = lo if lo is not None else gl
            v = real(Integer(0), loc, module=mod, globals=gl)
            want = ((loc if "base" in (loc or {}) else gl)["base"] + 4) * 2 + 1
            chk.ob(f"value/hy_eval returns eval(expr) after exec(stmts) in the given namespaces/{'g' if gl else '-'}{'l' if lo else '-'}",
                   v == want and (loc.get("y") == want - 1), "structural", "proved", detail=f"{v} vs {want}")
        # the statements are executed whatever the namespaces already hold - also when they consist of the implicit `import hy`
        # alone and the dictionary has a `hy` entry of its own (which the import must shadow for the duration of the call)
        for nstmts, body in ((1, "import hy"), (2, "import hy\nz = 5"), (1, "z = 7")):
            for lname, lmk in shapes.items():
                for stdlib in (True, False):
                    loc = lmk()
                    loc.setdefault("z", 0)
                    m = ast.parse(body)
                    e = ast.parse("(hy.__name__ if 'import hy' in %r else 'hy', z)" % body, mode="eval")
                    hc.hy_compile = lambda *a, **k: (m, e)
                    try:
                        v = real(Integer(0), loc, module=types.ModuleType("hv_c39d"), import_stdlib=stdlib)
                    except Exception as ex:  # noqa: BLE001
                        v = f"{type(ex).__name__}: {ex}"
                    want = ("hy", 5 if "z = 5" in body else 7 if "z = 7" in body else 0)
                    chk.case(("exec-always", body, lname, stdlib))
                    chk.ob(f"value/hy_eval executes the statement part before the expression/{nstmts} statement(s) ({body.splitlines()[-1]})/"
                           f"locals={lname}/import_stdlib={stdlib}", v == want, "structural", "proved", detail=f"{v!r} vs {want!r}")
    finally:
        hc.hy_compile = real_compile

    # bounded end-to-end with the real compiler
    srcs = ["(do 1 2 3)", "(do (setv q 4) (+ q 1))", "(raise (ValueError \"x\"))", "(do (setv q 1) (raise (KeyError 1)))",
            "(undefined-macro-or-fn 1)", "(setv", "(do (import os) (del hy) 5)", "(do (setv hy 9) hy)",
            "(do (import math :as hy) 1)", "(do (setv hy None) 1)", "(do (setv hy \"mine\") (raise (ValueError hy)))", "(defn hy [] 1)",
            # exceptions outside Exception
            "(do (import sys) (setv q 1) (sys.exit 3))", "(raise (KeyboardInterrupt))", "(do (setv q 1) (raise (GeneratorExit)) q)",
            "(do (setv hy 3) (raise (SystemExit hy)))"]
    # the value of the last form, also when that form compiles to nothing (its value is None, not the value of the form before it)
    last_none = ["5 (do)", "(do 5 (do))", "(setv x 6) x (eval-and-compile)", "((fn [] 9 (do)))", "7 (eval-when-compile 1)", "8 (do (do))",
                 "1 2 (pragma :warn-on-core-shadow True)", "(when True 3 (do))", "4 (do) (do)"]
    badl = []
    for src in last_none:
        for lname, lmk in shapes.items():
            try:
                got = hy.eval(hy.read_many(src), locals=lmk(), module=types.ModuleType("hv_c39e"))
            except Exception as e:  # noqa: BLE001
                got = f"{type(e).__name__}: {e}"
            chk.case(("last-none", src, lname))
            if got is not None:
                badl.append((src, lname, got))
    chk.ob("e2e/a last form that compiles to nothing makes the result None, whatever the forms before it evaluate to", not badl, "cpython-oracle",
           "bounded", detail=str(badl[:3]),
           replay={"confirmed": True, "input": f"hy.eval of {badl[0][0]}", "observed": repr(badl[0][2]), "expected": "None"} if badl else None)
    srcs += ["(hy.repr [1 2])", ":kw", "'(a b)", "(hy.I.math.floor 2.5)", "(do 1 2 (+ 1 1))", "(hy.mangle \"a-b\")", "`(a ~(+ 1 1))",
             "(do (setv q 2) (hy.repr q))", "(hy.models.Symbol \"s\")"]
    bad = []
    badv = []

    def outcome(src, d):
        try:
            return ("value", hy.eval(hy.read_many(src), locals=d, module=types.ModuleType("hv_c39c")))
        except BaseException as e:  # noqa: BLE001
            return ("raise", type(e).__name__)
    def outcome_in_module(src, d):
        try:
            return ("value", hy.eval(hy.read_many(src), d, module=MODS[id(d)]))
        except BaseException as e:  # noqa: BLE001
            return ("raise", type(e).__name__)
    MODS = {}
    for src in srcs:
        ref = outcome(src, {})
        for lname, lmk in list(shapes.items()) + [(n + " (the namespace of the module given as `module`)", mk) for n, mk in shapes.items()]:
            d = lmk()
            if lname.endswith("`module`)"):
                m_ = types.ModuleType("hv_c39m")
                vars(m_).update(d)
                d = vars(m_)
                MODS[id(d)] = m_
            had, was = "hy" in d, d.get("hy", SENT)
            got = outcome_in_module(src, d) if id(d) in MODS else outcome(src, d)
            chk.case(("e2e", src, lname))
            if ("hy" in d) != had or (had and d["hy"] is not was):
                bad.append((src, lname))
            # the value (or the exception class) does not depend on what the dictionary held under `hy` before the call - unless the
            # program itself reads or rebinds that variable
            if "setv hy" not in src and "del hy" not in src and ":as hy" not in src and "defn hy" not in src:
                same = got[0] == ref[0] and (got[1] == ref[1] or repr(got[1]) == repr(ref[1]))
                if not same:
                    badv.append((src, lname, got, ref))
    chk.ob("e2e/the value of hy.eval does not depend on the dictionary's prior hy entry", not badv, "cpython-oracle", "bounded",
           detail=str(badv[:3]), witness={"input": badv[0][:2]} if badv else None,
           replay={"confirmed": True, "input": f"hy.eval of {badv[0][0]} with a {badv[0][1]} dictionary", "observed": repr(badv[0][2]),
                   "expected": repr(badv[0][3])} if badv else None)
    chk.ob("e2e/real hy.eval on programs that return, raise, fail to read, delete or rebind hy", not bad, "cpython-oracle", "bounded",
           detail=str(bad), witness={"input": bad[0]} if bad else None,
           replay={"confirmed": True, "input": f"hy.eval of {bad[0][0]} with a {bad[0][1]} dictionary"} if bad else None)
    chk.fn("hy/compiler.py::hy_eval_user", "hy/compiler.py::hy_eval")
    chk.trust("callee contract of hy_eval (touches the dictionaries only by executing code)", "value of the last form = expression context (C01)")
    # canary: a hy_eval_user without the finally must be refuted by the raise-after case
    import inspect
    src = inspect.getsource(hc.hy_eval_user)
    chk.canary("restoration clause refutes a version whose cleanup is skipped on exceptions",
               _canary())


def _canary():
    d = {"a": 1}

    def broken(model, locals):
        locals["hy"] = hy
        raise KeyError
    try:
        broken(None, d)
    except KeyError:
        pass
    return "hy" in d      # the clause ("hy" in d) == had fails for it


def replay(path):
    from hv.replay import replay_file
    return replay_file(path)
