"""C19 helper: an independent recogniser of Hy's lexical nesting structure (written from docs/syntax.rst; does not import
hy) that classifies a prefix of a well-formed program as

  OPEN     the text ends inside an unclosed construct: an open ( [ { #( #{, a string, bracket string, f-string or one of
           its replacement fields, or after a prefix (' ` ~ ~@ #* #** #_ #^ #) whose operand has not been read completely
  BETWEEN  every top-level form is complete and the text ends between top-level forms (also inside a trailing comment)
  ATOM     the text ends in (or right after) a top-level atom: the cut may have produced a different, possibly
           ill-formed, token (`a.` from `a.b`) - the property makes no claim
  ATOM_IN_OPEN  as OPEN, but the last token is an atom the cut may have shortened: the property demands
           PrematureEndOfInput; reported under its own obligation since the shortened token may be ill-formed

and a generator of well-formed program texts.
"""
import random

WS = " \t\n\r\f\v"
NON_IDENT = "()[]{};\"'`~"
CLOSER = {"(": ")", "[": "]", "{": "}"}


class Open(Exception):
    def __init__(self, why, atom=False):
        self.why, self.atom = why, atom


class Malformed(Exception):
    pass


class Scan:
    def __init__(self, text):
        self.t, self.i = text, 0
        self.last_atom_end = -1     # index just after the last atom-like token (ident, number, keyword)

    def peek(self):
        return self.t[self.i] if self.i < len(self.t) else ""

    def get(self, why):
        if self.i >= len(self.t):
            raise Open(why)
        c = self.t[self.i]
        self.i += 1
        return c

    def ws(self):
        while self.peek() and self.peek() in WS:
            self.i += 1

    def ident(self):
        j = self.i
        while self.peek() and self.peek() not in NON_IDENT and self.peek() not in WS:
            self.i += 1
        return self.t[j:self.i]

    # -- one item: returns True when it produced a form, False for a comment / discarded form
    def item(self, why):
        self.ws()
        c = self.get(why)
        if c == ";":
            while self.peek() and self.peek() != "\n":
                self.i += 1
            return False
        if c in CLOSER:
            self.seq(CLOSER[c])
            return True
        if c in ")]}":
            raise Malformed(f"unexpected {c} at {self.i}")
        if c == '"':
            self.string("")
            return True
        if c in "'`":
            self.form("operand of " + c)
            return True
        if c == "~":
            if self.peek() == "@":
                self.i += 1
            self.form("operand of ~")
            return True
        if c == "#":
            return self.dispatch()
        if c == ":":
            self.ident()
            self.last_atom_end = self.i
            return True
        self.i -= 1
        name = self.ident()
        if self.peek() == '"' and name and set(name) <= set("bfrt"):
            self.i += 1
            self.string(name)
            return True
        self.last_atom_end = self.i
        return True

    def form(self, why):
        while not self.item(why):
            pass

    def seq(self, closer):
        while True:
            self.ws()
            if self.peek() == closer:
                self.i += 1
                return
            if not self.peek():
                raise Open("inside a sequence closed by " + closer, atom=self.last_atom_end == self.i)
            self.item("inside a sequence closed by " + closer)

    def dispatch(self):
        if not self.peek() or self.peek() in WS:
            raise Open("after #") if not self.peek() else Malformed("# followed by whitespace")
        c = self.peek()
        if c == "_":
            self.i += 1
            self.form("operand of #_")
            return False
        if c == "*":
            self.i += 1
            if self.peek() == "*":
                self.i += 1
            self.form("operand of #*")
            return True
        if c == "^":
            self.i += 1
            self.form("annotation of #^")
            self.form("target of #^")
            return True
        if c == "(":
            self.i += 1
            self.seq(")")
            return True
        if c == "{":
            self.i += 1
            self.seq("}")
            return True
        if c == "[":
            self.i += 1
            self.bracket_string()
            return True
        raise Malformed("reader macro")

    def bracket_string(self):
        j = self.i
        while True:
            c = self.get("in a bracket-string delimiter")
            if c == "[":
                break
            if c == "]":
                raise Malformed("] in delimiter")
        delim = self.t[j:self.i - 1]
        fmode = delim == "f" or delim.startswith("f-")
        close = "]" + delim + "]"
        if not fmode:
            k = self.t.find(close, self.i)
            if k < 0:
                self.i = len(self.t)
                raise Open("inside a bracket string")
            self.i = k + len(close)
            return
        self.fcontent(lambda: self.t.startswith(close, self.i) and len(close), raw=True, what="bracket f-string", bs=False)

    def string(self, prefix):
        if "f" in prefix or "t" in prefix:
            self.fcontent(lambda: self.peek() == '"' and 1, raw="r" in prefix, what="f-string")
            return
        while True:
            c = self.get("inside a string")
            if c == "\\":
                self.get("inside a string (after a backslash)")
            elif c == '"':
                return

    def fcontent(self, closing, raw, what, bs=True):
        """Literal text of an f-string up to `closing`, with replacement fields."""
        while True:
            n = closing()
            if n:
                self.i += n
                return
            c = self.get("inside an " + what)
            if c == "\\" and bs:
                d = self.get("inside an " + what)
                if d == "N" and self.peek() == "{" and not raw:
                    while self.get("inside a \\N{...} escape") != "}":
                        pass
            elif c == "{":
                if self.peek() == "{":
                    self.i += 1
                else:
                    self.field()
            elif c == "}":
                if self.peek() == "}":
                    self.i += 1
                elif not self.peek():
                    raise Open("inside an " + what + " (after the first } of an escaped brace)")
                else:
                    raise Malformed("single }")

    def field(self):
        self.form("expression of a replacement field")
        self.ws()
        if self.peek() == "=":
            self.i += 1
            self.ws()
        if self.peek() == "!":
            self.i += 1
            self.get("conversion of a replacement field")
        self.ws()
        c = self.get("end of a replacement field")
        if c == ":":
            self.fcontent(lambda: self.peek() == "}" and 1, raw=False, what="format spec")
        elif c != "}":
            raise Malformed("trailing junk in field")


def classify(text, want_start=False):
    """-> (class, reason) for a prefix of a well-formed program (with want_start also the index at which the last
    top-level item starts)."""
    r = _classify(text)
    return r if want_start else r[:2]


def _classify(text):
    s = Scan(text)
    top = 0
    try:
        while True:
            s.ws()
            if not s.peek():
                break
            top = s.i
            s.item("top level")
    except Open as e:
        if s.last_atom_end == len(text) and s.last_atom_end > 0:
            return "ATOM_IN_OPEN", e.why, top
        return "OPEN", e.why, top
    except Malformed as e:
        return "MALFORMED", str(e), top
    if s.last_atom_end == len(text) and text:
        return "ATOM", "ends right after a top-level atom", top
    return "BETWEEN", "between top-level forms", top


# ---------------------------------------------------------------------------------------------------------------
# generator of well-formed programs
# ---------------------------------------------------------------------------------------------------------------
ATOMS = ["a", "foo", "x.y", "a.b.c", ".m", "...", "1", "42", "-7", "1.5", "1e3", "0x1F", "2+3j", "1_000", ":k", ":key-word",
         "None", "True", "+", "<=", "*", "a-b", "_", "é", "->", "&optional"]
STR_BODIES = ["", "abc", "a b", "\\n", "\\\"", "\\\\", "{", "}", "[x]", "(", ";", "'", "\\x41", "\\u00e9", "\\N{EM DASH}", "multi\nline", "\\\n"]
FLIT = ["", "t", "a b", "{{", "}}", "\\n", "\\\"", "(", "\\N{BULLET}", ";", "'"]
SPECS = ["", ">5", "{w}", "{w}.{p}", "x", "^{w}"]


def gen_program(rng, nforms=None):
    def ws():
        return rng.choice([" ", " ", "\n", "  ", " ; c\n", "\t", " ;; (\n"])

    nobf = [0]

    def fld(depth):
        x = form(depth, infield=True)
        return (" " if x.startswith("{") else "") + x

    def fbody(quote, depth):
        parts = []
        for _ in range(rng.randint(0, 3)):
            if rng.random() < 0.5:
                lit = rng.choice(FLIT)
                if not quote:
                    lit = lit.replace('\\"', '"').replace("\\n", "n").replace("\\N{BULLET}", "N")
                parts.append(lit)
            else:
                dbg, conv, spec_ = rng.random() < 0.25, rng.random() < 0.3, rng.random() < 0.35
                # an identifier directly followed by = ! : would just be a longer identifier: a blank is required there
                f = "{" + rng.choice(["", " "]) + fld(depth + 1) + (" " if dbg or conv or spec_ else rng.choice(["", " "]))
                if dbg:
                    f += "=" + rng.choice(["", " "])
                if conv:
                    f += "!" + rng.choice("rsa")
                if spec_:
                    spec = rng.choice(SPECS).replace("{w}", "{" + fld(depth + 2) + "}").replace("{p}", "{" + fld(depth + 2) + "}")
                    f += ":" + spec
                parts.append(f + "}")
        return "".join(parts)

    def form(depth, infield=False):
        r = rng.random()
        if depth > 3 or r < 0.35:
            a = rng.choice(ATOMS)
            if infield and (a.startswith(":") or a in ("<=", "->")):
                a = "a"
            return a
        if r < 0.45:
            body = rng.choice(STR_BODIES)
            p = rng.choice(["", "", "r", "b", "rb"])
            if "b" in p:
                body = body.replace("\\u00e9", "e").replace("\\N{EM DASH}", "-")
            if "r" in p:
                body = body.replace("\\\n", "\\ ")
            return p + '"' + body + '"'
        if r < 0.53:
            return rng.choice(["f", "f", "fr"]) + '"' + fbody(True, depth) + '"' if depth < 3 else '"s"'
        if r < 0.58:
            d = rng.choice(["", "", "x", "=="])
            body = rng.choice(["", "abc", "]", "]]x"[: 2 if d == "" else 3], "a\nb", "\"", "]x", "[", "]" + d])
            if ("]" + d + "]") in body + "]" + d:
                body = "abc"
            return "#[" + d + "[" + body + "]" + d + "]"
        if r < 0.62 and depth < 3 and not nobf[0]:
            d = rng.choice(["f", "f-x"])
            nobf[0] += 1            # no bracket f-string inside a bracket f-string: the inner closing delimiter would end the outer
            try:
                return "#[" + d + "[" + fbody(False, depth) + "]" + d + "]"
            finally:
                nobf[0] -= 1
        if r < 0.72:
            return rng.choice(["'", "`", "~", "~@", "#* ", "#** ", "#*\n", "' ", "#_ a ", "#_(b) "]) + form(depth + 1, infield)
        if r < 0.75:
            return "#^ " + form(depth + 1) + " " + form(depth + 1)
        op, cl = rng.choice([("(", ")"), ("(", ")"), ("[", "]"), ("{", "}"), ("#{", "}"), ("#(", ")")])
        n = rng.randint(0, 3)
        if op == "{":
            n = 2 * (n // 2)
        inner = "".join((ws() if k else rng.choice(["", " "])) + form(depth + 1) for k in range(n))
        return op + inner + rng.choice(["", " ", " ; end\n"]) + cl

    n = nforms or rng.randint(1, 4)
    return rng.choice(["", " ", "; start\n"]) + "".join(form(0) + ws() for _ in range(n))


def programs(seed, count):
    rng = random.Random(seed)
    out = []
    while len(out) < count:
        p = gen_program(rng)
        if classify(p)[0] in ("BETWEEN", "ATOM"):
            out.append(p)
    return out
