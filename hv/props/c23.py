"""C23 string and bracket-string literals read with Python's escape semantics."""
import hv.symx.core  # noqa: F401

from hv.props import _c23_ex
from hv.pyvc import targets

META = {
    "engine": "pyvc+ex",
    "level": "proof",
    "technique": "contract-based deductive verification of the two closing automata (VCs from the source AST of the closures "
                 "quote_closing and delim_closing; z3, cvc5 --strings-exp for what z3 leaves open): inductive invariants over a "
                 "ghost text (parity of trailing backslashes; text since the last `]`) with the postconditions `returns 1 "
                 "exactly at the first unescaped quote`, `raises exactly for an escaped character outside Python's table when "
                 "the prefix has no r`, `returns non-zero exactly when the text ends with ]DELIM]`; the decoding itself "
                 "(codecs) is decided by complete enumeration of finite domains and bounded differential runs against CPython",
    "text": "The end of a literal is proved for all texts, prefixes and delimiters (unbounded): the string automaton closes at "
            "the first double quote preceded by an even number of backslashes and rejects exactly the escapes outside the "
            "table; the bracket automaton closes at exactly the first occurrence of ]DELIM] (both directions, via a lemma "
            "discharged by cvc5). What the enclosed text decodes to is delegated to Python's own codecs by the reader; that "
            "part is checked exhaustively over finite domains (every code point as escape character and as literal "
            "character under every prefix, every octal/hex/\\u/\\U/\\N escape, all short texts over backslash/quote, all "
            "small-alphabet bracket strings) and by bounded differential runs (hypothesis) against ast.literal_eval.",
    "note": "Trusted: z3/cvc5; CPython's literal semantics as oracle (SyntaxWarning for invalid escapes turned into an error; "
            "backslash + non-ASCII character is literal in CPython and rejected by Hy, which the property allows); CR/CRLF -> "
            "LF as for Python source files. Exhaustive-finite and bounded parts are labelled as such per obligation.",
}


def run(chk):
    targets.c23_quote_closing(chk)
    targets.c23_delim_closing(chk)
    _c23_ex.add(chk)
    from hv.pyvc import engine
    chk.extra["smt"] = dict(engine.STATS)
    chk.trust("z3 5.1 / cvc5 1.0.3 --strings-exp", "ghost-state definitions (trailing-backslash parity; text after the last `]`) are "
              "recursive definitions over the text fed to the automaton")


def replay(path):
    from hv.replay import replay_file
    return replay_file(path)
