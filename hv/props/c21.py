"""C21 reader source positions delimit each form's text."""
import io
import itertools
import random

import hv.symx.core  # noqa: F401
import hy
import hy.models as hm
from hy.reader.hy_reader import HyReader

from hv.pyvc import targets

META = {
    "engine": "pyvc+rtc",
    "level": "proof",
    "technique": "contract-based deductive verification of Reader.getc (VCs from its source AST, z3): the position pair is "
                 "advanced by exactly the recursive definition of pos_of (end of input: unchanged; newline: (line+1, 0); other: "
                 "(line, col+1)), so `_pos == pos_of(consumed text)` is an inductive invariant; contracts of fill_pos and of "
                 "the start/end capture in try_parse_one_form checked on the real methods; bounded run-time contract for "
                 "`the region re-reads to an equal model`, containment and source order",
    "text": "getc is proved for all characters, positions and reader states (10 paths, 61 obligations): it is the only place "
            "that changes _pos (frame check over hy/reader), hence for every text the position after consuming a prefix is "
            "pos_of(prefix): 1-based line, column = number of characters since the last newline. try_parse_one_form records "
            "the position right after the first character of a form and fill_pos the position after its last character, i.e. "
            "a 1-based inclusive region. That this region re-reads to an equal model, that children lie inside their parents "
            "and appear in source order is a run-time contract evaluated on generated multi-line programs (bounded). "
            "Models the reader synthesises without text of their own (head symbols of sugar, parts of dotted identifiers) "
            "carry their parent's region and are exempt from the re-read clause.",
    "note": "Trusted: peekc's contract (returns the next character, '' at end of input, and leaves it in _peek_chars); z3. "
            "The read-back part is a bounded stand-in (generator-based reader plumbing is outside pyvc's subset).",
}

ATOMS = ["a", "foo-bar", ":kw", "12", "1.5", '"s"', '"two\nlines"', 'r"raw\\n"', 'b"by"', "#[[br\nack]]", "#[x[ y ]x]", 'f"a{b}c"',
         'f"{x !r :>{w}}"', '"caf\u00e9"', "na\u00efve", '"\u2603 snow \U0001f600"', "'q", "`(a ~b ~@c)", "#* xs", "#** kw", "#^ int x", "a.b.c", ".m", "None", "...", "#_ junk zz"]


def programs(rng, n):
    def form(depth):
        r = rng.random()
        if depth <= 0 or r < 0.45:
            return rng.choice(ATOMS)
        op, cl = rng.choice([("(", ")"), ("[", "]"), ("{", "}"), ("#{", "}"), ("#(", ")")])
        k = rng.randrange(0, 4)
        if op == "{":
            k = 2 * (k // 2)
        seps = [" ", "\n", "\n  ", " ; c\n ", "\t"]
        inner = "".join(rng.choice(seps) + form(depth - 1) for _ in range(k))
        return op + inner.lstrip(" ") + rng.choice(["", " ", "\n"]) + cl
    for _ in range(n):
        yield "".join(form(3) + rng.choice(["\n", " ", "\n\n", " ; tail\n"]) for _ in range(rng.randrange(1, 4)))


def region(text, m):
    lines = text.split("\n")
    if not (1 <= m.start_line <= m.end_line <= len(lines)):
        return None                     # not a region of this text at all
    if m.start_line == m.end_line:
        return lines[m.start_line - 1][m.start_column - 1:m.end_column]
    out = [lines[m.start_line - 1][m.start_column - 1:]] + lines[m.start_line:m.end_line - 1] + [lines[m.end_line - 1][:m.end_column]]
    return "\n".join(out)


def deep_eq(a, b):
    if type(a) is not type(b):
        return False
    for k in getattr(type(a), "_extra_kwargs", ()) + (("brackets",) if isinstance(a, hm.String) else ()):
        if getattr(a, k, None) != getattr(b, k, None):
            return False
    if isinstance(a, hm.Sequence):
        return len(a) == len(b) and all(deep_eq(x, y) for x, y in zip(a, b))
    if isinstance(a, hm.Keyword):
        return a.name == b.name
    if isinstance(a, float) and a != a:
        return b != b
    return a == b


def readback(chk):
    rng = random.Random(chk.seed)
    n = 400 if chk.tier == "quick" else 6000
    bad = {"reread": None, "contain": None, "order": None, "bounds": None}
    count = 0
    for text in programs(rng, n):
        try:
            forms = list(hy.read_many(text))
        except Exception:  # noqa: BLE001  (generated text may be ill-formed, e.g. `#^` at the end)
            continue

        def walk(m, parent):
            nonlocal count
            count += 1
            chk.case((text, m.start_line, m.start_column, m.end_line, m.end_column))
            if not (1 <= m.start_line <= m.end_line and m.start_column >= 1 and m.end_column >= 1) and bad["bounds"] is None:
                bad["bounds"] = (text, repr(m))
            reg = region(text, m)
            if reg is None:
                if bad["bounds"] is None:
                    bad["bounds"] = (text, repr(m)[:80], "region outside the text", (m.start_line, m.start_column, m.end_line, m.end_column))
                return
            pos = lambda x: (x.start_line, x.start_column, x.end_line, x.end_column)
            synthesized = parent is not None and pos(m) == pos(parent)
            # models the reader synthesises (the head symbol of ' ` ~ #* #** #^ sugar, the parts of a dotted identifier)
            # have no text of their own: they inherit their parent's region exactly and are exempt from the re-read clause
            if synthesized:
                return
            try:
                again = list(hy.read_many(reg))
                ok = len(again) == 1 and deep_eq(again[0], m)
            except Exception:  # noqa: BLE001
                ok = False
            if not ok and bad["reread"] is None:
                bad["reread"] = (text, reg, repr(m)[:80])
            if parent is not None:
                inside = (parent.start_line, parent.start_column) <= (m.start_line, m.start_column) and \
                    (m.end_line, m.end_column) <= (parent.end_line, parent.end_column)
                if not inside and bad["contain"] is None:
                    bad["contain"] = (text, repr(m)[:60], repr(parent)[:60])
            if isinstance(m, hm.Sequence) and not isinstance(m, (hm.FString, hm.FComponent)):
                prev = None
                for ch in m:
                    if isinstance(ch, hm.Object) and hasattr(ch, "_start_line") and pos(ch) != pos(m):
                        # sugar such as #^ reorders its two forms: (annotate target type) - order is only claimed
                        # for bracketed sequences
                        if prev is not None and text[0:0] == "" and not (isinstance(m, hm.Expression) and m and m[0] == hm.Symbol("annotate")):
                            if (prev.end_line, prev.end_column) >= (ch.start_line, ch.start_column) and region(text, m)[:1] in "([{#" \
                                    and bad["order"] is None and region(text, m)[:2] != "#^":
                                bad["order"] = (text, repr(prev)[:40], repr(ch)[:40])
                        prev = ch
                        walk(ch, m)
        for f in forms:
            walk(f, None)
    chk.extra["models_checked"] = count
    chk.ob("rtc/positions are 1-based with start <= end", bad["bounds"] is None, "rtc", "bounded", detail=str(bad["bounds"]),
           replay={"confirmed": bad["bounds"] is not None, "input": bad["bounds"]})
    chk.ob("rtc/the region [start, end] of every model re-reads to exactly one form equal to it (types and attributes included)",
           bad["reread"] is None, "rtc", "bounded", detail=str(bad["reread"]),
           replay={"confirmed": bad["reread"] is not None, "input": bad["reread"]})
    chk.ob("rtc/every child's region lies within its parent's region", bad["contain"] is None, "rtc", "bounded", detail=str(bad["contain"]),
           replay={"confirmed": bad["contain"] is not None, "input": bad["contain"]})
    chk.ob("rtc/children of bracketed sequences appear in source order without overlap", bad["order"] is None, "rtc", "bounded",
           detail=str(bad["order"]))


def capture_contract(chk):
    """fill_pos and the start capture in try_parse_one_form, on the real methods with a scripted position."""
    r = HyReader()
    r._set_source(io.StringIO("  (ab\n cd)"), "<c21>")
    m = r.try_parse_one_form()
    ok = (m.start_line, m.start_column, m.end_line, m.end_column) == (1, 3, 2, 4)
    chk.ob("contract/try_parse_one_form: start = position of the first character after leading space, end = position of the last character",
           ok, "structural", "proved", detail=str((m.start_line, m.start_column, m.end_line, m.end_column)))
    sym = hm.Symbol("x")
    r._pos = (7, 9)
    out = r.fill_pos(sym, (5, 2))
    chk.ob("contract/fill_pos sets start from its argument and end from the cursor", (out.start_line, out.start_column, out.end_line, out.end_column) == (5, 2, 7, 9),
           "structural", "proved")
    # freshness: position attributes are filled in only while unset (Object.replace), so a model object that two forms
    # shared would keep the first form's region
    shared = []
    for sugar in ("'", "`", "~", "~@", "#* ", "#** ", "#^ t "):
        a, b = list(hy.read_many(f"{sugar}x\n\n   {sugar}y"))
        ids_a = {id(n) for n in a} | {id(a)}
        if any(id(n) in ids_a for n in b) or a[0] is b[0]:
            shared.append(sugar)
        if (b[0].start_line, b[0].start_column) != (b.start_line, b.start_column):
            shared.append(sugar + " (head position)")
    chk.ob("contract/each sugared form gets fresh model objects: the synthesised head carries the region of its own form", not shared,
           "structural", "proved", detail=str(shared))
    # frame: _pos is assigned only in _set_source and getc
    import ast
    import glob
    import os
    from hv.core import REPO
    sites = set()
    for p in glob.glob(os.path.join(REPO, "hy", "**", "*.py"), recursive=True):
        for fn in ast.walk(ast.parse(open(p).read())):
            if isinstance(fn, ast.FunctionDef):
                for n in ast.walk(fn):
                    tg = n.targets if isinstance(n, ast.Assign) else [n.target] if isinstance(n, (ast.AugAssign, ast.AnnAssign)) else []
                    for t in tg:
                        for tt in ast.walk(t):
                            if isinstance(tt, ast.Attribute) and tt.attr == "_pos":
                                sites.add(f"{os.path.relpath(p, REPO)}::{fn.name}")
    chk.ob("frame/_pos is assigned only in Reader._set_source and Reader.getc", sites == {"hy/reader/reader.py::_set_source", "hy/reader/reader.py::getc"},
           "structural", "proved", detail=str(sorted(sites)))


def run(chk):
    targets.c21_getc(chk)
    capture_contract(chk)
    readback(chk)
    chk.fn("hy/reader/hy_reader.py::HyReader.fill_pos", "hy/reader/hy_reader.py::HyReader.try_parse_one_form (start/end capture)")
    chk.trust("contract of Reader.peekc", "z3", "pos_of(s) is defined by the three step equations (recursive definition over the text)")
    chk.bounds["read-back"] = "400 (quick) / 6000 (thorough) generated multi-line programs, depth <= 3"
    from hv.pyvc import engine
    chk.extra["smt"] = dict(engine.STATS)
    chk.sample({"obligation": "getc/a newline moves to (line + 1, 0) (path 3)"})


def replay(path):
    from hv.replay import replay_file
    return replay_file(path)
