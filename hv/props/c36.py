"""C36 macroexpand-1 expands one step and macroexpand reaches a fixpoint.

Run-time contracts on the REAL hy.macroexpand / hy.macroexpand-1 (hy/core/util.hy) and hy.macros.macroexpand
(hy/macros.py).  The macro environment consists of scripted, counting macros (every invocation is logged with its
arguments) forming chains  m1 -> (m2 ...) -> ... -> terminal form, placed in the module's `_hy_macros`, in the `macros`
argument (with a decoy of the same name in the module), in the core namespace (builtins._hy_macros) or in a module
reached by the one-shot `hy.R` syntax.  A specification function written from the docstrings of hy.macroexpand-1 /
hy.macroexpand, docs/syntax.rst ("Expressions") and the docstring of hy.macros.macroexpand says what each entry point must
return and which macros it must call with which arguments; the real functions are compared with it for every chain up to a
length bound x every kind of terminal form (exhaustive over the stated finite domains) and for longer random chains.
"""
import hv.symx.core  # noqa: F401  (puts /repo on sys.path, pre-imports hy)

import ast
import builtins
import gc
import itertools
import multiprocessing
import random
import sys
import types

import hy
import hy.macros as hmac
from hy.compiler import HyASTCompiler, Result
from hy.models import (Bytes, Complex, Dict, Expression, FComponent, Float, FString, Integer, Keyword, List, Object, Set,
                       String, Symbol, Tuple)
from hy.reader import mangle

META = {
    "engine": "rtc+ex",
    "level": "other",
    "technique": "run-time contract on the real hy.macroexpand, hy.macroexpand-1 and hy.macros.macroexpand: a specification "
                 "function (head naming per docs/syntax.rst, lookup order macros argument > module > core, one step / "
                 "fixpoint, compiler results leave the form as it was, as_model after each step) is compared with the real "
                 "functions in an environment of scripted counting macros forming chains of every length up to a bound x "
                 "every placement vector x every kind of terminal form (non-macro heads, non-symbol heads, empty "
                 "expression, non-Expression models, Python values, core model macros, every core result macro, scripted "
                 "macros returning Result/AST objects), with deep snapshots of the input (structure, brackets, position "
                 "attributes) before and after; plus longer random chains",
    "text": "Bounded stand-in. For every enumerated (chain, placement, terminal, argument list, position class) and each of "
            "eight entry points: macroexpand-1 / once=True calls exactly the first macro of the chain once, with the call's "
            "arguments as models, and returns as_model of its value; when the head names no macro (non-macro symbol, dotted "
            "name, non-symbol head, empty expression, non-Expression, Python value) the very same object comes back and no "
            "macro is called; macroexpand calls exactly the macros of the chain, in order, once each, and its result's head "
            "names no macro or names a macro that returns a compiler result, in which case the form before that step is "
            "returned (the same object when no step was taken); with result_ok=True the compiler result itself is returned; "
            "nested macro calls in argument position are never expanded; the input model is left as it was.",
    "note": "Level other: chains are bounded in length and the vocabularies are finite. Trusted: hy.as_model and hy.mangle "
            "(C32) inside the specification, the scripted macros as the macro environment. Known findings: expansion "
            "writes the call form's position attributes into argument atoms of the input that have none; hy.macroexpand of "
            "a (py ...)/(pys ...) form raises instead of returning the form. Observation (not a clause): expanding a core "
            "result macro with hy.macroexpand runs its compile-time effects (defmacro/require define macros in the module).",
}

POS_ATTRS = ("_start_line", "_end_line", "_start_column", "_end_column")
BY = "hv-by"                      # a bystander macro: defined in the module, only ever mentioned in non-head positions
REQ_MOD = "hv_c36_req"            # module reached through hy.R
REQ_PKG = "hv_c36_pkg.sub"        # ... written hv_c36_pkg/sub in the hy.R form


def S(x):
    return Symbol(x)


def E(*xs):
    return Expression(xs)


def L(*xs):
    return List(xs)


# ------------------------------------------------------------------------------------------------------------------
# snapshots and deep comparison
# ------------------------------------------------------------------------------------------------------------------
def _base_repr(x):
    for b in type(x).__mro__:
        if b is not object and not issubclass(b, Object) and b not in (tuple, list):
            return b.__repr__(x)
    return ""


def snap(x, positions=True, _depth=0):
    """Deep snapshot: type, value, every instance attribute (brackets, conversion, name, positions, ...), children."""
    if _depth > 60:
        return "<deep>"
    attrs = ()
    if isinstance(x, Object):
        attrs = tuple(sorted((k, repr(v) if not isinstance(v, Object) else snap(v, positions, _depth + 1))
                             for k, v in vars(x).items()
                             if k != "reader" and (positions or k not in POS_ATTRS + ("filename", "source"))))
    if isinstance(x, (tuple, list)):
        return (type(x).__name__, attrs, tuple(snap(c, positions, _depth + 1) for c in x))
    if isinstance(x, (set, frozenset)):
        return (type(x).__name__, attrs, tuple(sorted(map(repr, x))))
    if isinstance(x, dict):
        return (type(x).__name__, attrs, tuple((snap(k, positions, _depth + 1), snap(v, positions, _depth + 1)) for k, v in x.items()))
    if isinstance(x, Object):
        return (type(x).__name__, attrs, _base_repr(x))
    if isinstance(x, (Result, ast.AST)):
        return (type(x).__name__, (), "<compiler result>")
    return (type(x).__name__, (), repr(x))


def same(a, b):
    """Type-strict deep equality of models ignoring positions."""
    return snap(a, positions=False) == snap(b, positions=False)


def atoms(x, out=None):
    out = [] if out is None else out
    if isinstance(x, (tuple, list)):
        for c in x:
            atoms(c, out)
    elif isinstance(x, Object):
        out.append(x)
    return out


def nodes(x, out=None):
    out = [] if out is None else out
    if isinstance(x, Object):
        out.append(x)
    if isinstance(x, (tuple, list)):
        for c in x:
            nodes(c, out)
    return out


def show(x):
    try:
        return hy.repr(x) if isinstance(x, Object) else repr(x)
    except Exception:  # noqa: BLE001
        return repr(x)


POS_CLASSES = ("all", "none", "inner-only", "outer-only", "outer-partial")


def set_positions(tree, cls):
    """Remove every position attribute, then set them according to the class."""
    if not isinstance(tree, Object):
        return tree
    ns = nodes(tree)
    for n in ns:
        for a in POS_ATTRS:
            if a in vars(n):
                delattr(n, a)
    for i, n in enumerate(ns):
        root = n is tree
        if cls == "all" or (cls == "inner-only" and not root) or (cls == "outer-only" and root):
            n._start_line, n._end_line, n._start_column, n._end_column = 3 + i, 4 + i, 2 + 2 * i, 9 + 2 * i
        elif cls == "outer-partial" and root:
            n._start_line, n._end_line = 11, 12            # lines only (columns unset)
    return tree


# ------------------------------------------------------------------------------------------------------------------
# vocabulary: argument lists, terminal forms, chain elements
# ------------------------------------------------------------------------------------------------------------------
def args_of(kind):
    if kind == "none":
        return []
    if kind == "atoms":
        return [S("a"), Integer(2)]
    if kind == "nested-calls":
        return [String("s", brackets="x"), Keyword("k"), L(S("b"), E(S(BY), S("c"))), E(S(BY), S("a")),
                E(S("unpack-iterable"), S("xs"))]
    if kind == "rich":
        return [FString([String("t"), FComponent([S("v"), FString([String(">3")])], conversion="r")]),
                Dict([S("k"), Integer(1)]), Float(1.5), Bytes(b"b"), Tuple([S("u")]), Set([Integer(1)]), Complex(1j),
                E()]
    if kind == "python-values":      # an Expression may hold plain Python values; macros still receive models
        return [1, "s", None, True, [S("a"), 2], 2.5, (S("t"),)]
    raise KeyError(kind)


ARG_KINDS = ("none", "atoms", "nested-calls", "rich", "python-values")

# one well-formed call per core result macro (fixed forms: compiling them may expand nested macro calls, so they contain none)
CORE_SAMPLES = {
    "and": "(and a b)", "annotate": "(annotate x int)", "assert": "(assert a)", "await": "(await x)", "bnot": "(bnot a)",
    "break": "(break)", "chainc": "(chainc a < b)", "continue": "(continue)", "cut": "(cut a 1)",
    "defclass": "(defclass C [] (setv a 1))", "defmacro": "(defmacro hv-c36-mm [] 1)", "defn": "(defn f [x] x)",
    "deftype": "(deftype T int)", "del": "(del x)", "dfor": "(dfor x xs x x)", "do": "(do a b)", "do-mac": "(do-mac 1)",
    "eval-and-compile": "(eval-and-compile 1)", "eval-when-compile": "(eval-when-compile 1)", "fn": "(fn [x] x)",
    "for": "(for [x xs] x)", "get": "(get a 1)", "gfor": "(gfor x xs x)", "global": "(global gx)", "&": "(& a b)",
    "&=": "(&= x 1)", "*": "(* a b)", "**": "(** a b)", "**=": "(**= x 1)", "*=": "(*= x 1)", "^": "(^ a b)",
    "^=": "(^= x 1)", "@": "(@ a b)", "@=": "(@= x 1)", "=": "(= a b)", "!=": "(!= a b)", ".": "(. a b)", ">": "(> a b)",
    ">=": "(>= a b)", ">>": "(>> a b)", ">>=": "(>>= x 1)", "-": "(- a b)", "-=": "(-= x 1)", "<": "(< a b)",
    "<=": "(<= a b)", "<<": "(<< a b)", "<<=": "(<<= x 1)", "%": "(% a b)", "%=": "(%= x 1)", "+": "(+ a b)",
    "+=": "(+= x 1)", "/": "(/ a b)", "/=": "(/= x 1)", "//": "(// a b)", "//=": "(//= x 1)", "|": "(| a b)",
    "|=": "(|= x 1)", "if": "(if a b c)", "import": "(import os)", "in": "(in a b)", "is": "(is a b)",
    "is-not": "(is-not a b)", "let": "(let [x 1] x)", "lfor": "(lfor x xs x)", "match": "(match x 1 2)",
    "nonlocal": "(nonlocal nx)", "not": "(not a)", "not-in": "(not-in a b)", "or": "(or a b)",
    "pragma": "(pragma :warn-on-core-shadow False)", "py": "(py \"1\")", "pys": "(pys \"x = 1\")",
    "quasiquote": "(quasiquote (a (unquote b)))", "quote": "(quote x)", "raise": "(raise E)",
    "require": "(require hy.core.macros)", "return": "(return 1)", "setv": "(setv x 1)", "setx": "(setx x 1)",
    "sfor": "(sfor x xs x)", "try": "(try a (except [E] b))", "unpack-iterable": "(unpack-iterable x)",
"while": "(while a b)", "with": "(with [f (g)] f)", "yield": "(yield x)",
}
# core macros that exist only to report a misplaced form: calling them is an error by design, not an expansion
CORE_ERROR_ONLY = {"else", "except", "finally", "except*", "unquote", "unquote-splice", "unpack-mapping"}
# core macros written in Hy that return models, with their documented expansions (docstrings in hy/core/macros.hy)
CORE_MODEL_NAMES = {"when", "cond", "local-macros", "defreader", "get-macro", "export"}
CORE_FN_FILE = "hy.macros"        # pattern_macro wrappers (hy/core/result_macros.py) are created in hy/macros.py


def _cond_spec(args):
    return E(S("if"), args[0], args[1], _cond_spec(args[2:])) if args else S("None")


CORE_MODEL_SPEC = {
    "when": lambda args: E(S("if"), args[0], E(S("do"), *args[1:]), S("None")),     # "Shorthand for (if test (do ...) None)"
    "cond": _cond_spec,                                                            # nested ifs, None when nothing matches
    "local_macros": lambda args: Dict(),                                           # local macros are invisible to hy.macroexpand
}

NATIVES = {
    "py-int": lambda: 3, "py-str": lambda: "text", "py-none": lambda: None, "py-true": lambda: True,
    "py-list": lambda: [S(BY), 1], "py-tuple": lambda: (1, "x"), "py-dict": lambda: {"k": 1}, "py-float": lambda: 2.5,
    "py-bytes": lambda: b"b", "py-complex": lambda: 2j, "py-set": lambda: {1}, "py-empty-list": lambda: [],
    "py-false": lambda: False, "py-zero": lambda: 0, "py-empty-str": lambda: "",
}

# name -> (class, uses-args, builder(args) -> value returned by the last macro of the chain / the input when the chain is empty)
TERMINALS = {
    "fn-call": ("non-macro head", lambda a: E(S("f"), *a)),
    "fn-call/nested macro calls": ("non-macro head", lambda a: E(S("f"), E(S(BY), *a), L(E(S(BY), S("q"))), E(S("when"), S("c"), S("d")), *a)),
    "dotted-name head": ("non-macro head", lambda a: E(E(S("."), S("obj"), S("attr")), *a)),
    "method-call head": ("non-macro head", lambda a: E(E(S("."), S("None"), S("meth")), S("o"), *a)),
    "hy.I head": ("non-macro head", lambda a: E(E(S("."), S("hy"), S("I"), S("math"), S("sqrt")), *a)),
    "unmangled look-alike": ("non-macro head", lambda a: E(S("hv-by-"), *a)),
    "integer head": ("non-symbol head", lambda a: E(Integer(1), *a)),
    "string head": ("non-symbol head", lambda a: E(String(BY), *a)),
    "list head": ("non-symbol head", lambda a: E(L(S(BY)), *a)),
    "keyword head": ("non-symbol head", lambda a: E(Keyword(BY), *a)),
    "call head": ("non-symbol head", lambda a: E(E(S("f")), *a)),
    "(do macro) head": ("non-symbol head", lambda a: E(E(S("do"), S(BY)), *a)),
    "macro-call head": ("non-symbol head", lambda a: E(E(S(BY), S("x")), *a)),
    "dotted head with a non-symbol part": ("non-symbol head", lambda a: E(E(S("."), S(BY), L(Integer(0))), *a)),
    "empty expression": ("empty expression", lambda a: E()),
    "symbol": ("non-Expression model", lambda a: S(BY)),
    "integer": ("non-Expression model", lambda a: Integer(7)),
    "float": ("non-Expression model", lambda a: Float(0.0)),
    "bracket string": ("non-Expression model", lambda a: String("s", brackets="q")),
    "bytes": ("non-Expression model", lambda a: Bytes(b"")),
    "keyword": ("non-Expression model", lambda a: Keyword("k")),
    "list that looks like a call": ("non-Expression model", lambda a: L(S(BY), *a)),
    "tuple": ("non-Expression model", lambda a: Tuple([S(BY), *a])),
    "set": ("non-Expression model", lambda a: Set([S(BY)])),
    "dict": ("non-Expression model", lambda a: Dict([S(BY), E(S(BY))])),
    "fstring": ("non-Expression model", lambda a: FString([String("x"), FComponent([E(S(BY))])], brackets="f")),
    "complex": ("non-Expression model", lambda a: Complex(1j)),
    # (fixed forms: the fixpoint search calls the core macro `if` they expand to, which compiles its arguments)
    "core when": ("core model macro", lambda a: E(S("when"), S("c"), S("d"), E(S("f"), Integer(1)))),
    "core when, no body": ("core model macro", lambda a: E(S("when"), S("c"))),
    "core cond": ("core model macro", lambda a: E(S("cond"), S("c1"), S("r1"), S("c2"), E(S("f"), S("r2")))),
    "core cond, empty": ("core model macro", lambda a: E(S("cond"))),
    "core local-macros": ("core model macro", lambda a: E(S("local-macros"))),
    "+ with unpack-iterable": ("pyops shadow", lambda a: E(S("+"), E(S("unpack-iterable"), S("xs")), *a)),
    "scripted core macro returning Result": ("scripted compiler result", lambda a: E(S("hv-c36-core-result"), *a)),
    "scripted core macro returning an ast.expr": ("scripted compiler result", lambda a: E(S("hv-c36-core-astexpr"), *a)),
    "scripted core macro returning an ast.stmt": ("scripted compiler result", lambda a: E(S("hv-c36-core-aststmt"), *a)),
    "scripted module macro returning Result": ("scripted compiler result", lambda a: E(S("hv-c36-mod-result"), *a)),
}
for _k, _f in NATIVES.items():
    TERMINALS[_k] = ("Python value", (lambda f: lambda a: f())(_f))
for _k, _src in CORE_SAMPLES.items():
    TERMINALS["core " + _k] = ("core result macro: py, pys" if _k in ("py", "pys") else "core result macro",
                              (lambda s: lambda a: hy.read(s))(_src))
# terminals whose compile-time effects change the macro tables (documented effects of the core macro itself)
SIDE_EFFECT_TERMINALS = {"core defmacro", "core require"}

# chain element: (name, place, conv, xform); a dotted name (what `require ... :as p` makes) is written (. p q), as the reader does
NAMES = ("m1", "m2", "m3", "m-b?", "p.q", "when", "if", "m4", "m5", "m6", "m7", "m8", "m9", "m10", "m11", "m12")
PLACES = ("module", "arg", "arg+decoy")
CONVS = ("plain", "compiler")
XFORMS = ("pass", "drop", "native", "nest")


def ref_form(elem):
    name, place, _, _ = elem
    if place == "hyR":
        return E(S("."), S("hy"), S("R"), S(REQ_MOD), S(name))
    if place == "hyR/slash":
        return E(S("."), S("hy"), S("R"), S(REQ_PKG.replace(".", "/")), S(name))
    if "." in name:
        return E(S("."), *map(S, name.split(".")))
    return S(name)


def xform_args(xf, args):
    args = list(args)
    if xf == "pass":
        return args
    if xf == "drop":
        return []
    if xf == "native":
        return args + [7, "s", None, True, [1, S("z")], 2.5]
    if xf == "nest":      # the arguments travel inside a macro call in argument position
        return [E(S(BY), *args), L(E(S("when"), S("t")))]
    raise KeyError(xf)


# ------------------------------------------------------------------------------------------------------------------
# the macro environment (real tables + the specification's own tables)
# ------------------------------------------------------------------------------------------------------------------
class SpecMacro:
    __slots__ = ("label", "conv", "body", "kind")

    def __init__(self, label, conv, body, kind="model"):
        self.label, self.conv, self.body, self.kind = label, conv, body, kind


CORE_KEYS = None      # the core namespace as it is before any scripted macro is installed


def core_classes():
    """mangled name -> 'result' | 'model' for the real core macros (by the module that defines them)."""
    out = {}
    for k, f in builtins._hy_macros.items():
        out[k] = "model" if f.__globals__.get("__name__") == "hy.core.macros" else "result"
    return out


class Env:
    """One macro environment for one run: real tables and the specification's view of them."""

    def __init__(self, case):
        self.case = case
        self.log = []
        self.results = {}                     # label -> the compiler-result object the scripted macro returns
        self.module = types.ModuleType("hv_c36_env")
        self.module._hy_macros = {}
        self.module._hy_reader_macros = {}                # what HyASTCompiler.__init__ prepares in any module it is given
        self.module.hy = hy
        self.macros_arg = None
        self.spec = {"arg": {}, "module": {}, "core": {}, "hyR": {}}
        self._core_added = []
        self._mods_added = []
        chain, terminal = case["chain"], case["terminal"]
        # bystander and the scripted result-returning macros
        self._install("module", BY, "plain", lambda args: E(S("bystander-was-expanded")), label="bystander " + BY)
        self._install("core", "hv-c36-core-result", "compiler", None, kind="result", label="core-result", mk=lambda: Result())
        self._install("core", "hv-c36-core-astexpr", "plain", None, kind="result", label="core-astexpr",
                      mk=lambda: ast.Name(id="x", ctx=ast.Load()))
        self._install("core", "hv-c36-core-aststmt", "compiler", None, kind="result", label="core-aststmt", mk=lambda: ast.Pass())
        self._install("module", "hv-c36-mod-result", "plain", None, kind="result", label="mod-result", mk=lambda: Result())
        tbuild = TERMINALS[terminal][1]
        for i, elem in enumerate(chain):
            name, place, conv, xf = elem
            nxt = chain[i + 1] if i + 1 < len(chain) else None

            def body(args, xf=xf, nxt=nxt):
                na = xform_args(xf, args)
                return E(ref_form(nxt), *na) if nxt is not None else tbuild(na)
            label = f"{i}:{name}"
            if place == "arg+decoy":
                self._install("module", name, "plain", lambda args: E(S("decoy-was-chosen")), label="decoy " + label)
                self._install("arg", name, conv, body, label=label)
            else:
                self._install(place, name, conv, body, label=label)

    def _install(self, place, name, conv, body, kind="model", label=None, mk=None):
        env = self
        if kind == "result":
            obj = mk()
            self.results[label] = obj

            def body(args, obj=obj):  # noqa: F811
                return obj
        if conv == "plain":
            def f(*args):
                env.log.append((label, args, None))
                return body(args)
        else:
            def f(_hy_compiler, *args):
                env.log.append((label, args, _hy_compiler))
                return body(args)
        key = mangle(name)
        sm = SpecMacro(label, conv, body, kind)
        if place == "module":
            self.module._hy_macros[key] = f
            self.spec["module"][key] = sm
        elif place == "arg":
            if self.macros_arg is None:
                self.macros_arg = {}
            self.macros_arg[key] = f
            self.spec["arg"][key] = sm
        elif place == "core":
            builtins._hy_macros[key] = f
            self._core_added.append(key)
            self.spec["core"][key] = sm
        elif place in ("hyR", "hyR/slash"):
            modname = REQ_MOD if place == "hyR" else REQ_PKG
            m = sys.modules.get(modname)
            if m is None or modname not in self._mods_added:
                m = types.ModuleType(modname)
                m._hy_macros = {}
                sys.modules[modname] = m
                self._mods_added.append(modname)
            m._hy_macros[key] = f
            self.spec["hyR"][(modname, key)] = sm
        else:
            raise KeyError(place)

    def tables(self):
        """Identity snapshot of the three tables (to check that the one-shot require brings nothing into scope)."""
        return (tuple((k, id(v)) for k, v in self.module._hy_macros.items()),
                None if self.macros_arg is None else tuple((k, id(v)) for k, v in self.macros_arg.items()),
                tuple(sorted(k for k in builtins._hy_macros if k not in CORE_KEYS and k not in self._core_added)),
                tuple(sorted(k for k in vars(self.module) if not k.startswith("__"))))

    def close(self):
        for k in self._core_added:
            builtins._hy_macros.pop(k, None)
        for m in self._mods_added:
            sys.modules.pop(m, None)


def build_input(case):
    chain = case["chain"]
    a = args_of(case["args"])
    if chain:
        tree = E(ref_form(chain[0]), *a)
    else:
        tree = TERMINALS[case["terminal"]][1](a)
    return set_positions(tree, case["pos"])


# ------------------------------------------------------------------------------------------------------------------
# the specification (docstrings of hy.macroexpand-1 / hy.macroexpand / hy.macros.macroexpand, docs/syntax.rst)
# ------------------------------------------------------------------------------------------------------------------
def head_key(tree):
    """The macro name a form's head stands for, or None: a symbol, or a dotted name (. a b ...) of symbols."""
    if not (isinstance(tree, Expression) and len(tree) > 0):
        return None
    h = tree[0]
    if isinstance(h, Symbol):
        return mangle(str(h))                           # mangle keeps the dots of a dotted name
    if isinstance(h, Expression) and len(h) > 2 and h[0] == S(".") and all(isinstance(x, Symbol) for x in h):
        return ".".join(mangle(str(x)) for x in h[1:])
    return None


def spec_lookup(env, key, core):
    """First namespace holding the name: `macros` argument, module macros, core macros (local macros are invisible)."""
    if key.startswith("hy.R."):
        modw, _, name = key[len("hy.R."):].partition(".")
        modname = mangle(hy.unmangle(modw).replace("/", "."))     # "dots in the module name must be replaced with slashes"
        return env.spec["hyR"].get((modname, name))
    for t in ("arg", "module", "core"):
        if key in env.spec[t]:
            return env.spec[t][key]
    if key in core:
        return ("core", key, core[key])
    return None


def spec_expand(env, tree, once, core, wrong_once=False):
    """-> dict(value, steps=[(label, args)], unchanged (bool: no model-producing step was taken), stopped_at_result
    (label or None), mutable_atoms (input atoms that reappear in the first expansion), undecided (reason or None))"""
    steps, nsteps, stopped, first_value, touched_core = [], 0, None, None, False
    cur = tree
    while True:
        key = head_key(cur)
        if key is None:
            break
        m = spec_lookup(env, key, core)
        if m is None:
            break
        args = [hy.as_model(x) for x in cur[1:]]
        if isinstance(m, tuple):                       # a real core macro
            _, ckey, cls = m
            touched_core = True
            if cls == "result":
                shadow = any(isinstance(x, Expression) and len(x) > 0 and x[0] == S("unpack-iterable") for x in args)
                if shadow and hasattr(hy.pyops, ckey):  # docs/syntax.rst: (+ #* xs) is understood as (hy.pyops.+ #* xs)
                    val = E(E(S("."), S("hy"), S("pyops"), S(str(cur[0]))), *args)
                else:
                    stopped = "core " + ckey
                    break
            elif ckey in CORE_MODEL_SPEC:
                val = CORE_MODEL_SPEC[ckey](args)
            else:
                return {"undecided": f"no documented expansion on file for core macro {ckey}"}
        else:
            steps.append((m.label, args))
            if m.kind == "result":
                stopped = m.label
                break
            val = m.body(tuple(args))
        cur = hy.as_model(val)
        nsteps += 1
        if nsteps == 1:
            first_value = cur
        if once and not wrong_once:
            break
        if nsteps > 200:
            return {"undecided": "specification did not terminate"}
    shared = []
    if first_value is not None and isinstance(tree, Object):
        mine = {id(x): x for x in atoms(tree)}
        shared = [x for x in atoms(first_value) if id(x) in mine]
    return {"value": cur, "steps": steps, "unchanged": nsteps == 0, "stopped": stopped, "shared": shared, "undecided": None,
            "nsteps": nsteps, "touched_core": touched_core}


# ------------------------------------------------------------------------------------------------------------------
# entry points (the real functions)
# ------------------------------------------------------------------------------------------------------------------
def _e_hy1(t, env):
    return hy.macroexpand_1(t, env.module, env.macros_arg)


def _e_hy(t, env):
    return hy.macroexpand(t, env.module, env.macros_arg)


def _mk_low(once, result_ok, with_compiler=True):
    def run(t, env):
        # a compiler as hy_compile makes it (with a file name), holding the `macros` argument as its extra macros
        comp = HyASTCompiler(env.module, filename="<hv-c36>", extra_macros=env.macros_arg) if with_compiler else None
        return hmac.macroexpand(t, env.module, comp, once=once, result_ok=result_ok)
    return run


# name -> (callable, once, result_ok, compiler given)
ENTRIES = {
    "hy.macroexpand-1": (_e_hy1, True, False, True),
    "hy.macroexpand": (_e_hy, False, False, True),
    "hy.macros.macroexpand(once, result_ok=False)": (_mk_low(True, False), True, False, True),
    "hy.macros.macroexpand(result_ok=False)": (_mk_low(False, False), False, False, True),
    "hy.macros.macroexpand(once, result_ok=True)": (_mk_low(True, True), True, True, True),
    "hy.macros.macroexpand(result_ok=True)": (_mk_low(False, True), False, True, True),
    "hy.macros.macroexpand(once, no compiler)": (_mk_low(True, False, False), True, False, False),
    "hy.macros.macroexpand(no compiler)": (_mk_low(False, False, False), False, False, False),
}


def applicable(entry, case, sp):
    """Without a compiler object there is no `macros` argument and core macros that need the compiler cannot run."""
    if ENTRIES[entry][3]:
        return True
    if any(e[1] in ("arg", "arg+decoy") for e in case["chain"]):
        return False
    if sp.get("undecided"):
        return False
    return not sp["touched_core"]                       # the real core macros are called with the compiler


# ------------------------------------------------------------------------------------------------------------------
# one case x one entry point -> clause verdicts
# ------------------------------------------------------------------------------------------------------------------
def chain_class(case):
    n = len(case["chain"])
    return "chain=0" if n == 0 else "chain=1" if n == 1 else "chain>=2"


def describe(case):
    ch = " -> ".join(f"{show(ref_form(e))}[{e[1]},{e[2]},{e[3]}]" for e in case["chain"]) or "(no chain)"
    return f"chain {ch} -> terminal {case['terminal']!r}; args={case['args']}; positions={case['pos']}"


def run_one(case, entry, core, mutate_probe=False, once_probe=False):
    """-> list of (clause-name, ok, detail) ; plus canary observations in a dict.  Details are built only for clauses
    that do not hold."""
    fn, once, result_ok, _ = ENTRIES[entry]
    out, can = [], {}
    env = Env(case)
    try:
        twin = build_input(case)
        sp = spec_expand(env, twin, once, core)
        if not applicable(entry, case, sp):
            return None, can
        tcls = TERMINALS[case["terminal"]][0]
        if sp.get("undecided"):
            return [(f"result/{entry}/{tcls}", None, sp["undecided"])], can
        inp = build_input(case)
        before, before_np = snap(inp), snap(inp, positions=False)
        tables_before = env.tables()
        del env.log[:]
        exc = res = None
        try:
            res = fn(inp, env)
        except Exception as e:  # noqa: BLE001
            exc = e
        log = list(env.log)
        after, after_np = snap(inp), snap(inp, positions=False)
        if mutate_probe:                         # canary support: a deliberate write into a nested atom must be seen
            ats = atoms(inp)
            if ats:
                ats[-1]._end_line = 424242
                can["probe-seen"] = snap(inp) != after
        cc = chain_class(case)

        def where():
            return describe(case)

        # ---- result ------------------------------------------------------------------------------------------------
        name = f"result/{entry}/{tcls}"
        if exc is not None:
            out.append((name, False, lambda: f"{where()}: raised {type(exc).__name__}: {str(exc)[:200]}"))
        else:
            stopped = sp["stopped"]
            if stopped and result_ok:
                # hy.macros.macroexpand docstring: with result_ok the compiler result is returned
                if stopped in env.results:
                    ok = res is env.results[stopped]
                else:
                    ok = isinstance(res, (Result, ast.AST))
                def det():
                    return f"{where()}: returned {type(res).__name__}; expected the compiler result of {stopped}"
            else:
                ok = isinstance(res, Object) == isinstance(sp["value"], Object) and same(res, sp["value"])
                def det():
                    return f"{where()}: returned {show(res)}; expected {show(sp['value'])}"
                if once_probe and once and len(case["chain"]) >= 2:
                    # must-fail canary: the wrong clause "macroexpand-1 expands to the fixpoint" on the same observation
                    wrong = spec_expand(Env0(env), build_input(case), once, core, wrong_once=True)["value"]
                    can["wrong-once"] = ok != same(res, wrong)     # the two clauses disagree on this observation
            out.append((name, ok, det))
            # the result's head names no model-producing macro (fixpoint), stated on the real result with the spec's lookup
            if not once and not (stopped and result_ok):
                k = head_key(res) if isinstance(res, Object) else None
                m = spec_lookup(env, k, core) if k is not None else None
                is_model_macro = (isinstance(m, SpecMacro) and m.kind == "model") or \
                    (isinstance(m, tuple) and m[2] == "model")
                out.append((f"fixpoint/{entry}/{cc}", not is_model_macro,
                            lambda: f"{where()}: the head of the result {show(res)} still names a macro that returns a model"))
            # ---- identity ------------------------------------------------------------------------------------------
            if sp["unchanged"] and not (stopped and result_ok):
                idc = ("head is a macro returning a compiler result" if stopped else
                       "not an Expression" if not isinstance(inp, Expression) else "head names no macro")
                out.append((f"identity/{entry}/{idc}", res is inp,
                            lambda: f"{where()}: returned {'an equal copy' if same(res, inp) else show(res)} instead of the very "
                                    "object passed in"))
        # ---- steps --------------------------------------------------------------------------------------------------
        want = sp["steps"]
        ok = len(log) == len(want) and all(a[0] == b[0] and len(a[1]) == len(b[1]) and all(same(x, y) for x, y in zip(a[1], b[1]))
                                           for a, b in zip(log, want))
        if exc is None or len(log) > len(want):
            out.append((f"steps/{entry}/{cc}", ok,
                        lambda: f"{where()}: macros called {[(l, [show(x) for x in a]) for l, a, _ in log]}; expected "
                                f"{[(l, [show(x) for x in a]) for l, a in want]}"))
        # the compiler argument: macros whose first parameter is _hy_compiler get a compiler (when one exists)
        bad = [l for l, _, c in log if c is not None and not isinstance(c, HyASTCompiler)]
        if ENTRIES[entry][3] and any(c is not None for _, _, c in log):
            out.append((f"compiler-argument/{entry}", not bad, lambda: f"{where()}: {bad} received a non-compiler first argument"))
        # ---- the input is not mutated ---------------------------------------------------------------------------------
        out.append((f"no-mutation/structure, values, brackets/{entry}", before_np == after_np,
                    lambda: f"{where()}: input changed from {before_np} to {after_np}"))
        root_attrs = [a for a in POS_ATTRS if isinstance(twin, Object) and a in vars(twin)]
        cell = ("arguments without positions under a positioned call, returned by the first expansion"
                if any(a not in vars(x) for x in sp["shared"] for a in root_attrs) else "other inputs")
        if (not case["chain"] and sp["unchanged"] and (sp["stopped"] or "").startswith("core ") and
                any(a not in vars(x) for x in atoms(twin) for a in root_attrs)):
            # the input itself is handed to a real core result macro: one obligation per macro (all entry points together)
            entry_cell = f"core result macro {case['terminal'][5:]} on a positioned call whose parts lack positions"
        else:
            entry_cell = f"{entry}/{cell}"
        def det_pos():
            changed = [(show(x), sorted(set(vars(x)) & set(POS_ATTRS))) for x in nodes(inp)]
            return f"{where()}: position attributes of the input after the call: {changed[:6]}"
        out.append((f"no-mutation/position attributes/{entry_cell}", before == after or before_np != after_np, det_pos))
        # ---- hy.R brings nothing into scope; the tables are left alone ---------------------------------------------------
        if case["terminal"] not in SIDE_EFFECT_TERMINALS:
            uses_r = any(e[1].startswith("hyR") for e in case["chain"])
            tables_after = env.tables()
            out.append((f"tables/{entry}/{'one-shot hy.R brings nothing into scope' if uses_r else 'macro tables are not modified'}",
                        tables_after == tables_before, lambda: f"{where()}: tables before {tables_before} after {tables_after}"))
        return [(n, ok, (d() if callable(d) else d) if ok is not True else None) for n, ok, d in out], can
    finally:
        env.close()


class Env0:
    """A read-only view of an Env's specification tables (for the deliberately wrong clause of the canary)."""

    def __init__(self, env):
        self.spec = env.spec


# ------------------------------------------------------------------------------------------------------------------
# enumerations
# ------------------------------------------------------------------------------------------------------------------
def rot(seq, i):
    return seq[i % len(seq)]


def domain_chains(maxlen):
    """D1: every chain length 0..maxlen x every placement vector x every terminal; the other attributes of the chain
    elements (calling convention, argument transform, name), the argument list and the position class
    rotate with the case index so that every value occurs with every terminal class."""
    cases, i = [], 0
    for n in range(0, maxlen + 1):
        for places in itertools.product(PLACES, repeat=n):
            for t in TERMINALS:
                chain = []
                for j, pl in enumerate(places):
                    name = rot(("m1", "m2", "m3", "m4"), j) if (i + j) % 5 else rot(("m-b?", "p.q", "when", "if"), i + j)
                    if name in [c[0] for c in chain]:
                        name = f"m{5 + j}"
                    chain.append((name, pl, rot(CONVS, i + j), rot(XFORMS, i // 2 + j)))
                cases.append({"chain": chain, "terminal": t, "args": rot(ARG_KINDS, i), "pos": rot(POS_CLASSES, i // 3)})
                i += 1
    return cases


def domain_elements(tier):
    """D2: every combination of the attributes of the chain elements for chains of length 1 and 2 (names x placement
    incl. core and hy.R x calling convention x argument transform) x argument lists x position
    classes, over a small set of terminals."""
    terms = ("fn-call", "core if", "core when", "py-list", "empty expression", "scripted core macro returning Result")
    names1 = ("m1", "m-b?", "p.q", "when", "if")
    places1 = PLACES + ("core", "hyR", "hyR/slash")
    cases = []
    quick = tier != "thorough"
    aks = ("atoms", "nested-calls") if quick else ARG_KINDS
    poss = ("all", "none", "outer-only") if quick else POS_CLASSES
    for name, pl, conv, xf, ak, pos in itertools.product(names1, places1, CONVS, XFORMS, aks, poss):
        if pl == "core" and name in ("when", "if"):
            continue                                  # the real core macro of that name stays where it is
        if pl.startswith("hyR") and "." in name:
            continue
        t = rot(terms, len(cases))
        cases.append({"chain": [(name if pl != "core" else "hv-c36-c-" + name.replace(".", "-"), pl, conv, xf)], "terminal": t,
                      "args": ak, "pos": pos})
    # length 2: both elements vary over placement x transform x convention; names fixed
    for (p1, x1, c1), (p2, x2, c2) in itertools.product(itertools.product(places1, XFORMS, CONVS), repeat=2):
        if quick and c1 != c2:
            continue
        for t in terms if not quick else (rot(terms, len(cases)),):
            n1 = "hv-c36-c-1" if p1 == "core" else "m1"
            n2 = "hv-c36-c-2" if p2 == "core" else "p.q" if not p2.startswith("hyR") else "m2"
            i = len(cases)
            cases.append({"chain": [(n1, p1, c1, x1), (n2, p2, c2, x2)], "terminal": t,
                          "args": rot(ARG_KINDS[1:], i), "pos": rot(POS_CLASSES, i // 2)})
    return cases


def domain_positions(tier):
    """D3: every position class x every argument list x every argument transform x chain length 0..2 x terminals that
    do / do not give the arguments back."""
    cases = []
    terms = ("fn-call", "core when", "list that looks like a call", "integer", "core do", "fn-call/nested macro calls")
    for pos, ak, xf, n, t in itertools.product(POS_CLASSES, ARG_KINDS, XFORMS, (0, 1, 2), terms if tier == "thorough" else terms[:3]):
        chain = [(f"m{j + 1}", "module", "plain", xf) for j in range(n)]
        cases.append({"chain": chain, "terminal": t, "args": ak, "pos": pos})
    # every terminal x every position class, as the input itself and behind one pass-through macro
    for t, pos, n in itertools.product(TERMINALS, POS_CLASSES, (0, 1)):
        cases.append({"chain": [("m1", "module", "plain", "pass")] * n, "terminal": t, "args": "atoms", "pos": pos})
    return cases


def random_cases(n, maxlen, seed):
    rng = random.Random(7919 * (seed + 1) + 36)
    tnames = [t for t in TERMINALS if t not in ("core py", "core pys")]     # decided completely in D1
    cases = []
    # fixed anchors first, so that every obligation of the random part exists whatever the seed
    for pos, ln, t in itertools.product(POS_CLASSES, (0, 1, 3), ("fn-call", "core if", "integer", "py-int", "core when",
                                                                 "scripted core macro returning Result")):
        chain = [(f"m{j + 1}", rot(PLACES, j), rot(CONVS, j + 1), "pass") for j in range(ln)]
        cases.append({"chain": chain, "terminal": t, "args": "atoms", "pos": pos})
    for _ in range(n):
        ln = rng.randint(0, maxlen)
        term = rng.choice(tnames)
        if ln == 0 and TERMINALS[term][0] == "core result macro":
            ln = 1          # a bare call of each core result macro x every position class is enumerated in D3
        chain, used = [], set()
        for j in range(ln):
            pl = rng.choice(PLACES + ("core", "hyR", "hyR/slash"))
            name = rng.choice(NAMES)
            if pl == "core":
                name = f"hv-c36-c-{j}"
            elif pl.startswith("hyR") and "." in name:
                name = f"r{j}"
            while (name, pl.startswith("hyR")) in used:
                name = f"{name}x"
            used.add((name, pl.startswith("hyR")))
            chain.append((name, pl, rng.choice(CONVS), rng.choice(XFORMS)))
        cases.append({"chain": chain, "terminal": term, "args": rng.choice(ARG_KINDS), "pos": rng.choice(POS_CLASSES)})
    return cases


def sanitize(case):
    """A chain macro called `when` or `if` would be re-entered by terminals that are (or expand to) calls of the core
    macros of these names: such chains never end, so they are renamed when the terminal is a core form."""
    if case["terminal"].startswith("core ") or TERMINALS[case["terminal"]][0] in ("core model macro", "pyops shadow"):
        ren = {"when": "m-w", "if": "m-i"}
        case["chain"] = [(ren.get(e[0], e[0]),) + tuple(e[1:]) for e in case["chain"]]
    names = [(e[0], e[1].startswith("hyR")) for e in case["chain"]]
    assert len(set(names)) == len(names), case
    return case


_W = {}


def _work(job):
    """job = (prefix, [cases]) -> (agg {name: [n, nfail, nundec, first detail]}, canaries, ncases)"""
    prefix, cases = job
    core = _W["core"]
    agg, can_tot, n = {}, {"wrong-once": 0, "probe-seen": 0, "probe-tried": 0}, 0
    for ci, case in enumerate(cases):
        for entry in ENTRIES:
            probe = ci % 50 == 0 and entry == "hy.macroexpand"
            res, can = run_one(case, entry, core, mutate_probe=probe, once_probe=ci % 5 == 0)
            if res is None:
                continue
            n += 1
            if can.get("wrong-once"):
                can_tot["wrong-once"] += 1
            if "probe-seen" in can:
                can_tot["probe-tried"] += 1
                can_tot["probe-seen"] += bool(can["probe-seen"])
            for name, ok, det in res:
                if prefix and not name.startswith("no-mutation/"):
                    name = "/".join(name.split("/")[:2])             # random cases: one obligation per clause x entry point
                a = agg.setdefault(prefix + name, [0, 0, 0, None, None])
                a[0] += 1
                if ok is False:
                    a[1] += 1
                    if a[3] is None:
                        a[3] = det
                        a[4] = {"case": case, "entry": entry}
                elif ok is None:
                    a[2] += 1
                    if a[3] is None:
                        a[3] = det
    return agg, can_tot, n


def _merge(total, part):
    for k, (n, nf, nu, d, c) in part.items():
        a = total.setdefault(k, [0, 0, 0, None, None])
        a[0] += n
        a[1] += nf
        a[2] += nu
        if a[3] is None or (nf and a[4] is None):
            a[3], a[4] = d, c


def chunks(xs, n):
    k = max(1, (len(xs) + n - 1) // n)
    return [xs[i:i + k] for i in range(0, len(xs), k)]


# ------------------------------------------------------------------------------------------------------------------
# documented examples, run as Hy source in a module (hy.macroexpand's default module = the calling module)
# ------------------------------------------------------------------------------------------------------------------
DOC_SRC = '''
(defmacro m [x]
  (and (int x) `(m ~(- x 1))))
(defmacro m3 [x]
  `(do ~x ~x ~x))
(setv r1 (hy.macroexpand-1 '(m 5)))
(setv r2 (hy.macroexpand '(m 5)))
(setv r3 (hy.macroexpand-1 '(m3 (+= n 1))))
(setv model '(wmbatt 1 2))
(setv r4 (is (hy.macroexpand model) model))
(setv model2 '(+ 1 1))
(setv r5 (is (hy.macroexpand model2) model2))
(setv r6 (hy.macroexpand '(chippy 1) :macros {"chippy" (fn [x] `[~x ~x])}))
(defn f [])
(setv r7 (is (hy.macroexpand f) f))
(defn g []
  (defmacro loc [] 1)
  #((hy.macroexpand '(loc)) (hy.macroexpand '(loc) :macros (local-macros))))
(setv r8 (g))
'''


def doc_examples(chk):
    name = "hv_c36_docmod"
    mod = types.ModuleType(name)
    sys.modules[name] = mod
    try:
        try:
            hy.eval(hy.read_many(DOC_SRC), locals=mod.__dict__, module=mod)
            g = mod.__dict__
            checks = {
                "macroexpand-1 of (m 5) is (m 4)": same(g["r1"], E(S("m"), Integer(4))),
                "macroexpand of (m 5) is 0": same(g["r2"], Integer(0)),
                "macroexpand-1 of (m (+= n 1)) is (do (+= n 1) (+= n 1) (+= n 1))":
                    same(g["r3"], hy.read("(do (+= n 1) (+= n 1) (+= n 1))")),
                "an Expression that is no macro call comes back as the same object": g["r4"] is True,
                "a core macro returning a compiler result gives the original object back": g["r5"] is True,
                "the macros argument supplies macros": same(g["r6"], L(Integer(1), Integer(1))),
                "a non-model object comes back as the same object": g["r7"] is True,
                "local macros are invisible unless passed via :macros (local-macros)":
                    same(g["r8"][0], E(S("loc"))) and same(g["r8"][1], Integer(1)),
            }
            err = None
        except Exception as e:  # noqa: BLE001
            checks, err = {}, f"{type(e).__name__}: {e}"
        if err:
            chk.ob("docs/examples of the docstrings run in a module", False, "rtc", "bounded", detail=err)
        for k, ok in checks.items():
            chk.case(("doc", k))
            chk.ob(f"docs/{k}", bool(ok), "rtc", "bounded", detail=None if ok else "the documented example does not hold")
    finally:
        sys.modules.pop(name, None)
    # the module may be given by name
    name2 = "hv_c36_named"
    mod2 = types.ModuleType(name2)
    mod2._hy_macros = {"nm": lambda x: E(S("named"), x)}
    sys.modules[name2] = mod2
    try:
        r = [hy.macroexpand(E(S("nm"), Integer(1)), name2), hy.macroexpand_1(E(S("nm"), Integer(1)), name2)]
        ok = all(same(x, E(S("named"), Integer(1))) for x in r)
    except Exception as e:  # noqa: BLE001
        ok, r = False, repr(e)
    finally:
        sys.modules.pop(name2, None)
    chk.ob("docs/the module argument may be a module name", ok, "rtc", "bounded", detail=str(r))


# ------------------------------------------------------------------------------------------------------------------
def run(chk):
    global CORE_KEYS
    chk.level = "other"
    chk.explanation = ("bounded stand-in: the real hy.macroexpand, hy.macroexpand-1 and hy.macros.macroexpand are compared with a "
                       "specification function in environments of scripted counting macros; chains are enumerated completely "
                       "up to a length bound over finite vocabularies of placements, calling conventions, argument transforms, "
                       "terminal forms, argument lists and position classes, plus longer random chains; neither covers all "
                       "models or all macro environments")
    chk.fn("hy/core/util.hy::_macroexpand", "hy/core/util.hy::macroexpand", "hy/core/util.hy::macroexpand-1",
           "hy/macros.py::macroexpand")
    chk.trust("hy.as_model and hy.mangle inside the specification (C32 for mangle)",
              "the scripted macros (closures logging their calls) as the macro environment",
              "the documented expansions of when / cond / local-macros written into the specification",
              "classification of a real core macro as model- or result-producing by its defining module")
    CORE_KEYS = frozenset(builtins._hy_macros)
    core = core_classes()
    _W["core"] = core
    quick = chk.tier == "quick"

    # every real core macro is covered by a sample, a documented expansion or is error-only
    missing = []
    for k, cls in core.items():
        un = hy.unmangle(k)
        if cls == "result" and un not in CORE_SAMPLES and un not in CORE_ERROR_ONLY:
            missing.append(un)
        if cls == "model" and un not in CORE_MODEL_NAMES:
            missing.append(un)
    stale = [k for k in CORE_SAMPLES if mangle(k) not in core]
    chk.ob("coverage/every core macro has a sample form or is error-only", (not missing and not stale) or None, "rtc",
           "exhaustive_finite", detail=f"no sample for {missing}; samples of macros that no longer exist: {stale}")

    maxlen = 2 if quick else 4
    d1 = domain_chains(maxlen)
    d2 = domain_elements(chk.tier)
    d3 = domain_positions(chk.tier)
    nrand, rlen = (300, 8) if quick else (6000, 14)
    dr = random_cases(nrand, rlen, chk.seed)
    for dom in (d1, d2, d3, dr):
        for c in dom:
            sanitize(c)
    chk.bounds["D1 chain length"] = f"0..{maxlen}"
    chk.bounds["D1 placements"] = list(PLACES)
    chk.bounds["D1 terminals"] = len(TERMINALS)
    chk.bounds["D1 cases"] = len(d1)
    chk.bounds["D2 cases (all element attributes, chains of length 1 and 2)"] = len(d2)
    chk.bounds["D3 cases (position classes x argument lists x transforms)"] = len(d3)
    chk.bounds["random cases"] = nrand
    chk.bounds["random chain length"] = f"0..{rlen}"
    chk.bounds["entry points"] = list(ENTRIES)
    chk.bounds["position classes"] = list(POS_CLASSES)
    chk.bounds["argument lists"] = list(ARG_KINDS)

    jobs = []
    nchunk = chk.jobs * 3
    for prefix, cases in (("", d1), ("", d2), ("", d3), ("random/", dr)):
        jobs += [(prefix, c) for c in chunks(cases, nchunk)]
    # (measured on the 16-core box: 4 to 8 workers give the shortest wall time; 16 only burn more CPU in the kernel)
    gc.collect()
    gc.freeze()               # the workers' collections then leave the inherited heap alone (no copy-on-write storm)
    try:
        with multiprocessing.get_context("fork").Pool(min(chk.jobs, 8)) as pool:
            parts = pool.map(_work, jobs, chunksize=1)
    finally:
        gc.unfreeze()
    total, cans, nruns = {}, {"wrong-once": 0, "probe-seen": 0, "probe-tried": 0}, 0
    for agg, can, n in parts:
        _merge(total, agg)
        for k, v in can.items():
            cans[k] += v
        nruns += n
    for prefix, cases in (("D1", d1), ("D2", d2), ("D3", d3), ("R", dr)):
        for i in range(len(cases)):
            chk.case((prefix, i))
    chk.evaluations = nruns
    chk.extra["runs (case x applicable entry point)"] = nruns
    for name, (n, nf, nu, det, c) in sorted(total.items()):
        kind = "bounded" if name.startswith("random/") else "exhaustive_finite"
        ok = False if nf else None if nu else True
        rp = None
        if nf and c is not None:
            rp = _confirm(c, name, core)
        chk.ob(name, ok, "rtc", kind, detail=None if ok else f"{nf} failing, {nu} undecided of {n} runs; first: {det}", replay=rp)
    # vacuity guards: every terminal class and chain class was reached by the result clause of the main entry points
    tclasses = sorted({v[0] for v in TERMINALS.values()})
    reached = {n.split("/", 2)[2] for n in total if n.startswith("result/hy.macroexpand/")}
    chk.ob("coverage/every terminal class is reached", set(tclasses) <= reached, "rtc", "exhaustive_finite",
           detail=f"missing {sorted(set(tclasses) - reached)}")
    doc_examples(chk)

    # canaries
    chk.canary("wrong clause: macroexpand-1 expands to the fixpoint", cans["wrong-once"] > 0)
    chk.canary("snapshot comparison sees an attribute written into a nested atom of the input",
               cans["probe-tried"] > 0 and cans["probe-seen"] == cans["probe-tried"])
    # wrong clause: "with result_ok=True the tree is returned" must be refuted on a core result macro
    env = Env({"chain": [], "terminal": "core if"})
    try:
        t = hy.read("(if a b c)")
        r = hmac.macroexpand(t, env.module, HyASTCompiler(env.module), result_ok=True)
        # the right clause (a compiler result comes back) and the wrong one (the form comes back) disagree on the observation
        chk.canary("wrong clause: result_ok=True returns the form", isinstance(r, (Result, ast.AST)) != (r is t))
    finally:
        env.close()
    for c in (d1[len(d1) // 2], d2[len(d2) // 3], dr[0]):
        chk.sample({"case": describe(c)})


def _confirm(c, name, core):
    """Re-run the first failing case on the real code and report what was observed."""
    case, entry = c["case"], c["entry"]
    res, _ = run_one(case, entry, core)
    bare = name.split("/", 1)[1] if name.startswith("random/") else name
    hit = [(n, d) for n, ok, d in (res or []) if ok is False and n.startswith(bare)]
    return {"confirmed": bool(hit), "input": {"case": describe(case), "entry point": entry, "input model": show(build_input(case))},
            "observed": hit[0][1] if hit else None, "expected": bare}


def replay(path):
    from hv.replay import replay_file
    return replay_file(path)
