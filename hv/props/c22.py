"""C22 numeric literals read like Python plus the documented extensions."""
import hv.symx.core  # noqa: F401  (puts /repo on sys.path, pre-imports hy)

import io
import itertools
import math
import multiprocessing
import re
import sys
import unicodedata

import hy
import hy.models as hm
from hy.models import Complex, Expression, Float, Integer, Symbol
from hy.reader.exceptions import LexException
from hy.reader.hy_reader import HyReader, as_identifier

from hv.props import _c22_spec as sp

META = {
    "engine": "ex",
    "level": "other",
    "technique": "contract-based differential check of the real reader (hy.read_many -> HyReader.read_default -> "
                 "as_identifier -> Integer/Float/Complex.__new__ -> strip_digit_separators / check_inf_nan_cap) against two "
                 "independent oracles: CPython's own literal parser (ast.literal_eval) for Python literals and a recogniser "
                 "written from docs/syntax.rst for the documented extensions; complete enumeration of all texts up to a "
                 "length bound over the numeric alphabet, every Unicode decimal digit / space character in fixed contexts, "
                 "plus hypothesis-generated Python literals of every kind, metamorphic extension forms and near misses",
    "text": "Clauses: (A) a text that CPython accepts as a numeric literal (optionally signed, or real+imaginary) reads as "
            "exactly one Integer/Float/Complex of the matching type and equal value; (B) a text that is a number only by "
            "the documented extensions (comma, repeated/trailing/freely placed separators after the first digit, leading "
            "zeros, NaN/Inf/-Inf, complex-constructor forms) reads as documented, value = CPython's value of the "
            "separator-free core; (C) every other text reads as the symbol of that name, a dotted form made of symbols, or "
            "raises a Hy syntax error - never as a number; plus the oracle self-check (every Python literal is accepted "
            "by the documentation recogniser with the same type and value) and the strip_digit_separators contract.",
    "note": "Bounded: exhaustive for the stated alphabet and lengths only (kind exhaustive_finite, bound in evidence); "
            "generated literals are kind bounded. Trusted: ast.literal_eval / int / float / complex of CPython as the "
            "meaning of a Python literal; the recogniser in hv/props/_c22_spec.py as the reading of the documentation.",
}

ALPHABETS = {
    # the numeric alphabet of the design: digits incl. octal/decimal boundaries, hex letters, exponent, Inf/NaN letters (both
    # cases), imaginary unit, radix letters, both separators, point, signs, one non-ASCII decimal digit (ARABIC-INDIC THREE)
    "A25": list("0179abeEfiIjJnNoOxX_,.+-") + ["٣"],
    # reduced alphabet for the longest length of the thorough tier (pruning by alphabet restriction, stated as a bound)
    # (each dropped character has a kept sibling with the same roles: 7~1/9, a~b, E~e, J~j, O~o, X~x; then f, b, o, i, N, ٣)
    "A19": list("019befiIjnNox_,.+-") + ["٣"],
    "A13": list("019ejxIn_,.+-"),
}
assert [len(ALPHABETS[a]) for a in ("A25", "A19", "A13")] == [25, 19, 13]

_READER = None


def _reader():
    global _READER
    if _READER is None:
        _READER = HyReader()
        _READER._set_source(io.StringIO(""), "<c22>")
    return _READER


def _model(m):
    t = type(m)
    if t is Integer:
        return ("int", int(m))
    if t is Float:
        return ("float", float(m))
    if t is Complex:
        return ("complex", complex(m))
    if t is Symbol:
        return ("sym", str(m))
    if t is Expression:
        return ("dotted", tuple((type(x).__name__, str(x)) for x in m))
    return ("other", t.__name__)


def observe(t):
    """What the real reader makes of the text."""
    try:
        forms = list(hy.read_many(t))
    except LexException as e:
        return ("error", type(e).__name__)
    except Exception as e:  # noqa: BLE001
        return ("crash", f"{type(e).__name__}: {e}")
    if len(forms) != 1:
        return ("forms", len(forms))
    return _model(forms[0])


def observe_direct(t):
    """The anchored function called directly (used where the tokenisation step is the identity)."""
    try:
        return _model(as_identifier(t, reader=_reader()))
    except LexException as e:
        return ("error", type(e).__name__)
    except Exception as e:  # noqa: BLE001
        return ("crash", f"{type(e).__name__}: {e}")


def same(kind, a, b, strict):
    if kind == "int":
        return type(a) is int and type(b) is int and a == b
    if kind == "float":
        if math.isnan(a) or math.isnan(b):
            return math.isnan(a) and math.isnan(b)
        return a == b and (not strict or math.copysign(1, a) == math.copysign(1, b))
    return same("float", a.real, b.real, strict) and same("float", a.imag, b.imag, strict)


RE_PYKIND = [
    ("decimal-integer", re.compile(r"[0-9_]+\Z")),
    ("radix-integer", re.compile(r"0[xXoObB][0-9a-fA-F_]+\Z")),
    ("float", re.compile(r"[0-9_.]+(?:[eE][+-]?[0-9_]+)?\Z")),
    ("imaginary", re.compile(r"[0-9_.]+(?:[eE][+-]?[0-9_]+)?[jJ]\Z")),
]


def python_kind(t):
    for k, r in RE_PYKIND:
        if r.match(t):
            return k
    if t[0] in "+-" and any(r.match(t[1:]) for _, r in RE_PYKIND):
        return "signed"
    return "real+imaginary"


def nonnumber_ok(t, obs):
    """Clause C: symbol of that name / dotted form made of symbols that spells the text / Hy syntax error."""
    if "." not in t or not t.strip("."):
        return obs == ("sym", t)
    if obs[0] == "error":
        return True
    if obs[0] != "dotted":
        return False
    parts = obs[1]
    if len(parts) < 2 or any(k != "Symbol" for k, _ in parts):
        return False
    head, rest = parts[0][1], [s for _, s in parts[1:]]
    if head == "." and ".".join(rest) == t:
        return True
    return bool(head) and not head.strip(".") and rest[0] == "None" and head + ".".join(rest[1:]) == t


NUM = ("int", "float", "complex")


def judge(t, obs, full=True):
    """[(class label, ok, expected-description)] for one text; the first entry is the property clause.
    full=False (longest lengths only): CPython's parser is consulted only when the recogniser or the reader takes the
    text for a number (the inclusion 'Python literal => recognised' is checked exhaustively on the shorter lengths)."""
    out = []
    s = sp.spec(t)
    py = sp.python_literal(t) if (full or s is not None or obs[0] in NUM) else None
    if full:
        s2 = sp.spec_full(t)
        if s2 != s and not (s2 is not None and s is not None and s2[0] == s[0] and same(s[0], s[1], s2[1], True)):
            out.append(("oracle/the first/last-character prefilter of the recogniser rejects no number", False, f"{s} vs {s2}"))
    if py is not None:
        if s is None or s[0] != py[0] or not same(py[0], s[1], py[1], False):
            out.append(("oracle/every Python literal is a number for the documentation recogniser, same type and value",
                        False, f"python={py} recogniser={s}"))
        cls = "A python-literal/" + python_kind(t)
        ok = obs[0] == py[0] and same(py[0], obs[1], py[1], py[0] != "complex")
        exp = py
    elif s is not None:
        cls = "B extension/" + sp.extension_class(t, s)
        ok = obs[0] == s[0] and same(s[0], obs[1], s[1], True)
        exp = s
    else:
        cls = "C not-a-number/" + sp.near_miss_class(t)
        ok = nonnumber_ok(t, obs)
        exp = "symbol / dotted form / Hy syntax error"
    out.insert(0, (cls, ok, exp))
    if s is not None:
        try:
            r = hm.strip_digit_separators(t)
        except Exception as e:  # noqa: BLE001
            r = f"{type(e).__name__}: {e}"
        out.append(("contract/strip_digit_separators of a number deletes exactly its separators", r == sp.strip_seps(t),
                    f"strip_digit_separators -> {r!r}"))
    return out


def _agree(o2, obs):
    return (o2 == obs or (o2[0] == obs[0] == "float" and same("float", o2[1], obs[1], True))
            or (o2[0] == obs[0] == "complex" and same("complex", o2[1], obs[1], True)))


# ---------------------------------------------------------------------------------------------------------------------
# exhaustive enumeration (multiprocessing; module-level worker)

TOK = "tokenisation/hy.read_many agrees with as_identifier called directly (every text either side takes for a number, every 8th other text)"


def _enum_job(job):
    aname, length, prefix, mode = job
    alpha = ALPHABETS[aname]
    agg = {}
    n = 0
    samples = []
    pre = "".join(prefix)
    direct = mode == "direct"
    for tup in itertools.product(alpha, repeat=length - len(prefix)):
        t = pre + "".join(tup)
        n += 1
        obs = observe_direct(t) if direct else observe(t)
        res = judge(t, obs, full=not direct)
        if direct and (n % 8 == 0 or res[0][0][0] != "C" or obs[0] in NUM):
            o2 = observe(t)
            res.append((TOK, _agree(o2, obs), f"as_identifier: {obs}"))
            if not _agree(o2, obs):
                obs = o2
        elif not direct and length >= 5 and (n % 8 == 0 or obs[0] in NUM):
            # the same clause where every text goes through hy.read_many anyway (keeps the obligation present in both tiers)
            od = observe_direct(t)
            res.append((TOK, _agree(obs, od), f"as_identifier: {od}"))
        for cls, ok, exp in res:
            a = agg.get(cls)
            if a is None:
                a = agg[cls] = [0, 0, None]
            a[0] += 1
            if not ok:
                a[1] += 1
                if a[2] is None:
                    a[2] = {"input": t, "observed": repr(obs), "expected": repr(exp)}
        if n % 9973 == 1 and len(samples) < 1:
            samples.append({"text": t, "read_as": repr(obs)})
    return (aname, length, n, agg, samples)


def enumeration_jobs(tier):
    jobs = []
    for L in range(1, 5):
        jobs += _split("A25", L, "read")
    jobs += _split("A25", 5, "read" if tier == "thorough" else "direct")
    if tier == "thorough":
        jobs += _split("A19", 6, "direct")
        jobs += _split("A13", 7, "direct")
    return jobs


def _split(aname, L, mode):
    alpha = ALPHABETS[aname]
    k = 0 if L < 3 else 2 if L < 6 else 3
    return [(aname, L, p, mode) for p in itertools.product(alpha, repeat=k)]


def run_enumeration(chk, meanwhile):
    jobs = enumeration_jobs(chk.tier)
    # longest jobs first
    jobs.sort(key=lambda j: -(len(ALPHABETS[j[0]]) ** (j[1] - len(j[2])) * (1 if j[3] == "direct" else 2)))
    total = {}
    counts = {}
    with multiprocessing.get_context("fork").Pool(chk.jobs) as pool:
        pending = pool.imap_unordered(_enum_job, jobs, chunksize=1)
        meanwhile()          # the serial components run in this process while the pool enumerates
        for aname, L, n, agg, samples in pending:
            counts[(aname, L)] = counts.get((aname, L), 0) + n
            for cls, (cnt, bad, first) in agg.items():
                a = total.setdefault((aname, L, cls), [0, 0, None])
                a[0] += cnt
                a[1] += bad
                if first is not None and (a[2] is None or first["input"] < a[2]["input"]):
                    a[2] = first
            for s in samples:
                chk.sample(s)
    for (aname, L, cls), (cnt, bad, first) in sorted(total.items()):
        name = f"ex/{aname}/len={L}/{cls}"
        rp = None
        detail = f"{cnt} texts"
        if bad:
            again = observe(first["input"])
            rp = {"confirmed": repr(again) == first["observed"] or cls.startswith(("oracle", "contract", "tokenisation")),
                  "input": first["input"], "observed": first["observed"], "expected": first["expected"]}
            detail = (f"{bad} of {cnt} texts fail; first: {first['input']!r} read as {first['observed']}, "
                      f"expected {first['expected']}")
        chk.ob(name, bad == 0, "cpython-oracle" if cls.startswith("A ") else "ex", "exhaustive_finite", detail=detail, replay=rp)
    for (aname, L), n in sorted(counts.items()):
        want = len(ALPHABETS[aname]) ** L
        chk.ob(f"ex/{aname}/len={L}/domain enumerated completely", n == want, "ex", "exhaustive_finite", detail=f"{n} of {want}")
        chk.evaluations += n
    direct = ("as_identifier (the anchored function) is called directly with a live HyReader; hy.read_many is run in addition "
              "on every text that either side takes for a number and on every 8th remaining text, and must agree")
    if chk.tier == "quick":
        chk.bounds["exhaustive texts"] = (
            "all strings of length 1..5 over the 25-character alphabet " + "".join(ALPHABETS["A25"]) + "; lengths 1..4 read with "
            "hy.read_many; length 5: " + direct)
    else:
        chk.bounds["exhaustive texts"] = (
            "all strings of length 1..5 over the 25-character alphabet " + "".join(ALPHABETS["A25"]) + ", all 19^6 strings of "
            "length 6 over " + "".join(ALPHABETS["A19"]) + " and all 13^7 strings of length 7 over " + "".join(ALPHABETS["A13"])
            + " (pruning = alphabet restriction, every dropped character keeps a sibling with the same roles; no text over the "
            "stated alphabets is skipped); lengths 1..5 read with hy.read_many; lengths 6 and 7: " + direct + "; CPython's parser "
            "is consulted there only for texts the recogniser or the reader takes for a number")
    chk.extra["exhaustive_domain_sizes"] = {f"{a}/len={L}": n for (a, L), n in sorted(counts.items())}
    return total


# ---------------------------------------------------------------------------------------------------------------------
# every Unicode decimal digit / space character in fixed contexts (finite: all code points)

def run_unicode(chk):
    digits = [chr(i) for i in range(128, sys.maxunicode + 1) if unicodedata.category(chr(i)) == "Nd"]
    contexts = {"alone": "{}", "after an ASCII digit": "1{}", "before a point": "{}.5", "after a sign": "-{}",
                "in an exponent": "1e{}", "before j": "{}j", "after 0x": "0x{}"}
    for cname, fmt in contexts.items():
        bad = []
        for c in digits:
            t = fmt.format(c)
            chk.case(("nd", cname, c))
            obs = observe(t)
            if not nonnumber_ok(t, obs):
                bad.append((t, obs))
        chk.ob(f"unicode/C not-a-number/non-ascii-digit/{cname}", not bad, "ex", "exhaustive_finite",
               detail=f"{len(bad)} of {len(digits)} non-ASCII decimal digits; first: {bad[0][0]!r} (U+{ord(digits[0]):04X}...) read as {bad[0][1]}"
               if bad else f"{len(digits)} digits",
               replay={"confirmed": True, "input": bad[0][0], "observed": repr(bad[0][1]), "expected": "symbol"} if bad else None)
    # characters CPython's int()/float() treat as blank but Hy does not treat as whitespace
    from hy.reader.reader import isnormalizedspace
    blanks = [chr(i) for i in range(sys.maxunicode + 1)
              if (chr(i).isspace() or unicodedata.category(chr(i)) in ("Zs", "Zl", "Zp", "Cc", "Cf")) and not isnormalizedspace(chr(i))]
    for cname, fmt in {"before a number": "{}1", "after a number": "1.5{}", "around a number": "{0}1j{0}"}.items():
        bad = []
        for c in blanks:
            t = fmt.format(c)
            chk.case(("blank", cname, c))
            obs = observe(t)
            if not nonnumber_ok(t, obs):
                bad.append((t, obs))
        chk.ob(f"unicode/C not-a-number/non-hy-whitespace/{cname}", not bad, "ex", "exhaustive_finite",
               detail=f"{len(bad)} of {len(blanks)} blank/control/format characters that are not Hy whitespace; first: {bad[0][0]!r} read as {bad[0][1]}"
               if bad else f"{len(blanks)} characters",
               replay={"confirmed": True, "input": bad[0][0], "observed": repr(bad[0][1]), "expected": "symbol"} if bad else None)
    chk.bounds["unicode contexts"] = f"every non-ASCII Nd code point ({len(digits)}) in {len(contexts)} contexts; every " \
                                     f"space/control/format code point that is not Hy whitespace ({len(blanks)}) in 3 contexts"


# ---------------------------------------------------------------------------------------------------------------------
# targeted finite lists: Inf / NaN spellings

def run_infnan(chk):
    def casings(w):
        return ["".join(p) for p in itertools.product(*[(c.lower(), c.upper()) for c in w])]
    good = {"Inf": math.inf, "NaN": math.nan}
    for word in ("inf", "nan", "infinity"):
        for sign in ("", "-", "+"):
            for suffix in ("", "j", "J"):
                bad = []
                n = 0
                for w in casings(word):
                    t = sign + w + suffix
                    n += 1
                    chk.case(("infnan", t))
                    obs = observe(t)
                    if w in good:
                        v = math.copysign(1, -1 if sign == "-" else 1) * good[w] if w == "Inf" else good[w]
                        exp = ("complex", complex(0, v)) if suffix else ("float", v)
                        ok = obs[0] == exp[0] and same(exp[0], obs[1], exp[1], False)
                    else:
                        ok = obs == ("sym", t)
                        exp = "symbol"
                    if not ok:
                        bad.append((t, obs, exp))
                sfx = suffix or "real"
                cls = "Infinity-spelling" if word == "infinity" else "inf-nan-capitalisation"
                chk.ob(f"targeted/{cls}/only `Inf` and `NaN` spell a number: every casing of {sign}{word}{suffix} ({sfx})", not bad,
                       "ex", "exhaustive_finite",
                       detail=f"{len(bad)} of {n} casings; first: {bad[0][0]!r} read as {bad[0][1]}, expected {bad[0][2]}" if bad else f"{n} casings",
                       replay={"confirmed": True, "input": bad[0][0], "observed": repr(bad[0][1]), "expected": repr(bad[0][2])} if bad else None)
    # two-part complex numbers: every combination of properly / improperly spelled parts
    parts_ok = ["Inf", "NaN", "1", "1e-5", ".5"]
    parts_bad = ["inf", "nan", "INF", "NAN", "Nan", "iNf"]
    bad = []
    n = 0
    for a in parts_ok + parts_bad:
        for b in parts_ok + parts_bad:
            for s0 in ("", "-"):
                for s1 in "+-":
                    for j in "jJ":
                        t = f"{s0}{a}{s1}{b}{j}"
                        n += 1
                        chk.case(("infnan2", t))
                        obs = observe(t)
                        if a in parts_ok and b in parts_ok:
                            v = complex(t)
                            ok = obs[0] == "complex" and same("complex", obs[1], v, True)
                        else:
                            ok = nonnumber_ok(t, obs)
                        if not ok:
                            bad.append((t, obs))
    chk.ob("targeted/inf-nan-capitalisation/real+imaginary texts: a number iff both parts are digits, `Inf` or `NaN`", not bad, "ex",
           "exhaustive_finite", detail=f"{len(bad)} of {n}; first: {bad[0]}" if bad else f"{n} texts",
           replay={"confirmed": True, "input": bad[0][0], "observed": repr(bad[0][1]), "expected": "see name"} if bad else None)


# ---------------------------------------------------------------------------------------------------------------------
# hypothesis: Python literals of every kind, metamorphic extension forms, near misses (bounded)

DP = r"[0-9](?:_?[0-9])*"
POINTFLOAT = rf"(?:(?:{DP})?\.{DP}|{DP}\.)"
EXPFLOAT = rf"(?:{DP}|{POINTFLOAT})[eE][+-]?{DP}"
FLOATNUMBER = rf"(?:{EXPFLOAT}|{POINTFLOAT})"
PY_KINDS = {
    "decinteger": r"(?:[1-9](?:_?[0-9])*|0+(?:_?0)*)",
    "bininteger": r"0[bB](?:_?[01])+",
    "octinteger": r"0[oO](?:_?[0-7])+",
    "hexinteger": r"0[xX](?:_?[0-9a-fA-F])+",
    "pointfloat": POINTFLOAT,
    "exponentfloat": EXPFLOAT,
    "imagnumber": rf"(?:{FLOATNUMBER}|{DP})[jJ]",
}
PY_KINDS["signed"] = "[+-](?:" + "|".join(PY_KINDS[k] for k in list(PY_KINDS)) + ")"
PY_KINDS["real+imaginary"] = rf"[+-]?(?:{FLOATNUMBER}|{PY_KINDS['decinteger']})[+-]{PY_KINDS['imagnumber']}"


def run_hypothesis(chk):
    from hypothesis import HealthCheck, given, seed, settings
    from hypothesis import strategies as st
    n_ex = 250 if chk.tier == "quick" else 1500
    cfg = settings(max_examples=n_ex, database=None, deadline=None, derandomize=False,
                   suppress_health_check=list(HealthCheck))

    def lit(kind):
        return st.from_regex(re.compile(PY_KINDS[kind]), fullmatch=True).filter(lambda t: len(t) < 60)

    def drive(strategy, body):
        @seed(chk.seed)
        @cfg
        @given(strategy)
        def t(x):
            body(x)
        t()

    # (A) valid Python literals of every kind
    for kind in PY_KINDS:
        st_ = {"n": 0, "bad": [], "invalid": []}

        def body(t, st_=st_):
            st_["n"] += 1
            chk.case(("py", t))
            py = sp.python_literal(t)
            if py is None:
                st_["invalid"].append(t)
                return
            obs = observe(t)
            res = judge(t, obs)
            if not res[0][0].startswith("A ") or not all(ok for _, ok, _ in res):
                st_["bad"].append((t, obs, py, [r for r in res if not r[1]]))
        drive(lit(kind), body)
        chk.ob(f"hyp/generator/{kind}: every generated text is a Python literal for CPython", not st_["invalid"] and st_["n"] > 0,
               "cpython-oracle", "bounded", detail=str(st_["invalid"][:3]))
        b = min(st_["bad"], key=lambda x: (len(x[0]), x[0])) if st_["bad"] else None
        chk.ob(f"hyp/A python-literal/{kind}: same type and value as ast.literal_eval", not st_["bad"], "cpython-oracle", "bounded",
               detail=f"{len(st_['bad'])} of {st_['n']}; smallest: {b}" if b else f"{st_['n']} literals",
               replay={"confirmed": True, "input": b[0], "observed": repr(b[1]), "expected": repr(b[2])} if b else None)

    # (B) metamorphic: extension transformations keep type and value of the base literal
    base = st.one_of(*[lit(k) for k in PY_KINDS])
    seps = st.text(alphabet="_,", min_size=1, max_size=3)

    def positions(t, pred):
        first = sp.RE_FIRST_DIGIT.search(t).start()
        return [i + 1 for i, c in enumerate(t) if i >= first and pred(t, i)]

    def insert_at(t, where, draw):
        for i in sorted(where, reverse=True):
            t = t[:i] + draw(seps) + t[i:]
        return t

    def tr_comma(draw, t):
        idx = [i for i, c in enumerate(t) if c == "_"]
        if not idx:
            return None
        pick = draw(st.lists(st.sampled_from(idx), min_size=1, unique=True))
        return "".join("," if i in pick else c for i, c in enumerate(t))

    def tr_generic(pred):
        def f(draw, t):
            pos = positions(t, pred)
            if not pos:
                return None
            return insert_at(t, draw(st.lists(st.sampled_from(pos), min_size=1, max_size=3, unique=True)), draw)
        return f
    radix = lambda t: re.match(r"[+-]?0[xXoObB]", t) is not None   # noqa: E731
    transforms = {
        "comma for underscore": tr_comma,
        "separators after digits (repeated, trailing)": tr_generic(lambda t, i: t[i] in "0123456789" or (radix(t) and t[i] in "abcdefABCDEF")),
        "separators after the point": tr_generic(lambda t, i: t[i] == "."),
        "separators after e": tr_generic(lambda t, i: t[i] in "eE" and not radix(t)),
        "separators after the exponent sign": tr_generic(lambda t, i: t[i] in "+-" and i > 0 and t[i - 1] in "eE" and not radix(t)),
        "separators after j": tr_generic(lambda t, i: t[i] in "jJ"),
        "separators inside and after the radix prefix": tr_generic(lambda t, i: radix(t) and (t[i] in "xXoObB" or (t[i] == "0" and t[i + 1:i + 2] in tuple("xXoObB"))) and i < 3),
    }
    for tname, tr in transforms.items():
        st_ = {"n": 0, "bad": [], "oracle": []}

        @st.composite
        def gen(draw, tr=tr):
            t = draw(base)
            return t, tr(draw, t)

        def body(pair, st_=st_):
            t, u = pair
            if u is None or u == t:
                return
            st_["n"] += 1
            chk.case(("meta", u))
            py = sp.python_literal(t)
            s = sp.spec(u)
            if s is None or s[0] != py[0] or not same(py[0], s[1], py[1], False):
                st_["oracle"].append((t, u, py, s))
            obs = observe(u)
            if not (obs[0] == py[0] and same(py[0], obs[1], py[1], py[0] != "complex")):
                st_["bad"].append((u, obs, py, t))
        drive(gen(), body)
        chk.ob(f"hyp/oracle/{tname}: the documentation recogniser gives the transformed text the base literal's type and value",
               not st_["oracle"], "ex", "bounded", detail=str(st_["oracle"][:2]))
        b = min(st_["bad"], key=lambda x: (len(x[0]), x[0])) if st_["bad"] else None
        chk.ob(f"hyp/B extension/{tname}: type and value of the Python literal it was made from", not st_["bad"] and st_["n"] > 0,
               "cpython-oracle", "bounded", detail=f"{len(st_['bad'])} of {st_['n']}; smallest: {b}" if b else f"{st_['n']} texts",
               replay={"confirmed": True, "input": b[0], "observed": repr(b[1]), "expected": repr(b[2])} if b else None)

    # leading zeros: decimal integers stay integers
    for variant in ("plain", "signed", "separators"):
        st_ = {"n": 0, "bad": []}

        @st.composite
        def genz(draw, variant=variant):
            digits = draw(st.from_regex(re.compile(r"[0-9]{1,12}"), fullmatch=True))
            t = "0" * draw(st.integers(1, 4)) + digits
            if variant == "separators":
                where = draw(st.lists(st.integers(1, len(t)), min_size=1, max_size=3, unique=True))
                t = insert_at(t, where, draw)
            if variant == "signed":
                t = draw(st.sampled_from(["+", "-"])) + t
            return t

        def bodyz(u, st_=st_):
            st_["n"] += 1
            chk.case(("lz", u))
            want = int(sp.strip_seps(u), 10)
            obs = observe(u)
            if obs != ("int", want):
                st_["bad"].append((u, obs, ("int", want)))
        drive(genz(), bodyz)
        b = min(st_["bad"], key=lambda x: (len(x[0]), x[0])) if st_["bad"] else None
        label = "leading-zero-integer" if variant == "plain" else "leading-zero-integer+" + variant
        chk.ob(f"hyp/B extension/{label}: a decimal integer with leading zeros is an Integer of its decimal value", not st_["bad"],
               "ex", "bounded", detail=f"{len(st_['bad'])} of {st_['n']}; smallest: {b}" if b else f"{st_['n']} texts",
               replay={"confirmed": True, "input": b[0], "observed": repr(b[1]), "expected": repr(b[2])} if b else None)

    # (C) near misses made from valid literals
    def first_digit(t):
        return sp.RE_FIRST_DIGIT.search(t).start()
    ARABIC = {str(i): chr(0x660 + i) for i in range(10)}

    def nm_sep_first(draw, t):
        return draw(seps) + t

    def nm_sep_after_sign_or_dot(draw, t):
        k = first_digit(t)
        return None if k == 0 else t[:k] + draw(seps) + t[k:]

    def nm_nonascii(draw, t):
        idx = [i for i, c in enumerate(t) if c in ARABIC]
        i = draw(st.sampled_from(idx))
        return t[:i] + ARABIC[t[i]] + t[i + 1:]

    def nm_double_sign(draw, t):
        return draw(st.sampled_from(["+", "-"])) + (t if t[0] in "+-" else draw(st.sampled_from(["+", "-"])) + t)

    def nm_trailing_letter(draw, t):
        return t + draw(st.sampled_from(list("eExXoObBjJ.+-lLfF")))

    def nm_random_insert(draw, t):
        i = draw(st.integers(0, len(t)))
        return t[:i] + draw(st.sampled_from(ALPHABETS["A25"])) + t[i:]

    def nm_random_delete(draw, t):
        i = draw(st.integers(0, len(t) - 1))
        return t[:i] + t[i + 1:]
    near = {
        "separator first": nm_sep_first,
        "separator-after-sign-or-dot": nm_sep_after_sign_or_dot,
        "non-ascii-digit": nm_nonascii,
        "doubled sign": nm_double_sign,
        "one more trailing character": nm_trailing_letter,
        "one inserted character": nm_random_insert,
        "one deleted character": nm_random_delete,
    }
    # mutations that are allowed to produce a text of these known-defect classes are judged on the remaining classes only
    for mname, mut in near.items():
        st_ = {"n": 0, "bad": [], "classes": {}}

        @st.composite
        def genm(draw, mut=mut):
            t = draw(base)
            return mut(draw, t)

        def bodym(u, st_=st_, mname=mname):
            if not u:
                return
            obs = observe(u)
            res = judge(u, obs)
            cls = res[0][0]
            if mname in ("one inserted character", "one deleted character", "one more trailing character", "doubled sign",
                         "separator first"):
                # generic mutations: texts that land in a class with its own obligation family are counted there
                if any(k in cls for k in ("separator-after-sign-or-dot", "non-ascii-digit", "leading-zero-integer+",
                                          "separator-without-digit", "separator-after-bare-j")):
                    return
            st_["n"] += 1
            chk.case(("nm", u))
            st_["classes"][cls] = st_["classes"].get(cls, 0) + 1
            if not all(ok for _, ok, _ in res):
                st_["bad"].append((u, obs, [(c, e) for c, ok, e in res if not ok]))
        drive(genm(), bodym)
        b = min(st_["bad"], key=lambda x: (len(x[0]), x[0])) if st_["bad"] else None
        chk.ob(f"hyp/C near-miss/{mname}: judged by the clause of its class", not st_["bad"] and st_["n"] > 0, "ex", "bounded",
               detail=f"{len(st_['bad'])} of {st_['n']}; smallest: {b}" if b else f"{st_['n']} texts {st_['classes']}",
               replay={"confirmed": True, "input": b[0], "observed": repr(b[1]), "expected": repr(b[2])} if b else None)
    chk.bounds["hypothesis"] = f"{n_ex} examples per strategy, literal length < 60, seed {chk.seed}"


# ---------------------------------------------------------------------------------------------------------------------

def run_constructors(chk):
    """Models made from Python numbers keep type and value (check_inf_nan_cap only constrains texts)."""
    vals = [0, 1, -7, 10 ** 30, True]
    bad = [v for v in vals if not (type(Integer(v)) is Integer and int(Integer(v)) == int(v))]
    chk.ob("constructor/Integer of a Python int keeps the value", not bad, "ex", "exhaustive_finite", detail=str(bad))
    fl = [0.0, -0.0, 1.5, math.inf, -math.inf, math.nan, 1e308]
    bad = [v for v in fl if not same("float", float(Float(v)), v, True)]
    chk.ob("constructor/Float of a Python float keeps the value, including inf and nan (capitalisation is a rule for texts only)",
           not bad, "ex", "exhaustive_finite", detail=str(bad))
    cx = [0j, 1 + 2j, complex(math.inf, math.nan), complex(-0.0, -0.0)]
    bad = [v for v in cx if not same("complex", complex(Complex(v)), v, False)]
    chk.ob("constructor/Complex of a Python complex keeps the value, including inf and nan parts", not bad, "ex", "exhaustive_finite",
           detail=str(bad))
    bad = []
    for arg, value, raises in [("Inf", math.inf, False), ("inf", math.inf, True), ("1e999", math.inf, False), ("NaN", math.nan, False),
                               ("nan", math.nan, True), ("NAN", math.nan, True), ("INF", -math.inf, True), (math.inf, math.inf, False),
                               ("-Inf", -math.inf, False), ("5", 5.0, False)]:
        try:
            hm.check_inf_nan_cap(arg, value)
            r = False
        except ValueError:
            r = True
        if r != raises:
            bad.append((arg, value, r))
    chk.ob("contract/check_inf_nan_cap raises exactly for a text spelling inf or nan in another capitalisation", not bad, "ex",
           "exhaustive_finite", detail=str(bad))


def run_canaries(chk):
    """Must-fail canaries; none of them depends on /repo being right (a regression must give exit 1, not a void run)."""
    # 1. seeded defect in the real code: separators are stripped at the first position too -> `_1` reads as a number
    real = hm.strip_digit_separators
    hm.strip_digit_separators = lambda n: n.replace("_", "").replace(",", "") if isinstance(n, str) else n
    try:
        refuted = all(not judge(t, observe(t))[0][1] for t in ("_1", ",1", "_.5"))
    finally:
        hm.strip_digit_separators = real
    chk.canary("strip_digit_separators replaced by a version that also strips a leading separator", refuted)
    # 2.-4. wrong observations offered to the judge (scripted reader results)
    chk.canary("wrong observation: lower-case `inf` read as a Float", not judge("inf", ("float", math.inf))[0][1]
               and judge("inf", ("sym", "inf"))[0][1])
    chk.canary("wrong observation: `1,000` read as a symbol", not judge("1,000", ("sym", "1,000"))[0][1]
               and judge("1,000", ("int", 1000))[0][1])
    chk.canary("wrong observation: Float 7.0 offered where the Integer 007 is documented", not judge("007", ("float", 7.0))[0][1]
               and judge("007", ("int", 7))[0][1])
    chk.canary("wrong observation: Python literal 0x1F read with another value", not judge("0x1F", ("int", 30))[0][1]
               and judge("0x1F", ("int", 31))[0][1])


def run(chk):
    chk.level = "other"
    chk.explanation = ("bounded: complete enumeration of the stated alphabet/lengths and code-point sets (exhaustive_finite) "
                       "plus hypothesis-generated literals (bounded); not a proof for all texts")
    run_canaries(chk)

    def serial():
        run_unicode(chk)
        run_infnan(chk)
        run_constructors(chk)
        run_hypothesis(chk)
    run_enumeration(chk, serial)
    chk.fn("hy/reader/hy_reader.py::as_identifier", "hy/reader/hy_reader.py::HyReader.read_default",
           "hy/models.py::Integer.__new__", "hy/models.py::Float.__new__", "hy/models.py::Complex.__new__",
           "hy/models.py::strip_digit_separators", "hy/models.py::check_inf_nan_cap")
    chk.trust("CPython ast.literal_eval / int / float / complex as the meaning of Python numeric literals",
              "hv/props/_c22_spec.py as the reading of docs/syntax.rst 'Numeric literals'",
              "hypothesis from_regex strategies generate each literal kind (each text re-validated by ast.literal_eval)")


def replay(path):
    from hv.replay import replay_file
    return replay_file(path)
