"""C20 whitespace, comments, discards and reader sugar are transparent.

Obligation groups
  spec/...            the specification constants used here agree with /repo/docs and with the live reader tables
  sugar/<head>/opaque/...   the real handlers run on an opaque inner form (every observation of it trapped): the model
                      built for "<sugar><gap>FORM" equals the one the `(` handler builds for the long form      (proved)
  sugar/<head>/forms/...    the same comparison for a vocabulary of concrete inner forms                         (bounded)
  whitespace/...      isnormalizedspace and the reader's treatment of every code point                  (exhaustive_finite)
  transparency/...    separators at every boundary of generated form sequences                                   (bounded)
  concat/...          read_many(t1 + sep + t2) == read_many(t1) + read_many(t2)                                   (bounded)
  rtc/...             run-time contracts on line_comment, discard, slurp_space, parse_forms_until                (bounded)
"""
import hv.symx.core  # noqa: F401  (first: puts /repo on sys.path and pre-imports hy)

import multiprocessing
import os
import re
import unicodedata

import hy.models as hm
from hy.reader.hy_reader import HyReader
from hy.reader.reader import Reader, isnormalizedspace

from hv.core import REPO
from hv.props import _c20_forms as F
from hv.props._c20_forms import DOC_NON_IDENT, DOC_WS, SUGAR, c_seq, c_sym, canon, read_c, show

META = {
    "engine": "symx+ex+rtc",
    "level": "other",
    "technique": "contract-based: (1) sugar postcondition `handler result == model the ( handler builds for the documented "
                 "long form` decided by running the real handlers on an opaque inner form whose every observation is "
                 "trapped (finite case analysis over the character following the sugar and the separator state), "
                 "cross-checked on concrete inner forms of every syntax kind; (2) the whitespace predicate and the reader's "
                 "separator/identifier classification evaluated over all 0x110000 code points against the documented "
                 "character lists; (3) run-time contracts on slurp_space, line_comment, discard, parse_forms_until and a "
                 "metamorphic contract (separators at every boundary; concatenation of whole-form texts) driven by "
                 "small-scope enumeration and hypothesis, with expected models built from the form tree, compared by deep "
                 "type-value-attribute equality",
    "text": "Sugar: for each of ' ` ~ ~@ #* #** #^ the handler, given ANY inner form (opaque token; the reader touches it only "
            "through replace/position attributes), returns Expression([Symbol(head), form...]) equal in types, values and "
            "attributes to the long form, with any whitespace, comment or discard in the gap; directly adjacent identifier-like "
            "forms after #-sugar are an undefined-reader-macro error, never a different model. Whitespace: isnormalizedspace "
            "is true for exactly U+0009..U+000D and U+0020 and the reader separates forms at exactly those (every other code "
            "point becomes part of the symbol unless it is one of the documented non-identifier characters, whose documented "
            "meaning is checked). Transparency and concatenation hold on every enumerated and generated case.",
    "note": "Level `other`: transparency/concatenation quantify over all form sequences and are decided by bounded "
            "enumeration (all ordered pairs of a 54-form vocabulary x 240 separators, all bracket interiors over 15 element "
            "kinds, sequences of length 0..4, hypothesis trees). Trusted: parametricity of the handlers in the inner form "
            "(guarded by trapping every observation of the opaque token); StringIO delivers the text unchanged.",
}

GAPS = {   # name -> text; J and K stand for junk forms
    "none": "", "space": " ", "tab": "\t", "lf": "\n", "cr": "\r", "ff": "\f", "vt": "\v", "crlf": "\r\n",
    "mixed-whitespace": " \t\r\n\f\v ", "comment": "; c\n", "empty-comment": ";\n", "space-comment-space": " ; ) c\n ",
    "discard": "#_ J ", "space-discard": " #_ J\n", "nested-discard": "#_ #_ J K ", "comment-inside-discard": "#_ ; c\n J ",
}


# ---- (1a) opaque inner form -------------------------------------------------------------------------------------
class Opaque(hm.Object):
    """A model the reader knows nothing about.  Every attribute access / special-method use is logged."""
    _c20_opaque = True
    LOG = set()
    ALLOWED = frozenset({
        "replace", "properties", "__class__", "__dict__", "reader",
        "_start_line", "_end_line", "_start_column", "_end_column",
        "start_line", "end_line", "start_column", "end_column"})

    def __init__(self, name):
        object.__setattr__(self, "tokname", name)

    def __getattribute__(self, k):
        Opaque.LOG.add(k)
        return object.__getattribute__(self, k)

    def __setattr__(self, k, v):
        Opaque.LOG.add("set:" + k)
        object.__setattr__(self, k, v)

    def _trap(name, ret):  # noqa: N805
        def f(self, *a):
            Opaque.LOG.add(name)
            return ret(self, *a)
        f.__name__ = name
        return f

    __eq__ = _trap("__eq__", lambda s, o: s is o)
    __ne__ = _trap("__ne__", lambda s, o: s is not o)
    __hash__ = _trap("__hash__", lambda s: id(s))
    __bool__ = _trap("__bool__", lambda s: True)
    __len__ = _trap("__len__", lambda s: 1)
    __iter__ = _trap("__iter__", lambda s: iter(()))
    __str__ = _trap("__str__", lambda s: "<opaque>")
    __repr__ = _trap("__repr__", lambda s: "<opaque>")
    __getitem__ = _trap("__getitem__", lambda s, i: None)
    __contains__ = _trap("__contains__", lambda s, x: False)


ID_TOK, BR_TOK = "§", "¤"     # identifier-like start / bracket-like start (terminates identifiers)


def opaque_reader():
    r = HyReader()
    r.reader_table[ID_TOK] = lambda self, key: Opaque("i" + self.getc())
    r.reader_table[BR_TOK] = lambda self, key: Opaque("b" + self.getc())
    r.ends_ident.add(BR_TOK)
    return r


def oread(text):
    return read_c(text, reader=opaque_reader())


def run_sugar_opaque(chk):
    Opaque.LOG.clear()
    for head, prefix in SUGAR:
        two = prefix == "#^"
        for tok in (ID_TOK, BR_TOK):
            kind = "identifier-like" if tok == ID_TOK else "bracket-like"
            for gname, gap in GAPS.items():
                g = gap.replace("J", tok + "8").replace("K", tok + "9")
                if two:
                    text = prefix + g + tok + "1" + (g or " ") + tok + "2"
                    long = f"({head} {tok}2 {tok}1)"
                else:
                    text = prefix + g + tok + "1"
                    long = f"({head} {tok}1)"
                got, want = oread(text), oread(long)
                chk.case(("opaque", head, kind, gname))
                name = f"sugar/{head}/opaque/{kind} form/gap={gname}"
                # after a #-sugar the dispatcher reads an identifier: `#` of a discard and identifier-like forms extend it
                needs_sep = prefix.startswith("#") and (gap.startswith("#") or (gap == "" and tok == ID_TOK))
                if needs_sep:
                    # `#*NAME` is the reader macro called `*NAME` (docs: a hash followed by a symbol); it must be an
                    # error, never a silently different model
                    ok = got[0] == "lex" and "not defined" in got[1]
                    chk.ob(name + " is an undefined-reader-macro error", ok, "symx", "proved", detail=f"{text!r} -> {got}")
                    continue
                indep = ("ok", [c_seq("Expression", [c_sym(head)] + [("opaque", ("i" if tok == ID_TOK else "b") + n)
                                                                      for n in (("2", "1") if two else ("1",))])])
                ok = got == want == indep
                chk.ob(name, ok, "symx", "proved",
                       detail=None if ok else f"{text!r} -> {got}; {long!r} -> {want}; documented {indep}",
                       replay=None if ok else {"confirmed": True, "input": text, "observed": str(got), "expected": str(indep)})
    # `~@`: the only sugar decided by the character after the first one
    got = oread("~ " + ID_TOK + "1")
    chk.ob("sugar/unquote/opaque/whitespace after ~ never makes a splice", got == ("ok", [c_seq("Expression", [c_sym("unquote"), ("opaque", "i1")])]),
           "symx", "proved", detail=str(got))
    seen = {k for k in Opaque.LOG if (k[4:] if k.startswith("set:") else k) not in Opaque.ALLOWED}
    chk.ob("sugar/parametricity/the reader observes the inner form only through replace and position attributes",
           not seen, "symx", "proved", detail=f"other observations: {sorted(seen)}")
    chk.extra["opaque_observations"] = sorted(Opaque.LOG)


# ---- (1b) concrete inner forms -------------------------------------------------------------------------------------
INNER = {
    "symbol": "a", "dotted symbol": "foo.bar", "symbol starting with @": "@m", "integer": "1", "float": "-2.5", "string": '"s"',
    "bytes": 'b"x"', "list": "[1 2]", "expression": "(f x)", "empty expression": "()", "nested quote": "'x",
    "nested unquote-splice": "~@y", "nested unpack": "#* z", "nested annotate": "#^ int v", "keyword": ":k",
    "dict": '{"a" 1}', "set": "#{1}", "tuple": "#(1 2)", "f-string": 'f"a{b !r:>4}c"', "bracket string": "#[[bs]]",
    "bracket f-string": "#[f-x[q{r}s]f-x]", "string with newline and semicolon": '"a\n;b"',
}
ANN_TYPES = {"symbol": "int", "expression": "(of List int)", "string": '"T"', "quoted": "'q", "nested annotate": "#^ a b"}
ANN_TARGETS = {"symbol": "x", "default pair": "[b None]", "expression": "(f)", "unpack": "#* args", "keyword": ":k"}


def run_sugar_forms(chk):
    for head, prefix in SUGAR:
        if prefix == "#^":
            cases = [(f"type={tn}/target={xn}", (t, x)) for tn, t in ANN_TYPES.items() for xn, x in ANN_TARGETS.items()]
        else:
            cases = [(n, (f,)) for n, f in INNER.items()]
        for cname, forms in cases:
            bad, first = 0, None
            alone = [read_c(f) for f in forms]
            if any(s != "ok" or len(c) != 1 for s, c in alone):
                chk.ob(f"sugar/{head}/forms/{cname}", None, "ex", "bounded", detail=f"inner form does not read alone: {alone}")
                continue
            kids = [c[0] for _, c in alone]
            indep = ("ok", [c_seq("Expression", [c_sym(head)] + (kids[::-1] if prefix == "#^" else kids))])
            long = f"({head} {' '.join(forms[::-1] if prefix == '#^' else forms)})"
            want = read_c(long)
            for gname, gap in GAPS.items():
                g = gap.replace("J", "junk").replace("K", "(more junk)")
                text = prefix + g + forms[0]
                for f in forms[1:]:
                    text += (g if g and F.admissible(g, text[-1], f[0]) else " " + g) + f
                claimed = F.admissible(g, prefix[-1], forms[0][0]) or (g == "" and forms[0][0] == '"' and prefix.startswith("#"))
                if not claimed:
                    # not claimed by the docs: `~` + `@...` is the `~@` sugar; `#*name` is the reader macro `*name`, which must be
                    # an error (never a different model)
                    if prefix.startswith("#"):
                        got = read_c(text)
                        chk.case(("forms", head, cname, gname))
                        if not (got[0] == "lex" and "not defined" in got[1]):
                            bad += 1
                            first = first or {"input": text, "observed": str(got), "expected": "undefined reader macro error"}
                    continue
                got = read_c(text)
                chk.case(("forms", head, cname, gname))
                if not (got == want == indep):
                    bad += 1
                    first = first or {"input": text, "observed": str(got if got[0] != "ok" else [show(x) for x in got[1]]),
                                      "expected": f"{long} = {[show(x) for x in indep[1]]}; long form read {want if want[0] != 'ok' else [show(x) for x in want[1]]}"}
            chk.ob(f"sugar/{head}/forms/{cname}", bad == 0, "ex", "bounded", detail=first and str(first),
                   replay=first and {"confirmed": True, **first})
    got = read_c("~ @m")
    chk.ob("sugar/unquote/forms/~ then space then @m is (unquote @m)", got == ("ok", [c_seq("Expression", [c_sym("unquote"), c_sym("@m")])]),
           "ex", "bounded", detail=str(got))
    chk.bounds["sugar-forms"] = (f"{len(INNER)} inner forms x {len(GAPS)} gaps per one-form sugar; {len(ANN_TYPES)}x{len(ANN_TARGETS)} "
                                 f"type/target pairs x {len(GAPS)} gaps for #^")


# ---- spec vs docs vs live tables -------------------------------------------------------------------------------------
def run_spec(chk):
    docs = open(os.path.join(REPO, "docs", "syntax.rst"), encoding="utf-8").read()
    ws_sec = docs[docs.index("\nWhitespace\n"):docs.index("\nComments\n")]
    m = re.search(r"namely(.*?)\(space\)", ws_sec, re.S)
    listed = {chr(int(h, 16)) for h in re.findall(r"U\+([0-9A-F]{4})", m.group(1))} if m else None
    chk.ob("spec/docs list the six ASCII whitespace characters used as the specification", listed == set(DOC_WS), "docs", "exhaustive_finite",
           detail=f"docs: {sorted(map(ord, listed or ()))}")
    m = re.search(r"nor\s+one of the following: ``(.*?)``\.", docs, re.S)
    chk.ob("spec/docs list the non-identifier characters used as the specification", bool(m) and set(m.group(1)) == set(DOC_NON_IDENT),
           "docs", "exhaustive_finite", detail=m and m.group(1))
    sug = docs[docs.index("\nAdditional sugar\n"):docs.index("\nReader macros\n")]
    rows = {h: "".join(s.split()).replace("FORM", "") for h, s in re.findall(r":hy:func:`([a-z-]+)`\s+``(.*?)``", sug)}
    want = {h: p for h, p in SUGAR if h != "annotate"}
    chk.ob("spec/docs sugar table is the one checked", rows == want, "docs", "exhaustive_finite", detail=str(rows))
    api = open(os.path.join(REPO, "docs", "api.rst"), encoding="utf-8").read()
    chk.ob("spec/docs give #^ TYPE TARGET for (annotate TARGET TYPE)",
           "(setv (annotate x int) 1)" in api and "(setv #^ int x 1)" in api and "takes the name second" in api, "docs", "exhaustive_finite")
    chk.ob("spec/HyReader.NON_IDENT is the documented set", set(HyReader.NON_IDENT) == set(DOC_NON_IDENT), "structural", "exhaustive_finite",
           detail=str(sorted(HyReader.NON_IDENT)))
    keys1 = {k for k in HyReader.DEFAULT_TABLE if len(k) == 1}
    chk.ob("spec/single-character reader table is the documented non-identifier set plus # and :", keys1 == set(DOC_NON_IDENT) | {"#", ":"},
           "structural", "exhaustive_finite", detail=str(sorted(keys1)))
    macros = {k[1:] for k in HyReader.DEFAULT_TABLE if len(k) > 1 and k[0] == "#"}
    chk.ob("spec/built-in #-dispatch names", macros == {"_", "*", "**", "^", "[", "{", "("}, "structural", "exhaustive_finite", detail=str(sorted(macros)))
    r = HyReader()
    chk.ob("spec/a new reader ends identifiers exactly at the documented characters", r.ends_ident == set(DOC_NON_IDENT), "structural",
           "exhaustive_finite", detail=str(sorted(r.ends_ident)))


# ---- (2) whitespace over all code points ------------------------------------------------------------------------------
def cp_name(cp):
    return f"U+{cp:04X}"


def run_whitespace(chk, pool):
    N = 0x110000
    step = 0x1000
    full = chk.tier == "thorough"
    stride = 1 if full else 16          # quick tier: beyond the BMP the three secondary texts are read for every 16th code point
    parts = pool.map(F.w_codepoints, [(lo, min(lo + step, N), 1 if lo < 0x10000 else stride) for lo in range(0, N, step)])
    pred = sorted(cp for p in parts for cp in p["pred"])
    read = sorted(x for p in parts for x in p["read"])
    hashb = sorted(cp for p in parts for cp in p["hash"])
    n = sum(p["n"] for p in parts)
    chk.evaluations += n + N
    chk.extra["code_points"] = N
    chk.bounds["whitespace"] = ("all 0x110000 code points (surrogates included): predicate and 'a<c>b'; '<c>a', 'a<c>', '#<c>zz' for "
                                + ("all code points" if full else "the whole BMP and every 16th code point of the astral planes (all in the "
                                   "thorough tier; those astral obligations are labelled bounded in the quick tier)"))
    isspace_extra = [cp for cp in range(N) if chr(cp).isspace() and chr(cp) not in DOC_WS]
    # code-point classes, each its own obligation
    classes = [("documented " + cp_name(ord(c)), [ord(c)]) for c in DOC_WS]
    classes += [(f"undocumented str.isspace character {cp_name(cp)}", [cp]) for cp in isspace_extra]
    classes += [(f"non-identifier character {unicodedata.name(c).lower()}", [ord(c)]) for c in DOC_NON_IDENT]
    classes += [(f"reader character {unicodedata.name(c).lower()}", [ord(c)]) for c in "#:.@"]
    named = {cp for _, cps in classes for cp in cps}
    rest = [("other ASCII", range(0, 0x80)), ("other Latin-1 and BMP below surrogates", range(0x80, 0xD800)),
            ("surrogates", range(0xD800, 0xE000)), ("BMP above surrogates", range(0xE000, 0x10000)), ("astral planes", range(0x10000, N))]
    predset, hashset = set(pred), set(hashb)
    readmap = {}
    for cp, k, st, got in read:
        readmap.setdefault(cp, []).append((("a<c>b", "<c>a", "a<c>")[k], st, got))

    def emit(label, cps, skip=()):
        cps = [cp for cp in cps if cp not in skip]
        kind2 = "exhaustive_finite" if full or label != "astral planes" else "bounded"
        b = [cp for cp in cps if cp in predset]
        want = "true" if len(cps) == 1 and chr(cps[0]) in DOC_WS else "false"
        chk.ob(f"whitespace/isnormalizedspace/{want} for {label}", not b, "ex", "exhaustive_finite",
               detail=f"{[cp_name(c) for c in b[:10]]}: predicate disagrees with the documented list",
               replay=b and {"confirmed": True, "input": chr(b[0]), "observed": bool(isnormalizedspace(chr(b[0]))), "expected": chr(b[0]) in DOC_WS})
        b = [cp for cp in cps if cp in readmap]
        what = ("separates forms" if want == "true" else "has its documented reader meaning" if label.startswith(("non-identifier", "reader character"))
                else "is an identifier character")
        first = b and readmap[b[0]][0]
        chk.ob(f"whitespace/reader/{label} {what}", not b, "ex", kind2,
               detail=b and f"{[cp_name(c) for c in b[:10]]}; {cp_name(b[0])}: {first}",
               replay=b and {"confirmed": True, "input": first[0].replace("<c>", chr(b[0])), "observed": f"{first[1]}: {first[2]}",
                             "expected": str(F.spec_reads(chr(b[0]))[("a<c>b", "<c>a", "a<c>").index(first[0])])})
        b = [cp for cp in cps if cp in hashset]
        chk.ob(f"whitespace/after-hash/{label}: # then it is 'premature end of input' only for documented whitespace", not b, "ex",
               kind2, detail=b and f"{[cp_name(c) for c in b[:30]]}",
               replay=b and {"confirmed": True, "input": "#" + chr(b[0]) + "zz", "observed": str(read_c("#" + chr(b[0]) + "zz")),
                             "expected": "LexException: reader macro ... is not defined (the character is part of the macro name)"
                             if chr(b[0]) not in DOC_WS else "PrematureEndOfInput while attempting dispatch"})

    for label, cps in classes:
        emit(label, cps)
    for label, cps in rest:
        emit(label, cps, skip=named)
    chk.sample({"code point": "U+00A0", "a<c>b": str(read_c("a\xa0b"))})
    # canaries: a wrong claim paired with the true one; the machinery must reject at least one of the two on any code
    nb = read_c("a\xa0b")
    canary(chk, "NBSP is a separator (a<U+00A0>b reads as two forms)",
           F._same(("ok", [c_sym("a"), c_sym("b")]), nb), F._same(("ok", [c_sym("a\xa0b")]), nb))
    canary(chk, "isnormalizedspace agrees with str.isspace on every code point",
           all(bool(isnormalizedspace(chr(cp))) == chr(cp).isspace() for cp in isspace_extra),
           all(bool(isnormalizedspace(chr(cp))) == (chr(cp) in DOC_WS) for cp in isspace_extra))
    odd = "\u2028\x1c\x1d\x1e\x1f"
    canary(chk, "U+2028 and U+001C..U+001F end an identifier",
           all(read_c("a" + c + "b") == ("ok", [c_sym("a"), c_sym("b")]) for c in odd),
           all(read_c("a" + c + "b") == ("ok", [c_sym("a" + c + "b")]) for c in odd))


def canary(chk, name, wrong_claim_holds, true_claim_holds):
    """The wrong claim contradicts the true one, so whatever /repo does the comparison machinery must reject one of them;
    accepting both means it cannot tell the difference and the run is void."""
    chk.canary(name, (not wrong_claim_holds) or (not true_claim_holds))


# ---- (3) transparency, concatenation ------------------------------------------------------------------------------------
def label(f):
    t = F.render([f])
    r = repr(t)[1:-1]
    return r if len(r) <= 28 else r[:25] + "..."


def _chunks(n, k):
    step = max(1, (n + k - 1) // k)
    return [(lo, min(lo + step, n)) for lo in range(0, n, step)]


def _ob_bad(chk, name, cnt, bad, backend="rtc", kind="bounded"):
    first = bad[0] if bad else None
    confirmed = False
    if first and isinstance(first.get("input"), str):
        st, got = read_c(first["input"])
        confirmed = True
        first = dict(first, reobserved=[show(g) for g in got] if st == "ok" else f"{st}: {got}")
    chk.ob(name, not bad, backend, kind, detail=first and f"{cnt} cases; first: {first}", replay=first and {"confirmed": confirmed, **first})


def run_transparency(chk, pool):
    V = F.VOCAB
    nv = len(V)
    thorough = chk.tier == "thorough"
    # every vocabulary form must read alone as its documented model (guards the expectation builder)
    bad = [m for m in (F.check_text(F.render([f]), [F.expected(f)]) for f in V) if m]
    _ob_bad(chk, "transparency/vocabulary/every form in its plain spelling reads as the model built from its tree", nv, bad, "ex")
    kinds = set()

    def collect(c):
        if isinstance(c, tuple) and len(c) == 4 and isinstance(c[0], str) and c[0].startswith("hy.models."):
            kinds.add(c[0])
            for k in c[3]:
                collect(k)
    for f in V:
        collect(F.expected(f))
    chk.extra["vocabulary_model_types"] = sorted(kinds)
    need = {"hy.models." + n for n in ("Symbol", "Integer", "Float", "Complex", "Keyword", "String", "Bytes", "FString", "Expression",
                                       "List", "Dict", "Set", "Tuple")}
    chk.ob("transparency/vocabulary/covers every model type the reader produces", need <= kinds, "ex", "bounded", detail=str(sorted(need - kinds)))

    # alone: leading / interior / sugar gap / trailing boundaries x single and paired separators
    res = pool.map(F.w_single, [(i, i + 1) for i in range(nv)])
    for i, (cnt, bad) in enumerate(res):
        chk.evaluations += cnt
        _ob_bad(chk, f"transparency/one form, every boundary/{label(V[i])}", cnt, bad)
    # between two forms
    res = pool.map(F.w_pairs, [(i * nv, (i + 1) * nv, thorough) for i in range(nv)], chunksize=1)
    for i, (cnt, bad) in enumerate(res):
        chk.evaluations += cnt
        _ob_bad(chk, f"transparency/between two forms/first={label(V[i])}", cnt, bad)
    # bracket interiors
    nk = len(F.KIDS)
    res = pool.map(F.w_brackets, [(b * nk * nk + i * nk, b * nk * nk + (i + 1) * nk) for b in range(len(F.BRACKETS)) for i in range(nk)], chunksize=1)
    j = 0
    for b, (o, c, cls) in enumerate(F.BRACKETS):
        for i in range(nk):
            cnt, bad = res[j]
            j += 1
            chk.evaluations += cnt
            _ob_bad(chk, f"transparency/inside {o} {c}/first element={label(F.KIDS[i])}", cnt, bad)
    m = F.check_text("a ; c\r still the comment\n b", [c_sym("a"), c_sym("b")])
    _ob_bad(chk, "transparency/comment/a carriage return does not end a comment, the next line feed does", 1, [m] if m else [])
    # scale: nothing in the property bounds the length of a separator or of a token - runs far longer than any look-ahead buffer,
    # at the top level, inside brackets, leading and trailing, and identifiers / comments / strings of that length
    a, b, c = c_sym("a"), c_sym("b"), c_sym("c")
    bad, cnt = [], 0
    for n in (255, 256, 257, 300, 1000, 5000, 70000):
        for ws in (" ", "\n", "\t", "\r", "\f", "\v", " \t\n\r\f\v"):
            run = (ws * (n // len(ws) + 1))[:n]
            for text, want in ((f"a{run}b c", [a, b, c]), (f"{run}a b{run}", [a, b]), (f"(a{run}b) c", [c_seq("Expression", [a, b]), c]),
                               (f"[a b{run}] c", [c_seq("List", [a, b]), c]), (f"'{run}a b", [c_seq("Expression", [c_sym("quote"), a]), b]),
                               (f"a ;{'x' * n}\n b", [a, b]), (f"a #_{run}b c", [a, c])):
                cnt += 1
                m = F.check_text(text, want)
                if m:
                    m = dict(m)
                    m["input"] = (m.get("input") or text)[:40] + f"... ({len(text)} characters; separator run of {n})"
                    bad.append(m)
        ident = "i" + "d" * n
        for text, want in ((f"{ident} b", [c_sym(ident), b]), (f"a {ident}", [a, c_sym(ident)])):
            cnt += 1
            m = F.check_text(text, want)
            if m:
                bad.append({"input": f"an identifier of {n + 1} characters", "observed": str(m)[:200]})
    chk.evaluations += cnt
    _ob_bad(chk, "transparency/scale/separator runs, comments and identifiers of 255 to 70000 characters read like short ones", cnt, bad)
    # sequences of length 0..4
    empties = [""] + F.PAIR_SEPS + F.EOF_ONLY_SEPS + [s + e for s in F.SINGLE_SEPS for e in F.EOF_ONLY_SEPS]
    bad = [m for m in (F.check_text(t, []) for t in empties) if m]
    chk.evaluations += len(empties)
    _ob_bad(chk, "transparency/sequences/length 0: separators alone read as no forms", len(empties), bad)
    plan = {1: ("all", nv), 2: ("all", nv ** 2), 3: ("all", nv ** 3) if thorough else ("sample", 8000),
            4: ("sample", 120000 if thorough else 8000)}
    some = ["\r\n", "; comment\n", "#_ #_ a b "]
    for length, (mode, n) in plan.items():
        seps = F.SINGLE_SEPS if length < 3 else some
        jobs = [(length, lo, hi, chk.seed, mode == "sample", seps) for lo, hi in _chunks(n, chk.jobs * 4)]
        res = pool.map(F.w_seqs, jobs, chunksize=1)
        cnt = sum(r[0] for r in res)
        bad = [m for r in res for m in r[1]]
        chk.evaluations += cnt
        _ob_bad(chk, f"transparency/sequences/length {length}", cnt, bad)
        chk.bounds[f"sequences-length-{length}"] = (f"{'all' if mode == 'all' else 'seeded sample of'} {n} of {nv ** length} sequences over the "
                                                    f"{nv}-form vocabulary; " + (f"each of {len(seps)} single separators at all top-level boundaries + " if mode == "all" else "")
                                                    + "2 random separator assignments over all boundaries")
    chk.bounds["between-two-forms"] = f"all {nv}^2 ordered pairs x " + ("" if thorough else f"{len(F.SINGLE_SEPS)} single separators; for {len(F.REP_SECOND)} representative second forms x ") + f"{len(F.PAIR_SEPS)} separators ({len(F.SINGLE_SEPS)} singles and all their ordered pairs)"
    chk.bounds["bracket-interiors"] = f"5 bracket kinds x {nk}^2 element pairs x ({len(F.SINGLE_SEPS)} separators + none) at each interior boundary and at all"

    # hypothesis trees
    n_h = 2400 if thorough else 160
    per = max(1, n_h // chk.jobs)
    res = pool.map(w_hyp, [(per, chk.seed * 100 + k) for k in range(chk.jobs)], chunksize=1)
    cnt = sum(r[0] for r in res)
    bad = [r[1] for r in res if r[1]]
    chk.evaluations += cnt
    _ob_bad(chk, "transparency/hypothesis/generated form trees with random separators at every boundary", cnt, bad)
    chk.bounds["hypothesis"] = f"{per} examples x {chk.jobs} seeds; trees of <= 10 leaves over generated atoms; separators of <= 3 parts"

    # concatenation
    size = 220 if thorough else 80
    F.set_pool(F.make_pool(size, chk.seed))
    with multiprocessing.get_context("fork").Pool(chk.jobs) as p2:      # forked after the pool texts exist
        res = p2.map(F.w_concat, _chunks(size * size, chk.jobs * 8), chunksize=1)
    cnt = sum(r[0] for r in res)
    bad = [m for r in res for m in r[1]]
    chk.evaluations += cnt
    _ob_bad(chk, "concat/read_many(t1 + sep + t2) == read_many(t1) + read_many(t2) wherever no token is glued", cnt, bad)
    chk.extra["concat_pairs_not_claimed"] = sum(r[2] for r in res)
    chk.bounds["concat"] = (f"{size}^2 ordered pairs of whole-form texts (every vocabulary form, separators only, seeded multi-form renderings) x "
                            f"{len(F.CONCAT_SEPS)} separators incl. the empty one; claim restricted as documented in concat_claimed")
    chk.sample({"concat": repr(F._POOL[10] + "\n" + F._POOL[40])[:120]})
    # canaries of this part
    a, b = c_sym("a"), c_sym("b")
    canary(chk, "two atoms without a separator read as two forms", F.check_text("ab", [a, b]) is None, F.check_text("ab", [c_sym("ab")]) is None)
    canary(chk, "a comment without a newline is a separator between forms", F.check_text("a ; c b", [a, b]) is None, F.check_text("a ; c b", [a]) is None)
    canary(chk, "#_ directly after an identifier is a discard", F.check_text("a#_ x b", [a, b]) is None,
           F.check_text("a#_ x b", [c_sym("a#_"), c_sym("x"), b]) is None)
    ann = read_c("#^ a b")
    canary(chk, "#^ a b is (annotate a b)", ann == ("ok", [c_seq("Expression", [c_sym("annotate"), a, b])]),
           ann == ("ok", [c_seq("Expression", [c_sym("annotate"), b, a])]))
    chk.canary("deep equality ignores the brackets attribute",
               hm.String("a", brackets="") == hm.String("a") and canon(hm.String("a", brackets="")) != canon(hm.String("a")))
    chk.canary("deep equality ignores nested sequence types",
               canon(hm.Expression([hm.List([hm.Integer(1)])])) != canon(hm.Expression([hm.Expression([hm.Integer(1)])])))


# hypothesis worker ------------------------------------------------------------------------------------------------------
def hyp_cases():
    from hypothesis import strategies as st
    ident = st.text(alphabet="abz-_!?*+<>=/.:#@09 \xa0\u03bb\u2028", min_size=1, max_size=6)
    strbody = st.text(alphabet="ab ;#_()[]{}'`~\n\r\t\xa0:", max_size=8)
    raw = st.one_of(st.sampled_from(F.ATOMS), ident, strbody.map(lambda b: '"' + b + '"'), strbody.map(lambda b: "#[q[" + b + "]q]"),
                    strbody.map(lambda b: 'f"' + b.replace("{", "").replace("}", "") + '{v}"'))

    def one_form(t):
        st_, forms = read_c(t)
        return (st_ == "ok" and len(forms) == 1 and t[0] not in "'`~" and not t.startswith(("#*", "#^", "#_"))
                and t[0] not in DOC_WS and t[-1] not in DOC_WS)
    atoms = raw.filter(one_form).map(F.A)
    brackets = st.sampled_from(F.BRACKETS)

    def extend(kids):
        return st.one_of(
            st.tuples(brackets, st.lists(kids, max_size=3)).map(lambda bk: F.Q(bk[0][0], bk[0][1], bk[0][2], *bk[1])),
            st.tuples(st.sampled_from(["'", "`", "~", "~@", "#*", "#**"]), kids).map(lambda pk: F.P(pk[0], pk[1])),
            st.tuples(kids, kids).map(lambda tk: F.P("#^", tk[0], tk[1])))
    forms = st.recursive(atoms, extend, max_leaves=10)
    sep = st.lists(st.sampled_from(F.SINGLE_SEPS), max_size=3).map("".join)
    return st.tuples(st.lists(forms, max_size=4), st.lists(sep, min_size=16, max_size=16))


def w_hyp(args):
    from hypothesis import HealthCheck, given, seed, settings
    n, seed_ = args
    case = hyp_cases()
    last, count = [None], [0]

    @seed(seed_)
    @settings(max_examples=n, database=None, deadline=None, derandomize=False, suppress_health_check=list(HealthCheck), print_blob=False)
    @given(case)
    def prop(c):
        fs, seps = c
        count[0] += 1
        text = F.render(fs, lambda i, kind, d: seps[i % len(seps)])
        m = F.check_text(text, [F.expected(f) for f in fs])
        if m:
            last[0] = m
            raise AssertionError("mismatch")
    try:
        prop()
    except AssertionError:
        return count[0], last[0]
    except Exception as e:  # noqa: BLE001
        return count[0], last[0] or {"input": None, "observed": f"{type(e).__name__}: {e}"[:300], "expected": None}
    return count[0], None


# ---- run-time contracts on the real functions ------------------------------------------------------------------------------
def run_rtc(chk):
    viol = {k: [] for k in ("line_comment returns None and consumes through the first line feed or to the end of input",
                            "discard returns None and consumes separators and exactly one form",
                            "slurp_space returns only documented whitespace and stops before the first other character",
                            "parse_forms_until yields only models, never None, and consumes the closer")}
    k_lc, k_dc, k_ss, k_pf = viol
    calls = dict.fromkeys(viol, 0)
    table = HyReader.DEFAULT_TABLE
    o_lc, o_dc, o_ss, o_pf = table[";"], table["#_"], Reader.slurp_space, HyReader.parse_forms_until

    def lc(self, key):
        with self.saving_chars() as sc:
            r = o_lc(self, key)
        txt = "".join(sc)
        calls[k_lc] += 1
        if r is not None or "\n" in txt[:-1] or not (txt.endswith("\n") or self.peekc() == ""):
            viol[k_lc].append((self._source, txt, r))
        return r

    def dc(self, key):
        with self.saving_chars() as sc:
            r = o_dc(self, key)
        txt = "".join(sc)
        calls[k_dc] += 1
        st, forms = read_c(txt)
        if r is not None or st != "ok" or len(forms) != 1:
            viol[k_dc].append((self._source, txt, r))
        return r

    def ss(self):
        r = o_ss(self)
        calls[k_ss] += 1
        nxt = self.peekc()
        if not isinstance(r, str) or any(c not in DOC_WS for c in r) or (nxt and nxt in DOC_WS):
            viol[k_ss].append((self._source, r, nxt))
        return r

    def pf(self, closer):
        calls[k_pf] += 1
        with self.saving_chars() as sc:
            for m in o_pf(self, closer):
                if not isinstance(m, hm.Object):
                    viol[k_pf].append((self._source, closer, repr(m)))
                yield m
        txt = "".join(sc)
        if (closer and not txt.endswith(closer)) or (not closer and self.peekc() != ""):
            viol[k_pf].append((self._source, closer, f"stopped after {txt!r}"))

    texts = []
    for f in F.VOCAB:
        for s in [""] + F.SINGLE_SEPS:
            texts.append(F.render([f], lambda i, kind, d, s=s: s))
    for i, f in enumerate(F.VOCAB):
        g = F.VOCAB[(i * 7 + 3) % len(F.VOCAB)]
        for s in F.SINGLE_SEPS:
            texts.append(F.render([f, g], lambda i, kind, d, s=s: s))
    texts += ["; c", ";", "a ; c", "#_ a", "(a #_ b)", "[#_ #_ a b]", "#_\n\n(x ; c\n)\n", "a ; c\r still the comment\n b", "; c\r\n", ";\r"]
    table[";"], table["#_"], Reader.slurp_space, HyReader.parse_forms_until = lc, dc, ss, pf
    try:
        errs = []
        for t in texts:
            st, got = read_c(t)
            chk.case(("rtc", t))
            if st != "ok":
                errs.append((t, st, got))
    finally:
        table[";"], table["#_"], Reader.slurp_space, HyReader.parse_forms_until = o_lc, o_dc, o_ss, o_pf
    for k, v in viol.items():
        chk.ob(f"rtc/{k}", (not v) if calls[k] else None, "rtc", "bounded", detail=f"{calls[k]} calls; first violation: {v[:1]}",
               replay=v and {"confirmed": True, "input": v[0][0], "observed": str(v[0][1:]), "expected": k})
    chk.ob("rtc/every driven text reads", not errs, "rtc", "bounded", detail=str(errs[:2]))
    chk.bounds["rtc"] = f"{len(texts)} texts (every vocabulary form with each separator at all boundaries; pairs)"
    chk.extra["rtc_calls"] = {k.split(" ")[0]: n for k, n in calls.items()}


def run(chk):
    chk.level = "other"
    chk.explanation = ("sugar handlers proved on an opaque inner form (finite case analysis) and the whitespace class evaluated over every "
                       "code point; transparency under separators and concatenation quantify over all form sequences and are decided by "
                       "bounded enumeration + hypothesis with run-time contracts on the real reader functions, hence level `other`")
    chk.fn("hy/reader/hy_reader.py::HyReader.tag_as", "hy/reader/hy_reader.py::HyReader.unquote", "hy/reader/hy_reader.py::HyReader.hash_star",
           "hy/reader/hy_reader.py::HyReader.annotate", "hy/reader/hy_reader.py::HyReader.discard", "hy/reader/hy_reader.py::HyReader.line_comment",
           "hy/reader/hy_reader.py::HyReader.parse_forms_until", "hy/reader/hy_reader.py::HyReader.parse_one_form",
           "hy/reader/hy_reader.py::HyReader.try_parse_one_form", "hy/reader/hy_reader.py::HyReader.tag_dispatch",
           "hy/reader/reader.py::Reader.slurp_space", "hy/reader/reader.py::Reader.read_ident", "hy/reader/reader.py::isnormalizedspace")
    chk.trust("parametricity of the sugar handlers in the inner form (every observation of the opaque token is trapped and checked)",
              "io.StringIO delivers the characters of the text unchanged (no newline translation)",
              "docs/syntax.rst and docs/api.rst as the specification of whitespace, identifiers and sugar")
    run_spec(chk)
    run_sugar_opaque(chk)
    run_sugar_forms(chk)
    run_rtc(chk)
    with multiprocessing.get_context("fork").Pool(chk.jobs) as pool:
        run_whitespace(chk, pool)
        run_transparency(chk, pool)


def replay(path):
    from hv.replay import replay_file
    return replay_file(path)
