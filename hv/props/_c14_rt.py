"""C14 helper: logging runtime for generated Hy programs and the observation of one execution.

A program is run in a fresh namespace holding

  log(tag, *xs)     appends (tag, summary of xs) to the trace, returns the last x (None without xs)
  boom(tag, cls)    logs and raises cls(tag)          E1, E2(E1), E3: exception classes
  CM(name, ...)     context manager logging enter / exit (with the exception type), optionally suppressing
  Pt(x, y)          class with __match_args__ for class patterns
  ident, kw, deco   helper callables

The observation is (escaping exception type and message, trace, summary of every name the program bound, stdout).
"""
import contextlib
import io
import re
import types
import warnings


_ADDR = re.compile(r"0x[0-9a-fA-F]{6,}")          # object addresses in default reprs


def summ(x, depth=0):
    try:
        return _summ(x, depth)
    except Timeout:
        raise
    except Exception as e:  # noqa: BLE001
        return ("<unsummarisable>", type(x).__name__, type(e).__name__)


def _summ(x, depth=0):
    if depth > 6:
        return "<deep>"
    if isinstance(x, str):
        return ("str", _ADDR.sub("0x?", x))
    if x is None or isinstance(x, (bool, int, bytes)):
        return x if not isinstance(x, bytes) else ("bytes", x)
    if isinstance(x, float):
        return ("float", repr(x))
    if isinstance(x, complex):
        return ("complex", repr(x))
    if isinstance(x, (list, tuple)):
        return (type(x).__name__,) + tuple(summ(i, depth + 1) for i in x)
    if isinstance(x, (set, frozenset)):
        return (type(x).__name__,) + tuple(sorted((summ(i, depth + 1) for i in x), key=repr))
    if isinstance(x, dict):
        return ("dict",) + tuple((summ(k, depth + 1), summ(v, depth + 1)) for k, v in x.items())
    if isinstance(x, BaseException):
        return ("exception", type(x).__name__, str(x)[:120])
    if isinstance(x, type):
        return ("class", x.__name__, tuple(b.__name__ for b in x.__bases__), (x.__doc__ or None) if x.__module__ != "builtins" else None)
    if isinstance(x, (types.FunctionType, types.LambdaType)):
        c = x.__code__
        return ("function", x.__name__, c.co_argcount, c.co_posonlyargcount, c.co_kwonlyargcount, c.co_varnames[:c.co_argcount + c.co_kwonlyargcount],
                x.__doc__, summ(x.__defaults__, depth + 1), summ(x.__kwdefaults__, depth + 1),
                tuple(sorted((k, summ(v, depth + 1)) for k, v in getattr(x, "__annotations__", {}).items())))
    if isinstance(x, types.ModuleType):
        return ("module", x.__name__)
    if isinstance(x, (types.GeneratorType, types.CoroutineType, types.AsyncGeneratorType)):
        return ("<" + type(x).__name__ + ">",)
    if isinstance(x, Pt):
        return ("Pt", tuple(sorted((k, summ(v, depth + 1)) for k, v in x.__dict__.items())))
    if type(x).__module__.startswith("hy."):
        return ("hy", repr(x))
    d = getattr(x, "__dict__", None)
    if isinstance(d, dict) and depth < 3:
        return ("object", type(x).__name__, tuple(sorted((k, summ(v, depth + 1)) for k, v in d.items() if not k.startswith("__"))))
    return ("<" + type(x).__name__ + ">",)


class Timeout(BaseException):
    """raised by the harness' alarm; never caught by a generated program (they catch Exception at most)"""


class E1(Exception):
    pass


class E2(E1):
    pass


class E3(Exception):
    pass


class Pt:
    __match_args__ = ("x", "y")

    def __init__(self, x=0, y=0):
        self.x, self.y = x, y


def make_ns():
    trace = []

    def log(tag, *xs):
        trace.append((tag,) + tuple(summ(x) for x in xs))
        return xs[-1] if xs else None

    def boom(tag, cls=E1):
        trace.append(("boom", tag, cls.__name__))
        raise cls(tag)

    class CM:
        def __init__(self, name, suppress=False, value=None):
            self.name, self.suppress, self.value = name, suppress, value

        def __enter__(self):
            trace.append(("enter", self.name))
            return self.value if self.value is not None else self.name

        def __exit__(self, et, ev, tb):
            trace.append(("exit", self.name, et.__name__ if et else None))
            return self.suppress

    def ident(x=None):
        return x

    def kw(*a, **k):
        trace.append(("kw", summ(a), summ(k)))
        return len(a) + len(k)

    def deco(tag):
        def d(f):
            trace.append(("deco", tag, getattr(f, "__name__", "?")))
            return f
        return d

    ns = {"__name__": "hv_c14_prog", "log": log, "boom": boom, "E1": E1, "E2": E2, "E3": E3, "CM": CM, "Pt": Pt, "ident": ident,
          "kw": kw, "deco": deco}
    return ns, trace


def observe(code, limit_trace=400):
    """run a code object in a fresh namespace -> observation"""
    ns, trace = make_ns()
    base = set(ns)
    buf = io.StringIO()
    exc = None
    try:
        with contextlib.redirect_stdout(buf), warnings.catch_warnings():
            warnings.simplefilter("ignore")
            exec(code, ns)      # noqa: S102
    except Timeout:
        raise
    except BaseException as e:  # noqa: BLE001
        exc = (type(e).__name__, str(e)[:200])
    final = tuple(sorted(((k, summ(v)) for k, v in ns.items() if k not in base and k != "hy" and (not k.startswith("__") or k in ("__doc__", "__annotations__"))), key=lambda kv: kv[0]))
    return {"exception": exc, "trace": tuple(trace[:limit_trace]), "names": final, "stdout": buf.getvalue()[:2000]}


def first_difference(a, b):
    for k in ("exception", "trace", "names", "stdout"):
        if a[k] != b[k]:
            if k in ("trace", "names"):
                for i, (x, y) in enumerate(zip(a[k], b[k])):
                    if x != y:
                        return k, f"[{i}] {x!r} vs {y!r}"
                return k, f"lengths {len(a[k])} vs {len(b[k])}: {a[k][len(b[k]):][:2]!r} vs {b[k][len(a[k]):][:2]!r}"
            return k, f"{a[k]!r} vs {b[k]!r}"
    return None
