"""C23 helper: the exhaustive and bounded obligations of "string and bracket-string literals read with
Python's escape semantics".  `add(chk)` registers them on a Check object.

Everything here runs the REAL reader (`hy.read` / `hy.read_many`, i.e. HyReader.prefixed_string with its
closure quote_closing, read_string_until, read_chars_until, bracketed_string with its closure
delim_closing) and compares the observation (model class, value, `brackets`, or a HySyntaxError) with an
independent oracle:

  * double-quoted literals: CPython itself.  The equivalent Python literal of  P"<content>"  is
    P\"\"\"<content>\"\"\"  (Hy literals may span lines; <content> has no unescaped quote, so the triple-quoted
    form is the same literal), evaluated with `ast.literal_eval` while every warning is an error, so that
    CPython's "invalid escape sequence" SyntaxWarning counts as a rejection.  CR and CRLF are replaced by LF
    before CPython sees the text (that is what CPython's source reader does with universal newlines).
    One completion of that oracle: an escaping backslash before a NON-ASCII character is an unrecognised escape
    by the language reference's table, but CPython gives no warning for it (see _nonascii_escape); it counts
    as a rejection.  Octal escapes above 0o377 are recognised escapes (the language reference: deprecated since 3.12,
    value as before), so CPython's "invalid octal escape sequence" warning is NOT a rejection (an earlier version of
    this oracle took it for one and reported Hy's - correct - acceptance as a finding: a false alarm, corrected).
  * where the literal ends: the first '"' preceded by an even number of consecutive backslashes (a four-line
    specification function, itself checked against CPython's tokenizer).
  * bracket strings: `str.find` of the closing sequence "]" + D + "]", one leading LF / CR / CRLF removed,
    remaining CR / CRLF read as LF.

Obligation groups (names are stable):
  escape-table/...      every code point c as the escape character  P"\\c"            (exhaustive_finite)
  literal-char/...      every code point c as a literal character    P"c\\nc"          (exhaustive_finite)
  octal-escape/...      every \\o, \\oo, \\ooo                                         (exhaustive_finite)
  hex-escape/...        every \\xHH (both letter cases) and the truncated forms       (exhaustive_finite)
  u-escape/..., U-escape/...   every \\uXXXX, every \\UXXXXXXXX incl. out of range      (exhaustive_finite)
  N-escape/...          \\N{name} for every named code point, aliases, bad names      (exhaustive_finite)
  escape-form/...       each escape-sequence form under each of the five prefixes     (exhaustive_finite)
  quote-closing/...     every string <= L over {backslash, quote, n, q} per prefix    (exhaustive_finite)
  oracle/...            the end-of-literal specification against CPython's tokenizer
  differential/...      hypothesis-generated contents per prefix and class            (bounded)
  bracket/...           small-alphabet enumeration (exhaustive_finite) and random delimiters/contents (bounded)
"""
import hv.symx.core  # noqa: F401  (puts /repo on sys.path, pre-imports hy)

import ast
import gc
import io
import itertools
import multiprocessing
import sys
import time
import tokenize
import unicodedata
import warnings

from hypothesis import HealthCheck, given, seed, settings
from hypothesis import strategies as st

import hy
from hy.errors import HySyntaxError
from hy.models import Bytes, FString, Integer, String

PREFIXES = ("", "r", "b", "br", "rb")
FILE = "hy/reader/hy_reader.py"
CHUNK = 0x1000          # code points per pool task
_FAST = False

# --------------------------------------------------------------------------------------------------
# observation of the real reader
# --------------------------------------------------------------------------------------------------


def _model_value(m):
    if isinstance(m, FString):
        parts = list(m)
        if all(isinstance(p, String) for p in parts):
            return ("FString", "".join(str(p) for p in parts), m.brackets)
        return ("FString", None, m.brackets)
    if isinstance(m, String):
        return ("String", str(m), m.brackets)
    if isinstance(m, Bytes):
        return ("Bytes", bytes(m), None)
    if isinstance(m, Integer):
        return ("Integer", int(m), None)
    return (type(m).__name__, repr(m), None)


def hy_read(src):
    """First form of `src` read by the real reader: ("ok", class, value, brackets) | ("rej", exception class)."""
    try:
        m = hy.read(src)
    except HySyntaxError as e:          # LexException, PrematureEndOfInput
        return ("rej", type(e).__name__)
    except Exception as e:              # anything else escaping the reader is a contract violation
        return ("crash", type(e).__name__ + ": " + str(e)[:80])
    return ("ok",) + _model_value(m)


def hy_read_all(src):
    try:
        ms = list(hy.read_many(src))
    except HySyntaxError as e:
        return ("rej", type(e).__name__)
    except Exception as e:
        return ("crash", type(e).__name__ + ": " + str(e)[:80])
    return ("ok", [_model_value(m) for m in ms])


# --------------------------------------------------------------------------------------------------
# oracles
# --------------------------------------------------------------------------------------------------


def lit_end(s):
    """Index of the first '"' of s preceded by an even number of consecutive backslashes, or -1."""
    run = 0
    for i, c in enumerate(s):
        if c == "\\":
            run += 1
        else:
            if c == '"' and run % 2 == 0:
                return i
            run = 0
    return -1


def _norm_nl(s):
    return s.replace("\r\n", "\n").replace("\r", "\n")


def _unrepresentable(c):
    return c == "\x00" or 0xD800 <= ord(c) <= 0xDFFF


def _odd_backslash_before(content, pred):
    run = 0
    for i, c in enumerate(content):
        if c == "\\":
            run += 1
        else:
            if run % 2 and pred(content, i):
                return True
            run = 0
    return False


def _nonascii_escape(content):
    """An escaping backslash followed by a non-ASCII character.  The language reference lists the recognised
    escapes (all ASCII), so this is an unrecognised escape sequence; CPython nevertheless gives NO warning for it
    (Parser/string_parser.c, decode_unicode_with_escapes, rewrites backslash + non-ASCII to \\u005c + the
    character before the escape decoder runs), so the warning-as-error oracle is completed by this rule."""
    return _odd_backslash_before(content, lambda s, i: ord(s[i]) >= 0x80)


def has_big_octal(content):
    """An octal escape above 0o377 (\\400 .. \\777): decided exhaustively by the octal-escape obligations and
    excluded from the random runs so that they report other defects."""
    return _odd_backslash_before(content, lambda s, i: s[i] in "4567" and len(s) > i + 2 and s[i + 1] in "01234567"
                                 and s[i + 2] in "01234567")


def py_literal(prefix, content, strict=True):
    """Value of the equivalent Python literal: ("ok", value) | ("rej", why).

    `content` must not contain an unescaped '"'.  CPython cannot read source text containing NUL or lone
    surrogates; such characters are replaced by stand-ins that do not occur in the content and that CPython
    treats like any other ordinary character (DEL or a C0 control character for NUL, private-use characters for surrogates), and
    mapped back in the value (trusted: CPython's literal semantics are uniform in ordinary characters)."""
    assert lit_end(content + '"') == len(content), content
    back = {}
    if any(_unrepresentable(c) for c in content):
        used = set(content)
        out = []
        for c in content:
            if _unrepresentable(c) and c not in back:
                cands = (0x7F, 1, 2, 3, 4, 5, 6) if c == "\x00" else range(0xE000, 0xF900)
                back[c] = next(chr(x) for x in cands if chr(x) not in used)
                used.add(back[c])
            out.append(back.get(c, c))
        content = "".join(out)
    if strict and prefix == "" and _nonascii_escape(content):
        return ("rej", "unrecognised escape: backslash before a non-ASCII character")
    src = prefix + '"""' + _norm_nl(content) + '"""'
    if strict and _FAST:
        try:
            v = ast.literal_eval(src)
        except SyntaxError as e:        # includes invalid-escape warnings turned into errors
            return ("rej", (e.msg or "")[:60])
    else:
        with warnings.catch_warnings():
            warnings.simplefilter("error" if strict else "ignore")
            if strict:
                warnings.filterwarnings("ignore", message="invalid octal escape sequence")     # recognised, merely deprecated
            try:
                v = ast.literal_eval(src)
            except SyntaxError as e:
                return ("rej", (e.msg or "")[:60])
    for orig, stand in back.items():
        if isinstance(v, bytes):
            v = v.replace(stand.encode("latin-1"), orig.encode("latin-1"))
        else:
            v = v.replace(stand, orig)
    return ("ok", v)


def py_lenient(prefix, content):
    """The WRONG oracle of canary 1: CPython with the invalid-escape warning ignored."""
    return py_literal(prefix, content, strict=False)


def expected_of(p):
    if p[0] == "ok":
        return ("ok", "Bytes" if isinstance(p[1], bytes) else "String", p[1], None)
    return ("rej",)


def _same(h, exp):
    if exp[0] == "rej":
        return h[0] == "rej"
    return h == exp


def cmp_literal(prefix, s, oracle=py_literal, tail=True):
    """Contract of prefixed_string on the source  prefix + '"' + s + '"'  (s arbitrary text).

    The literal ends at the first unescaped quote of s + '"'; its value/rejection is the oracle's for the text
    before that quote.  When the literal spans all of s, the form after it must be read as the next form.
    Returns None or a mismatch record."""
    k = lit_end(s + '"')
    src = prefix + '"' + s + '"'
    h = hy_read(src)
    exp = ("rej",) if k < 0 else expected_of(oracle(prefix, s[:k]))
    if not _same(h, exp):
        return {"input": src, "observed": h, "expected": exp}
    if tail and k == len(s) and h[0] == "ok":
        a = hy_read_all(src + " 7")
        want = ("ok", [h[1:], ("Integer", 7, None)])
        if a != want:
            return {"input": src + " 7", "observed": a, "expected": want, "all": True}
    return None


def strip1(s):
    for nl in ("\r\n", "\n", "\r"):
        if s.startswith(nl):
            return s[len(nl):]
    return s


def cmp_bracket(d, s, strip=True):
    """Contract of bracketed_string on  "#[" + d + "[" + s + "]" + d + "]"  (s arbitrary, d without brackets)."""
    closer = "]" + d + "]"
    text = s + closer
    idx = text.find(closer)
    body = text[:idx]
    val = _norm_nl(strip1(body) if strip else body)
    cls = "FString" if (d == "f" or d.startswith("f-")) else "String"
    src = "#[" + d + "[" + text
    exp = ("ok", cls, val, d)
    if idx == len(s):
        a = hy_read_all(src + " 7")
        want = ("ok", [exp[1:], ("Integer", 7, None)])
        if a != want:
            return {"input": src + " 7", "observed": a, "expected": want, "all": True}
        return None
    h = hy_read(src)
    if h != exp:
        return {"input": src, "observed": h, "expected": exp}
    return None


# --------------------------------------------------------------------------------------------------
# pool workers (module level; arguments are plain tuples)
# --------------------------------------------------------------------------------------------------


def _res(group, n, bad, **info):
    return {"group": group, "n": n, "bad": bad[:3], "nbad": len(bad), "info": info}


PACK = 32


def _one(prefix, content, bad):
    """One literal, first form only: returns True when Hy accepted it."""
    src = prefix + '"' + content + '"'
    h = hy_read(src)
    exp = expected_of(py_literal(prefix, content))
    if not _same(h, exp):
        bad.append({"input": src, "observed": h, "expected": exp})
    return h[0] == "ok"


def _packed(prefix, cps, piece, bad):
    """The code points `cps` PACK at a time in one literal (content = concatenation of piece(c)); every pack that
    is not read exactly like the Python literal is re-run one code point at a time.  Returns the number accepted.
    Used where both sides accept almost everything (a rejection cannot be packed: it hides the rest)."""
    acc = 0
    for i in range(0, len(cps), PACK):
        part = cps[i:i + PACK]
        content = "".join(piece(chr(cp)) for cp in part)
        exp = expected_of(py_literal(prefix, content))
        if exp[0] == "ok" and hy_read(prefix + '"' + content + '"') == exp:
            acc += len(part)
        else:
            acc += sum(_one(prefix, piece(chr(cp)), bad) for cp in part)
    return acc


def _w_escape_table(args):
    prefix, lo, hi = args
    bad, accepted = [], []
    if "r" in prefix:
        # raw: every character is accepted after a backslash and the backslash stays
        single = [cp for cp in range(lo, hi) if cp < 0x80]
        nacc = sum(_one(prefix, "\\" + chr(cp), bad) for cp in single)
        nacc += _packed(prefix, [cp for cp in range(lo, hi) if cp >= 0x80], lambda c: "\\" + c, bad)
        return _res(f"escape-table/prefix={prefix}/plane={lo >> 16:02x}", hi - lo, bad, naccepted=nacc)
    for cp in range(lo, hi):
        if _one(prefix, "\\" + chr(cp), bad):
            accepted.append(cp)
    return _res(f"escape-table/prefix={prefix or 'none'}/plane={lo >> 16:02x}", hi - lo, bad, accepted=accepted,
                naccepted=len(accepted))


def _w_literal_char(args):
    prefix, lo, hi, stride = args
    bad = []
    cps = [cp for cp in range(lo, hi, stride) if chr(cp) not in '"\\']     # quote and backslash are not literal characters
    if "b" in prefix:
        # non-ASCII is rejected one literal at a time
        for cp in cps:
            _one(prefix, chr(cp) + "\\n" + chr(cp), bad)
    else:
        _packed(prefix, cps, lambda c: c + "\\n", bad)
    return _res(f"literal-char/prefix={prefix or 'none'}/plane={lo >> 16:02x}", len(cps), bad)


def _w_big_u(args):
    lo, hi = args
    bad = []
    cps = list(range(lo, hi))
    _packed("", cps, lambda c: "\\U%08x" % ord(c), bad)
    # the oracle is CPython; that CPython's value is the code point itself is checked on the pack as well
    for i in range(0, len(cps), PACK):
        part = cps[i:i + PACK]
        p = py_literal("", "".join("\\U%08x" % cp for cp in part))
        if p != ("ok", "".join(map(chr, part))):
            bad.append({"input": None, "observed": "cpython: " + ascii(p), "expected": ascii(part)})
    return _res(f"U-escape/prefix=none/plane={lo >> 16:02x}", hi - lo, bad)


def _w_named(args):
    lo, hi = args
    bad = []
    cps = []
    for cp in range(lo, hi):
        try:
            unicodedata.name(chr(cp))
        except ValueError:
            continue
        cps.append(cp)
    _packed("", cps, lambda c: "\\N{" + unicodedata.name(c) + "}", bad)
    for i in range(0, len(cps), PACK):
        part = cps[i:i + PACK]
        p = py_literal("", "".join("\\N{" + unicodedata.name(chr(cp)) + "}" for cp in part))
        if p != ("ok", "".join(map(chr, part))):
            bad.append({"input": None, "observed": "cpython: " + ascii(p), "expected": ascii(part)})
    return _res("N-escape/prefix=none/every-named-code-point", len(cps), bad)


def _w_contents(args):
    """Explicit list of contents under one prefix: one result per group name."""
    group, prefix, contents = args
    bad = []
    for s in contents:
        m = cmp_literal(prefix, s)
        if m:
            bad.append(m)
    return _res(group, len(contents), bad)


def _w_quote_closing(args):
    prefix, L = args
    bad, n = [], 0
    for k in range(L + 1):
        for tup in itertools.product('\\"nq', repeat=k):
            n += 1
            m = cmp_literal(prefix, "".join(tup))
            if m:
                bad.append(m)
    return _res(f"quote-closing/prefix={prefix or 'none'}/all-strings-over-backslash-quote-n-q", n, bad)


def _w_bracket_enum(args):
    group, d, alphabet, L = args
    bad, n = [], 0
    for k in range(L + 1):
        for tup in itertools.product(alphabet, repeat=k):
            n += 1
            m = cmp_bracket(d, "".join(tup))
            if m:
                bad.append(m)
    return _res(group, n, bad)


# ---- hypothesis ------------------------------------------------------------------------------------

VALID_ESC = ["\\n", "\\t", "\\\\", "\\'", '\\"', "\\a", "\\b", "\\f", "\\v", "\\r", "\\0", "\\7", "\\12", "\\123",
             "\\377", "\\x41", "\\xe9", "\\u1234", "\\u00e9", "\\U0001F600", "\\N{BULLET}", "\\N{LATIN SMALL LETTER A}",
             "\\\n", "\\\r", "\\\r\n"]
INVALID_ESC = ["\\q", "\\8", "\\9", "\\ ", "\\d", "\\w", "\\(", "\\{", "\\.", "\\E", "\\X41", "\\é", "\\☃", "\\\t",
               "\\x4", "\\x", "\\xg1", "\\u12", "\\u", "\\U0001F60", "\\U00110000", "\\N", "\\N{", "\\N{}",
               "\\N{NO SUCH NAME}", "\\N{BULLET"]
NONASCII = ["é", "\x80", "\xff", "\xa0", "Ā", "ſ", "☃", "\u2028", "\u2029", "\x85", "\ufeff", "\u0301", "😀",
            "\U0010ffff", "中"]
NEWLINES = ["\n", "\r", "\r\n", "\n\n", "\n\r"]
PLAIN = ["a", "b", "n", "N", "u", "x", "0", "7", " ", "\t", "'", "'''", "{", "}", "#", ";", "(", "]", "\x0c", "\x01"]

CLASSES = {
    "quotes-and-backslash-runs": ['"', '"', "\\", "\\", "\\\\", '\\"', '\\\\"', '\\\\\\"', "a", "n", "q", " ", "'", "\n"],
    "valid-and-invalid-escapes": VALID_ESC + INVALID_ESC + PLAIN + ['"', "\\"],
    "non-ascii": NONASCII + VALID_ESC[:12] + ["\\q", "\\é", '"', "\\", "a", " "],
    "newlines": NEWLINES * 2 + ["\\\n", "\\\r", "\\\r\n", "\\", '"', "a", " ", "\\n", "\\r", "\\q", "é"],
}


def _hyp_run(test, strategy, n, seed_):
    """Run `test(x) -> mismatch|None` on hypothesis-generated values; returns (cases, minimal mismatch|None)."""
    last, count = [None], [0]

    @seed(seed_)
    @settings(max_examples=n, database=None, deadline=None, derandomize=False,
              suppress_health_check=list(HealthCheck), print_blob=False)
    @given(strategy)
    def prop(x):
        count[0] += 1
        m = test(x)
        if m:
            last[0] = m             # hypothesis re-runs the shrunk example last
            raise AssertionError("mismatch")

    try:
        prop()
    except AssertionError:
        return count[0], last[0]
    except Exception as e:          # hypothesis wrappers (Flaky, MultipleFailures)
        return count[0], last[0] or {"input": None, "observed": f"{type(e).__name__}: {e}"[:200], "expected": None}
    return count[0], None


def _w_differential(args):
    prefix, cname, n, seed_ = args
    if cname == "any-text":
        # surrogates and NUL excluded: CPython cannot read them in source text (see bounds)
        chars = st.characters(exclude_categories=["Cs"], exclude_characters="\x00")
        tok = st.one_of(chars, st.sampled_from(['"', "\\", "\\\\", '\\"', "\n", "\r", "\r\n"] + VALID_ESC + INVALID_ESC))
    else:
        tok = st.sampled_from(CLASSES[cname])
    strat = st.lists(tok, max_size=12).map("".join)
    def test(s):
        k = lit_end(s + '"')
        return cmp_literal(prefix, s)

    cnt, m = _hyp_run(test, strat, n, seed_)
    return _res(f"differential/prefix={prefix or 'none'}/class={cname}", cnt, [m] if m else [])


DELIM_CHARS = "abf=-|+*<>^!?.,:;'\"\\/ x0é😀"


def _w_bracket_random(args):
    cname, n, seed_ = args
    if cname == "fstring-delimiters":
        delims = st.one_of(st.just("f"), st.text(alphabet="abf=-|x0é", max_size=4).map(lambda t: "f-" + t))
        extra = ["\n", "\r", "\r\n", "\\", '"', "'", " ", "é", "#", "[", "f", "-"]
    elif cname == "delimiters-with-braces":
        delims = st.text(alphabet=DELIM_CHARS + "{}", max_size=5).filter(lambda t: not (t == "f" or t.startswith("f-")))
        extra = ["\n", "\r", "\r\n", "\\", '"', "'", " ", "é", "#", "[", "{", "}", "\\n", "😀"]
    else:
        delims = st.text(alphabet=DELIM_CHARS, max_size=5).filter(lambda t: not (t == "f" or t.startswith("f-")))
        extra = ["\n", "\r", "\r\n", "\\", '"', "'", " ", "é", "#", "[", "\\n", "\\q", "😀", "\x00"]

    @st.composite
    def case(draw):
        d = draw(delims)
        toks = ["]", "]", "]]"] + extra + list(set(d)) + ["]" + d[:j] for j in range(len(d) + 1)] + [d + "]"]
        s = "".join(draw(st.lists(st.sampled_from(toks), max_size=10)))
        return d, s

    cnt, m = _hyp_run(lambda ds: cmp_bracket(*ds), case(), n, seed_)
    return _res(f"bracket/random/class={cname}", cnt, [m] if m else [])


WORKERS = {
    "escape_table": _w_escape_table, "literal_char": _w_literal_char, "big_u": _w_big_u, "named": _w_named,
    "contents": _w_contents, "quote_closing": _w_quote_closing, "bracket_enum": _w_bracket_enum,
    "differential": _w_differential, "bracket_random": _w_bracket_random,
}


def _init_worker():
    """In a pool worker CPython's invalid-escape SyntaxWarning is an error for the whole process (entering
    `warnings.catch_warnings` per literal costs more than the literal).  Only SyntaxWarning: the reader's own
    run-time decoding (codecs) emits DeprecationWarning, which must stay a warning while Hy reads."""
    global _FAST
    warnings.filterwarnings("error", category=SyntaxWarning)
    warnings.filterwarnings("ignore", message="invalid octal escape sequence", category=SyntaxWarning)     # recognised, merely deprecated
    _FAST = sys.version_info >= (3, 12)     # before 3.12 the invalid-escape warning is a DeprecationWarning


def _dispatch(task):
    kind, args = task
    t = time.process_time()
    r = WORKERS[kind](args)
    r["kind"], r["cpu"] = kind, time.process_time() - t
    return r


# --------------------------------------------------------------------------------------------------
# explicit tables
# --------------------------------------------------------------------------------------------------

ESCAPE_FORMS = [
    ("backslash-n", "\\n"), ("backslash-t", "\\t"), ("backslash-backslash", "\\\\"), ("backslash-apostrophe", "\\'"),
    ("backslash-quote", '\\"'), ("backslash-a", "\\a"), ("backslash-b", "\\b"), ("backslash-f", "\\f"),
    ("backslash-v", "\\v"), ("backslash-r", "\\r"), ("octal-0", "\\0"), ("octal-7", "\\7"), ("octal-12", "\\12"),
    ("octal-123", "\\123"), ("octal-1234", "\\1234"), ("octal-377", "\\377"), ("hex-41", "\\x41"), ("hex-ff", "\\xff"),
    ("hex-41-then-digit", "\\x412"), ("u-1234", "\\u1234"), ("u-1234-then-digit", "\\u12345"),
    ("U-0001F600", "\\U0001F600"), ("N-BULLET", "\\N{BULLET}"), ("N-lower-case-name", "\\N{bullet}"),
    ("line-continuation-LF", "\\\n"), ("line-continuation-CR", "\\\r"), ("line-continuation-CRLF", "\\\r\n"),
    ("raw-LF", "\n"), ("raw-CR", "\r"), ("raw-CRLF", "\r\n"), ("raw-CR-CR-LF", "\r\r\n"), ("raw-LF-CR", "\n\r"),
    ("double-backslash-then-n", "\\\\n"), ("triple-backslash-then-n", "\\\\\\n"),
    ("hex-5c-then-n", "\\x5cn"), ("octal-134-then-n", "\\134n"),
    ("invalid-q", "\\q"), ("invalid-8", "\\8"), ("invalid-space", "\\ "), ("invalid-upper-X", "\\X41"),
    ("invalid-non-ascii", "\\é"), ("invalid-after-valid", "\\n\\q"), ("truncated-x", "\\x4"),
    ("truncated-u", "\\u123"), ("truncated-U", "\\U0001F60"), ("U-out-of-range", "\\U00110000"),
    ("N-unknown-name", "\\N{NO SUCH CHARACTER}"), ("N-unterminated", "\\N{BULLET"), ("N-without-brace", "\\Nx"),
    ("N-empty", "\\N{}"), ("non-ascii-literal", "é"), ("non-latin-1-literal", "Ā☃😀"),
    ("non-ascii-after-escape", "\\né\\x41Ā"), ("backslash-before-non-latin-1", "\\\\Ā"), ("empty", ""),
]

N_SPECIAL = ["\\N{LF}", "\\N{NULL}", "\\N{BEL}", "\\N{LINE FEED}", "\\N{LATIN CAPITAL LETTER GHA}", "\\N{latin small letter a}",
             "\\N{Latin Small Letter A}", "\\N{KEYCAP NUMBER SIGN}", "\\N{LATIN SMALL LETTER A WITH MACRON AND GRAVE}",
             "\\N{ BULLET}", "\\N{BULLET }", "\\N{BULLET}}", "\\N{{BULLET}", "\\N{}", "\\N{", "\\N", "\\N}", "\\NBULLET",
             "\\N{BULLET}\\N{BULLET}", "a\\N{BULLET}b", "\\N{HANGUL SYLLABLE GAG}", "\\N{CJK UNIFIED IDEOGRAPH-4E2D}",
             "\\N{CJK UNIFIED IDEOGRAPH-4e2d}", "\\N{é}", "\\N{中}", "\\N{a\nb}", "\\n{BULLET}"]


def _octal_contents(ndigits, gt377):
    out = []
    for tup in itertools.product("01234567", repeat=ndigits):
        o = "".join(tup)
        if (int(o, 8) > 0o377) != gt377:
            continue
        out += ["\\" + o, "\\" + o + "8", "a\\" + o + "z"] + (["\\" + o + "1"] if ndigits == 3 else [])
    return out


def _hex_contents():
    out = []
    for v in range(256):
        out += ["\\x%02x" % v, "\\x%02X" % v, "\\x%02xf" % v]
    out += ["\\x", "\\x4", "\\x4g", "\\xg4", "\\x 4", "\\x+4", "\\x-1", "\\x4\\x41", "\\x_4", "\\x4_", "\\x٤1", "\\xA", "\\xé"]
    return out


def _u_contents(lo, hi):
    out = []
    for v in range(lo, hi):
        out.append("\\u%04x" % v)
        if v % 16 == 10:
            out.append("\\u%04X" % v)
    return out


BRACKET_DELIMS = [""] + ["".join(t) for k in (1, 2) for t in itertools.product("ab=f", repeat=k)]


# --------------------------------------------------------------------------------------------------
# the entry point
# --------------------------------------------------------------------------------------------------


def _confirm(m):
    """Re-run a reported mismatch on the real reader in this process."""
    if not m or m.get("input") is None:
        return False
    src = m["input"]
    return (hy_read_all(src) if m.get("all") else hy_read(src)) == m["observed"]


def _show(x):
    return ascii(x)


def add(chk):
    thorough = chk.tier == "thorough"
    chk.fn(f"{FILE}::HyReader.prefixed_string", f"{FILE}::HyReader.prefixed_string.<locals>.quote_closing",
           f"{FILE}::HyReader.read_string_until", f"{FILE}::HyReader.read_chars_until",
           f"{FILE}::HyReader.bracketed_string", f"{FILE}::HyReader.bracketed_string.<locals>.delim_closing")
    chk.trust("CPython's own literal semantics (ast.literal_eval with every warning an error) as the oracle for values "
              "and for which escapes are recognised",
              "CPython reads CR and CRLF in source text as LF (the oracle is given the LF form)",
              "the equivalent Python literal of P\"c\" is P\"\"\"c\"\"\" (c has no unescaped quote)",
              "NUL and lone surrogates (unreadable for CPython) behave like any other ordinary character: a stand-in "
              "character is given to CPython and mapped back")

    QL = 8 if thorough else 7
    BL = 6 if thorough else 5
    NH = 4000 if thorough else 300
    chk.bounds["escape-table"] = "all 0x110000 code points x prefixes '', b, r (both tiers)"
    chk.bounds["literal-char"] = ("all 0x110000 code points except quote and backslash, content c\\n (32 per literal where both "
                                  "sides accept, singly where rejected), prefixes '', r, b"
                                  + ("" if thorough else "; quick tier: prefix b on planes 1-16 every 16th code point (kind bounded)"))
    chk.bounds["quote-closing"] = f"all strings of length <= {QL} over backslash, quote, n, q under each of the 5 prefixes"
    chk.bounds["differential"] = (f"{NH} hypothesis examples per (prefix, class), contents of <= 12 tokens; NUL and lone "
                                  "surrogates excluded from the random alphabets")
    chk.bounds["bracket-enum"] = (f"delimiters: all strings of length <= 2 over a,b,=,f (21, incl. f) and f-, f-a; contents: all "
                                  f"strings of length <= {BL} over ], a, b, LF and the delimiter's characters; verbatim alphabet "
                                  f"(], a, LF, CR, backslash, quote) length <= {BL} for delimiters '', a, f")
    chk.bounds["bracket-random"] = f"{NH} hypothesis examples per class, delimiters <= 5 characters, contents <= 10 tokens"

    tasks = []
    for prefix in ("", "b", "r"):
        for lo in range(0, 0x110000, CHUNK):
            tasks.append(("escape_table", (prefix, lo, lo + CHUNK)))
            # quick tier: the (uniformly rejected) non-BMP characters of bytes literals are sampled with stride 16
            stride = 16 if (prefix == "b" and lo >= 0x10000 and not thorough) else 1
            tasks.append(("literal_char", (prefix, lo, lo + CHUNK, stride)))
    for lo in range(0, 0x110000, CHUNK):
        tasks.append(("big_u", (lo, lo + CHUNK)))
        tasks.append(("named", (lo, lo + CHUNK)))
    tasks.append(("contents", ("U-escape/out-of-range-and-truncated", "",
                               ["\\U00110000", "\\U0011FFFF", "\\UFFFFFFFF", "\\U7FFFFFFF", "\\U80000000", "\\U0001F60",
                                "\\U", "\\U0001F60g", "\\U0001f600", "\\U0001F6000", "\\U0000d800", "\\U0000DFFF"])))
    for lo in range(0, 0x10000, 0x2000):
        tasks.append(("contents", ("u-escape/prefix=none/every-4-digit-value", "", _u_contents(lo, lo + 0x2000))))
    tasks.append(("contents", ("u-escape/truncated-and-case", "",
                               ["\\u", "\\u1", "\\u12", "\\u123", "\\u123g", "\\uD800\\uDC00", "\\ud83d\\ude00", "\\u 123",
                                "\\u+123", "\\u12345", "\\uABCD", "\\uabcd"])))
    for prefix in ("", "b"):
        p = prefix or "none"
        for nd in (1, 2, 3):
            tasks.append(("contents", (f"octal-escape/prefix={p}/digits={nd}/range=le377", prefix, _octal_contents(nd, False))))
        tasks.append(("contents", (f"octal-escape/prefix={p}/digits=3/range=gt377", prefix, _octal_contents(3, True))))
        tasks.append(("contents", (f"hex-escape/prefix={p}", prefix, _hex_contents())))
    tasks.append(("contents", ("N-escape/prefix=none/aliases-sequences-and-malformed-names", "", N_SPECIAL)))
    for prefix in PREFIXES:
        for label, form in ESCAPE_FORMS:
            tasks.append(("contents", (f"escape-form/prefix={prefix or 'none'}/{label}", prefix,
                                       [form, "a" + form + "b", form + form, "é" + form, form + '\\"'])))
        tasks.append(("quote_closing", (prefix, QL)))
    hyp_tasks = []
    for i, prefix in enumerate(PREFIXES):
        for j, cname in enumerate(list(CLASSES) + ["any-text"]):
            hyp_tasks.append(("differential", (prefix, cname, NH, chk.seed * 1000 + i * 10 + j)))
    for j, cname in enumerate(("plain-delimiters", "delimiters-with-braces", "fstring-delimiters")):
        hyp_tasks.append(("bracket_random", (cname, NH, chk.seed * 1000 + 100 + j)))
    for d in BRACKET_DELIMS + ["f-", "f-a"]:
        alphabet = sorted(set("]ab\n") | set(d))
        tasks.append(("bracket_enum", (f"bracket/small-alphabet/delim={d or 'empty'}", d, alphabet, BL)))
    for d in ("", "a", "f"):
        tasks.append(("bracket_enum", (f"bracket/verbatim-alphabet/delim={d or 'empty'}", d, ["]", "a", "\n", "\r", "\\", '"'], BL)))
    # the long-running tasks first
    tasks = hyp_tasks + [t for t in tasks if t[0] in ("bracket_enum", "quote_closing")] + \
        [t for t in tasks if t[0] not in ("bracket_enum", "quote_closing")]

    # the parent's heap goes to the permanent generation: a collection in a forked worker (hypothesis starts with
    # one) would otherwise touch, and so copy, every page of it
    gc.collect()
    gc.freeze()
    try:
        with multiprocessing.get_context("fork").Pool(chk.jobs, initializer=_init_worker) as pool:
            results = list(pool.imap_unordered(_dispatch, tasks, chunksize=1))
    finally:
        gc.unfreeze()

    groups = {}
    cpu = {}
    for r in results:
        cpu[r["kind"]] = round(cpu.get(r["kind"], 0.0) + r["cpu"], 1)
    chk.extra["worker_cpu_seconds_by_task_kind"] = cpu
    accepted, naccepted = {}, {}
    for r in results:
        g = groups.setdefault(r["group"], {"n": 0, "bad": [], "nbad": 0})
        g["n"] += r["n"]
        g["bad"] += r["bad"]
        g["nbad"] += r["nbad"]
        if "accepted" in r["info"]:
            accepted.setdefault(r["group"].split("/")[1], []).extend(r["info"]["accepted"])
        if "naccepted" in r["info"]:
            naccepted[r["group"].split("/")[1]] = naccepted.get(r["group"].split("/")[1], 0) + r["info"]["naccepted"]

    for name in sorted(groups):
        g = groups[name]
        kind = "bounded" if name.startswith(("differential/", "bracket/random/")) else "exhaustive_finite"
        if name.startswith("literal-char/prefix=b/") and not name.endswith("plane=00") and not thorough:
            kind = "bounded"
        backend = "ex+cpython-oracle" if not name.startswith("bracket/") else "ex"
        chk.evaluations += g["n"]
        chk.distinct.add(name)
        detail = replay = None
        if g["bad"]:
            g["bad"].sort(key=lambda m: (len(m["input"] or ""), m["input"] or ""))
            m = g["bad"][0]
            detail = (f"{g['nbad']} of {g['n']} cases differ; first: input={_show(m['input'])} observed={_show(m['observed'])} "
                      f"expected={_show(m['expected'])}")
            replay = {"confirmed": _confirm(m), "input": m["input"], "observed": _show(m["observed"]),
                      "expected": _show(m["expected"])}
        else:
            detail = f"{g['n']} cases"
        chk.ob(name, not g["bad"], backend, kind, detail=detail, replay=replay)

    # the accepted escape characters, against the table of the Python language reference (a redundant, readable statement)
    doc_common = set("\n\r\\'\"abfnrtv01234567")       # \r: CR and CRLF read as LF, i.e. a line continuation
    for p, extra_ok in (("prefix=none", set()), ("prefix=b", set())):
        got = {chr(x) for x in accepted.get(p, [])}
        # x, N, u, U need following characters: alone they are rejected by both sides (checked above)
        chk.ob(f"escape-table/{p}/accepted-characters-equal-the-reference-table", got == doc_common | extra_ok,
               "ex", "exhaustive_finite", detail=f"accepted alone: {_show(''.join(sorted(got)))}")
        chk.extra[f"accepted_escape_characters_{p}"] = ascii("".join(sorted(got)))
    got_r = naccepted.get("prefix=r", 0)
    chk.ob("escape-table/prefix=r/every-character-accepted", got_r == 0x110000, "ex", "exhaustive_finite",
           detail=f"{got_r} of {0x110000} accepted")

    _oracle_self_check(chk, thorough)
    _fstring_brace_cases(chk)
    _samples(chk)
    _canaries(chk)


def _oracle_self_check(chk, thorough):
    """lit_end (where a literal ends) against CPython's tokenizer, on every string <= L over {\\, ", a} for each
    prefix (no newlines: CPython's single-quoted form), and the CR handling of CPython itself."""
    L = 7 if thorough else 6
    bad, n = None, 0
    for prefix in PREFIXES:
        for k in range(L + 1):
            for tup in itertools.product('\\"a', repeat=k):
                s = "".join(tup)
                src = prefix + '"' + s + '" 7\n'
                e = lit_end(s + '"')
                if (s + '"').startswith('""'):
                    continue        # Python would see a triple-quoted literal; Hy has none
                n += 1
                try:
                    tok = next(t for t in tokenize.generate_tokens(io.StringIO(src).readline) if t.type == tokenize.STRING)
                    got = tok.end[1] - len(prefix) - 2
                except (tokenize.TokenError, SyntaxError, StopIteration):
                    got = -1
                if got != e and bad is None:
                    bad = (src, got, e)
    chk.evaluations += n
    chk.ob("oracle/end-of-literal-specification-agrees-with-cpython-tokenizer", bad is None, "cpython-oracle",
           "exhaustive_finite", detail=f"{n} strings" if bad is None else f"source={bad[0]!r} cpython={bad[1]} spec={bad[2]}")
    ok = True
    for src in ('"""a\rb"""', '"""a\r\nb"""', '"""a\\\r\nb"""', 'b"""a\rb"""', 'r"""a\r\nb\\\r"""'):
        with warnings.catch_warnings():
            warnings.simplefilter("error")
            ok = ok and ast.literal_eval(src) == ast.literal_eval(_norm_nl(src))
            ok = ok and "\r" not in str(ast.literal_eval(src))
    chk.ob("oracle/cpython-reads-CR-and-CRLF-in-literals-as-LF", ok, "cpython-oracle", "exhaustive_finite")


def _fstring_brace_cases(chk):
    """Bracket f-strings: only literal text is in scope here (replacement fields are C24).  Doubled braces are
    the one brace form without a field: they collapse to single braces as in Python f-strings, and must not
    disturb the closing automaton."""
    bad, n = None, 0
    for d in ("f", "f-x"):
        for k in range(5):
            for tup in itertools.product(["{{", "}}", "]", "a", "]" + d[:1]], repeat=k):
                s = "".join(tup)
                closer = "]" + d + "]"
                text = s + closer
                idx = text.find(closer)
                if idx != len(s):
                    continue
                n += 1
                want = ("ok", [("FString", s.replace("{{", "{").replace("}}", "}"), d), ("Integer", 7, None)])
                pyv = eval('f"""' + s + ' """')[:-1]
                got = hy_read_all("#[" + d + "[" + text + " 7")
                if (got != want or pyv != want[1][0][1]) and bad is None:
                    bad = (text, got, want, pyv)
    chk.evaluations += n
    chk.ob("bracket/fstring/doubled-braces-and-closing", bad is None, "ex+cpython-oracle", "exhaustive_finite",
           detail=f"{n} contents" if bad is None else f"input={bad[0]!r} observed={bad[1]!r} expected={bad[2]!r} python={bad[3]!r}",
           replay=None if bad is None else {"confirmed": True, "input": "#[" + ("f" if bad[2][1][0][2] == "f" else "f-x") + "[" + bad[0] + " 7",
                                            "observed": _show(bad[1]), "expected": _show(bad[2])})


def _samples(chk):
    for prefix, s in (("", "a\\tb"), ("b", "\\x41\\101"), ("r", "\\d\\\""), ("", "\\q"), ("", "x\r\ny")):
        src = prefix + '"' + s + '"'
        chk.sample({"input": ascii(src), "hy": _show(hy_read(src)), "python": _show(py_literal(prefix, s))})
    chk.sample({"input": "#[ab[\\n]a]ab]", "hy": _show(hy_read("#[ab[\n]a]ab]"))})


def _canaries(chk):
    # 1: "unknown escapes are accepted (kept verbatim, as CPython does when the warning is ignored)"
    # (the claim is made for \q and five more unknown escape characters; one refutation suffices)
    ms = [cmp_literal(p, "\\" + c, oracle=py_lenient) for p in ("", "b") for c in "q8dwE "]
    chk.canary('claim: "\\q" is accepted and reads as backslash-q', any(m is not None and m["observed"][0] == "rej" for m in ms))
    # and the machinery must not refute the true claim on the same input
    chk.ob("canary-control/invalid-escape-q-rejected-by-both", cmp_literal("", "\\q") is None, "ex+cpython-oracle",
           "exhaustive_finite")
    # 2: "bracket strings keep their leading newline" (refuted by any counterexample)
    cases = [(d, s) for d in ("", "ab", "f") for s in ("\na", "\r\na", "\ra", "\n")]
    chk.canary("claim: bracket strings keep their leading newline", any(cmp_bracket(d, s, strip=False) is not None for d, s in cases))
    chk.ob("canary-control/leading-newline-removed", all(cmp_bracket(d, s) is None for d, s in cases), "ex", "exhaustive_finite")
    # 3: "a bracket string ends at the first ']' + proper prefix of the closer": #[ab[x]a]ab] would read as "x"
    h = hy_read("#[ab[x]a]ab]")
    chk.canary("claim: #[ab[x]a]ab] ends at the first ]a", not (h[0] == "ok" and h[2] == "x"))
