"""C31 quasiquote substitutes unquotes at the right nesting level."""
import itertools
import types

import hy
import hy.core.result_macros as rm
import hy.models as hm
from hy.errors import HyLanguageError
from hy.models import Dict, Expression, FComponent, FString, Integer, Keyword, List, Set, String, Symbol, Tuple

from hv.props.c30 import INF, evaluate, same_node, with_stub
from hv.symx import core as sx
from hv.symx.core import E, S, Tok

META = {
    "engine": "symx",
    "level": "proof",
    "technique": "contract-based: render_quoted_form executed on one node at a time, recursive calls cut at their contract "
                 "(opaque children that report the level they were called with and may be spliced); postconditions on the "
                 "level passed down, on level-0 unquote/unquote-splice, and on the evaluated rendering (real constructors)",
    "text": "Per node kind and level in {0,1,2,5}: a level-0 unquote returns the form itself for evaluation, a level-0 "
            "unquote-splice marks it for splicing, quasiquote passes level+1 and unquote/unquote-splice pass level-1 to their "
            "children and stay literal, every other node passes its level unchanged; a parent splices marked children as "
            "`#* (or value [])` so that the evaluated node holds the elements of the value (or nothing for None/empty). Only "
            "`level == 0` and +-1 are ever computed, so the explored levels cover all levels; by induction over the template "
            "the evaluated quasiquote equals the reference substitution.",
    "note": "Trusted: as C30; promotion of substituted values is as_model (C29). A bounded end-to-end comparison of real "
            "evaluations with an independent reference substitution over generated templates cross-checks the composition.",
}

LEVELS = (0, 1, 2, 5)


def seq_kinds():
    return {"Expression": Expression, "List": List, "Tuple": Tuple, "Set": Set, "Dict": Dict,
            "FString": lambda ch: FString(ch), "FComponent": lambda ch: FComponent(ch, conversion="r")}


def run(chk):
    comp = sx.new_compiler()
    # (a)(b) level-0 unquote / unquote-splice
    for head, spl in (("unquote", False), ("unquote-splice", True), ("unquote_splice", True)):
        x = Tok("x", "E")
        log = []
        r = with_stub(lambda real: real(comp, Expression([Symbol(head), x]), 0), log)
        chk.ob(f"level0/{head} returns its argument for evaluation (splice={spl}) without quoting it", r[0] is x and r[1] is spl and not log,
               "structural", "proved", detail=repr(r))
    # (c)(d)(e) level passed to children
    for L in LEVELS:
        for head, delta in (("unquote", -1), ("unquote-splice", -1), ("quasiquote", +1), ("something-else", 0), ("quote", 0)):
            if L == 0 and delta == -1:
                continue
            x = Tok("x", "E")
            log = []
            node = Expression([Symbol(head), x])
            rendered, spl = with_stub(lambda real: real(comp, node, L), log)
            got = evaluate(rendered, [x])
            lv_ok = log == [("x", L + delta)]
            lit_ok = same_node(node, got) is None and spl is False
            chk.case((L, head))
            rp = None
            k = L + delta
            if not (lv_ok and lit_ok) and L >= 1 and k >= 1:
                # replay through the whole pipeline: L nested quasiquotes around (HEAD ~~...~y) with as many unquotes as the level the
                # child is rendered at: exactly the innermost unquote is evaluated
                def nest(n_, inner, sym="quasiquote"):
                    return inner if n_ == 0 else Expression([Symbol(sym), nest(n_ - 1, inner, sym)])
                form = nest(L, Expression([Symbol(head), nest(k, Symbol("y"), "unquote")]))
                want = nest(L - 1, Expression([Symbol(head), nest(k - 1, Integer(7), "unquote")]))
                try:
                    got2 = hy.eval(form, {"y": 7}, module=types.ModuleType("hv_c31r"))
                    diff = same_node(want, hy.as_model(got2))
                except Exception as e:  # noqa: BLE001
                    diff = f"{type(e).__name__}: {e}"
                rp = {"confirmed": diff is not None, "input": hy.repr(form).lstrip("'") + " with y = 7", "observed": diff,
                      "expected": hy.repr(want).lstrip("'")}
            chk.ob(f"levels/{head} at level {L}: stays literal, children rendered at level {L + delta}", lv_ok and lit_ok,
                   "structural", "proved", detail=f"calls={log} literal={same_node(node, got)}", replay=rp)
        for kname, mk in seq_kinds().items():
            toks = [Tok("a", "E"), Tok("b", "E")]
            log = []
            node = mk(toks)
            rendered, spl = with_stub(lambda real: real(comp, node, L), log)
            chk.ob(f"levels/{kname} at level {L}: children rendered at the same level", log == [("a", L), ("b", L)] and spl is False,
                   "structural", "proved", detail=str(log))
    # (f) splicing in every sequence kind, at every position, for every kind of spliced value
    m1, m2 = Symbol("m1"), Integer(2)
    values = {"two": [m1, m2], "empty": [], "none": None, "tuple": (m1,), "model-list": List([m1, m2])}
    for kname, mk in seq_kinds().items():
        for pos in range(3):
            for vname, val in values.items():
                kids = [Tok("p", "E"), Tok("q", "E")]
                sp = Tok("s", "splice")
                kids.insert(pos, sp)
                node = mk(kids)
                try:
                    rendered, _ = with_stub(lambda real: real(comp, node, 0), [])
                    got = evaluate(rendered, kids, {"s": val})
                    want_kids = [k for k in kids if k is not sp]
                    want_kids[pos:pos] = list(hy.as_model(list(val or [])))
                    err = None
                    if type(got) is not type(node):
                        err = f"type {type(got).__name__}"
                    elif len(got) != len(want_kids) or any((a is not b) if isinstance(b, Tok) else (a != b) for a, b in zip(got, want_kids)):
                        err = f"children {list(got)!r} vs {want_kids!r}"
                except Exception as e:  # noqa: BLE001
                    err = f"{type(e).__name__}: {e}"
                chk.case((kname, pos, vname))
                chk.ob(f"splice/{kname}/position {pos}/value {vname}", err is None, "structural", "proved", detail=err)
    # (g) wrong arity at level 0 is a user-facing Hy error
    for form in (Expression([Symbol("unquote")]), Expression([Symbol("unquote"), Integer(1), Integer(2)]),
                 Expression([Symbol("unquote-splice")])):
        out = sx.run_rule(E(S("quasiquote"), List([form])))
        chk.ob(f"arity/{hy.repr(form)} inside quasiquote is rejected with a Hy error", (not out.ok) and isinstance(out.exc, HyLanguageError),
               "structural", "proved", detail=repr(out.exc)[:200])
    # (h) the rule passes level 0 and compiles the rendering
    seen = []
    real = rm.render_quoted_form
    rm.render_quoted_form = lambda c, f, level: (seen.append(level), real(c, f, level))[1]
    try:
        out = sx.run_rule(E(S("quasiquote"), E(S("f"), E(S("unquote"), Tok("u", "SE")))))
    finally:
        rm.render_quoted_form = real
    chk.ob("quasiquote/compile_quote renders at level 0 and the unquoted form is compiled as code",
           bool(seen) and seen[0] == 0 and out.ok and [t.name for t in out.compiled] == ["u"], "structural", "proved")

    # bounded end-to-end: real evaluation vs independent reference substitution
    def ref(form, level, env):
        """-> list of models this form contributes to its parent"""
        if isinstance(form, Expression) and form and isinstance(form[0], Symbol) and str(form[0]) in ("unquote", "unquote-splice", "quasiquote"):
            op = str(form[0])
            if level == 0 and op != "quasiquote":
                v = env[str(form[1])]
                return [hy.as_model(v)] if op == "unquote" else list(hy.as_model(list(v or [])))
            level += 1 if op == "quasiquote" else -1
        if isinstance(form, hm.Sequence):
            kids = []
            for x in form:
                kids.extend(ref(x, level, env))
            return [type(form)(kids, **{k: getattr(form, k) for k in form._extra_kwargs})]
        return [form]
    env = {"v": 7, "w": [1, "s"], "n": None, "e": []}
    atoms = ["~v", "~@w", "~@n", "~@e", "k", "`(i ~v)", "`(i ~~v)", "`(i ~@~w)", "'~v", "[~v ~@w]", "{~v 1}", "#(~@w)", "#{~v}",
             # a level-0 splice as the direct argument of a still-quoted unquote / unquote-splice / quasiquote, falsy values included
             "`(i ~~@n j)", "`(i ~~@w)", "`(i ~@~@e j)", "`(i ~~@e)", "``(i ~~~@n)"]
    templates = []
    for a, b in itertools.product(atoms, repeat=2):
        templates.append(f"`(h {a} {b})")
        templates.append(f"`[{a} ({b})]")
    bad = []
    for src in templates:
        form = hy.read(src)
        mod = types.ModuleType("hv_c31e")
        mod.__dict__.update(env)
        try:
            got = hy.eval(form, module=mod, locals=mod.__dict__)
            want = ref(form[1], 0, env)[0]
            # the substituted values are inserted as they are and promoted when the model is used (as_model);
            # "replaced by the promoted value" is therefore compared after promotion of the whole result
            if hy.as_model(got) != want or hy.repr(got) != hy.repr(want):
                bad.append((src, hy.repr(got), hy.repr(want)))
        except Exception as e:  # noqa: BLE001
            bad.append((src, type(e).__name__, str(e)[:80]))
        chk.case(src)
    chk.ob("e2e/real evaluation of generated templates equals the reference substitution", not bad, "cpython-oracle", "bounded",
           detail=str(bad[:3]), replay={"confirmed": True, "input": bad[0][0], "observed": bad[0][1], "expected": bad[0][2]} if bad else None)
    chk.extra["templates"] = len(templates)
    # the code inside an unquote is the user's own: what the template around it looks like must not change its meaning
    bad2 = []
    for src, want_repr in (('`f"{~f"{t !r}" !s}"', '\'f"{"\'q\'" !s}"'), ('`f"{~(+ f"{t !r}" "z") :>9}"', '\'f"{"\'q\'z" :>9}"'),
                           ('`#[f[{~f"{t !a}"}]f]', '\'#[f[{"\'q\'"}]f]')):
        mod = types.ModuleType("hv_c31f")
        mod.t = "q"
        try:
            got = hy.repr(hy.as_model(hy.eval(hy.read(src), module=mod, locals=mod.__dict__)))
        except Exception as e:  # noqa: BLE001
            got = f"{type(e).__name__}: {e}"
        chk.case(src)
        if got != want_repr:
            bad2.append((src, got, want_repr))
    chk.ob("e2e/an f-string inside an unquote inside a quoted f-string field is evaluated with its own conversion", not bad2, "cpython-oracle",
           "bounded", detail=str(bad2[:2]), replay={"confirmed": True, "input": bad2[0][0], "observed": bad2[0][1], "expected": bad2[0][2]} if bad2 else None)
    chk.fn("hy/core/result_macros.py::render_quoted_form", "hy/core/result_macros.py::compile_quote")
    chk.trust("model constructors (C26)", "as_model promotion (C29)", "hy.eval of constructor calls (C01, C39)")
    # canary: a reference with the wrong level delta
    x = Tok("x", "E")
    log = []
    with_stub(lambda real: real(comp, Expression([Symbol("quasiquote"), x]), 0), log)
    chk.canary("claim `quasiquote keeps the level` is refuted", log != [("x", 0)])
    chk.sample({"template": "`(h ~v ~@w)", "evaluates_to": "'(h 7 1 \"s\")"})


def replay(path):
    from hv.replay import replay_file
    return replay_file(path)
