"""C29 hy.as-model promotes values to models that evaluate back to them."""
import random
import types

import hv.symx.core  # noqa: F401
import hy
import hy.models as hm
from hy.errors import HyWrapperError

from hv.pyvc import targets

META = {
    "engine": "pyvc+rtc",
    "level": "proof",
    "technique": "contract-based deductive verification (VCs from the source AST of as_model, recwrap.lambda_to_return and "
                 "_dict_wrapper, z3): _seen == old(_seen) on every normal and exceptional exit, set.remove never raises "
                 "KeyError, HyWrapperError exactly when the object is already being wrapped; structure contracts of the "
                 "registered wrappers checked on the real table; bounded run-time contract for value equality after hy.eval",
    "text": "For an arbitrary _seen, object and registered wrapper (callee contract: may return or raise, restores _seen: "
            "induction on nesting depth) as_model and the two recursive wrappers restore the cycle-detection state on every "
            "exit, so a failed promotion (self-reference, unwrappable object) leaves hy.as-model working; a self-reference is "
            "detected before anything else happens. Wrapper structure (list->List, tuple->Tuple, set->Set, dict->Dict with "
            "items flattened key, value in order, bool/None->Symbol, str->String ..., identity on models, element order "
            "preserved) is checked on the live _wrappers table. Evaluating the promoted tree gives an equal value, and "
            "as_model is idempotent: run-time contract over generated nested values (bounded).",
    "note": "Trusted: callee contract of constructors/wrappers (they reach _seen only through as_model); id() injective on "
            "live objects; the generator expression `(as_model(x) for x in l)` is driven inside the constructor call (covered "
            "by the callee contract). The evaluation round trip is a bounded stand-in.",
}


def structure(chk):
    M = hm
    t = [M.Symbol("a"), 1, "s"]
    cases = {
        "list -> List, order kept": (hy.as_model([1, "s", None]), M.List([M.Integer(1), M.String("s"), M.Symbol("None")])),
        "tuple -> Tuple": (hy.as_model((1, 2)), M.Tuple([M.Integer(1), M.Integer(2)])),
        "set -> Set": (hy.as_model({3}), M.Set([M.Integer(3)])),
        "dict -> Dict flattened key, value in insertion order": (hy.as_model({"k": 1, "j": [2]}), M.Dict([M.String("k"), M.Integer(1), M.String("j"), M.List([M.Integer(2)])])),
        "bool -> Symbol True/False (not Integer)": (hy.as_model([True, False]), M.List([M.Symbol("True"), M.Symbol("False")])),
        "None -> Symbol None": (hy.as_model(None), M.Symbol("None")),
        "str/bytes/int/float/complex": (hy.as_model(["s", b"b", 1, 1.5, 2j]), M.List([M.String("s"), M.Bytes(b"b"), M.Integer(1), M.Float(1.5), M.Complex(2j)])),
        "nested models are kept": (hy.as_model(M.Expression([M.Symbol("f"), [1]])), M.Expression([M.Symbol("f"), M.List([M.Integer(1)])])),
        "keyword is kept": (hy.as_model(M.Keyword("k")), M.Keyword("k")),
    }

    def deep(a, b):
        if type(a) is not type(b):
            return False
        if isinstance(a, M.Sequence):
            return len(a) == len(b) and all(deep(x, y) for x, y in zip(a, b))
        return a == b
    for name, (got, want) in cases.items():
        chk.ob(f"structure/{name}", deep(got, want), "structural", "proved", detail=f"{got!r} vs {want!r}")
    fs = M.FString([M.String("a"), M.FComponent([M.Symbol("x")], conversion="r")], brackets="f")
    g = hy.as_model(fs)
    chk.ob("structure/FString and FComponent keep brackets and conversion", type(g) is M.FString and g.brackets == "f" and g[1].conversion == "r",
           "structural", "proved")
    for bad in (object(), lambda: 1, {"k": object()}):
        try:
            hy.as_model(bad)
            ok = False
        except HyWrapperError:
            ok = True
        chk.ob(f"structure/unrepresentable object {type(bad).__name__} raises HyWrapperError", ok and not hm._seen, "structural", "proved")


def roundtrip(chk):
    rng = random.Random(chk.seed)
    leaves = [None, True, False, 0, 1, -7, 10 ** 20, 1.5, -0.0, float("inf"), 2j, "", "s", 'q"\n', b"", b"\x00\xff", hm.Keyword("k")]
    # (existing non-keyword models evaluate as code, not to themselves: for them only idempotence is claimed, in structure())

    def val(d):
        if d <= 0 or rng.random() < 0.4:
            return rng.choice(leaves)
        k = rng.randrange(4)
        n = rng.randrange(0, 4)
        if k == 0:
            return [val(d - 1) for _ in range(n)]
        if k == 1:
            return tuple(val(d - 1) for _ in range(n))
        if k == 2:
            # keys of every hashable kind as_model accepts: raw values and already-built models (keywords above all)
            # (of the models only keywords, which evaluate to themselves: a String model key evaluates to a str, which is not `==` to it)
            return {rng.choice(["a", "b", 1, 2.5, None, (1, 2), True, b"k", hm.Keyword("kw"), hm.Keyword("a-b"),
                                (hm.Keyword("in-tuple"), 1)]): val(d - 1) for _ in range(n)}
        return {x for x in (rng.choice([1, "s", None, 2.5, (1,), b"b"]) for _ in range(n))}
    bad = None
    n = 500 if chk.tier == "quick" else 8000
    for i in range(n):
        v = val(3)
        chk.case(("rt", i))
        try:
            m = hy.as_model(v)
        except Exception as e:  # noqa: BLE001  (every generated value is model-representable)
            bad = (v, f"as_model raised {type(e).__name__}: {e}")
            hm._seen.clear()
            break
        try:
            back = hy.eval(m, module=types.ModuleType("hv_c29"))
        except Exception as e:  # noqa: BLE001
            bad = (v, f"eval raised {type(e).__name__}: {e}")
            break
        m2 = hy.as_model(m)
        if back != v and not (back != back):
            bad = (v, back)
            break
        if m2 != m or type(m2) is not type(m) or hm._seen:
            bad = (v, "not idempotent / _seen not empty")
            break
    chk.ob("rtc/hy.eval(as_model(v)) == v and as_model(as_model(v)) == as_model(v) on generated nested values", bad is None, "rtc", "bounded",
           detail=str(bad), replay={"confirmed": bad is not None, "input": repr(bad)})
    # already-built models as dictionary keys are promoted like any other element (as_model is the identity on models)
    badk = None
    for key in (hm.Keyword("kw"), hm.String("sk"), hm.Integer(7), hm.Float(1.5), hm.Bytes(b"bk"), hm.Symbol("sym"), hm.Tuple([hm.Integer(1)])):
        for wrap in (lambda d: d, lambda d: [d], lambda d: {"outer": (d,)}):
            try:
                m_ = hy.as_model(wrap({key: [1]}))
                dicts = []

                def walk(x):
                    if isinstance(x, hm.Dict):
                        dicts.append(x)
                    if isinstance(x, hm.Sequence):
                        for y in x:
                            walk(y)
                walk(m_)
                inner = dicts[-1]              # the innermost dictionary is the one with the model key
                okk = type(inner[0]) is type(key) and inner[0] == key
            except Exception as e:  # noqa: BLE001
                okk = False
                hm._seen.clear()
                badk = badk or (repr(key), f"{type(e).__name__}: {e}")
            chk.case(("model-key", repr(key)))
            if not okk and badk is None:
                badk = (repr(key), "key not kept")
    chk.ob("rtc/a dictionary whose key is already a model is promoted to a Dict model with that key", badk is None, "rtc", "bounded", detail=str(badk),
           replay=None if badk is None else {"confirmed": True, "input": f"hy.as_model({{{badk[0]}: [1]}})", "observed": badk[1]})
    # histories with self-referential structures
    bad = None
    for i in range(100):
        a = [1, [2]]
        a[1].append(a) if i % 2 else a.append(a)
        d = {"k": []}
        d["k"].append(d)
        # cycles entered at every kind of container: list, dict, tuple, set-free model sequences, and reached from an acyclic parent
        l1 = []
        t1 = (0, l1)
        l1.append(t1)
        l2 = []
        m2 = hm.List([l2])
        l2.append(m2)
        l3 = [3]
        e3 = hm.Expression([hm.Symbol("f"), l3])
        l3.append((e3,))
        d4 = {}
        d4["k"] = (1, [d4])
        for cyc in (a, d, t1, [5, t1], {"a": t1}, m2, (m2,), e3, d4, (d4, 1)):
            try:
                hy.as_model(cyc)
                bad = bad or ("no error for cycle", type(cyc).__name__)
            except HyWrapperError:
                pass
            except Exception as e:  # noqa: BLE001
                bad = bad or (f"{type(e).__name__} instead of HyWrapperError for a self-referential structure entered at a {type(cyc).__name__}",)
                hm._seen.clear()
            v = val(2)
            try:
                after = hy.eval(hy.as_model(v), module=types.ModuleType("hv_c29"))
            except Exception as e:  # noqa: BLE001
                after = e
            if hm._seen or (after != v and v == v):
                bad = ("state leaked after a failed promotion, or a later promotion failed", v, repr(after), set(hm._seen))
                hm._seen.clear()
        chk.case(("cyc", i))
    chk.ob("rtc/self-referential structures raise HyWrapperError and later promotions work normally", bad is None, "rtc", "bounded", detail=str(bad),
           replay=None if bad is None else {"confirmed": True, "input": "hy.as_model of a structure that contains itself", "observed": str(bad)[:300]})


def history_independence(chk):
    """as_model is a function of its argument: what it returns for v does not depend on which values were promoted before.  Scalars that
    compare equal across types (True == 1 == 1.0 == 1+0j, False == 0 == 0.0 == -0.0 == 0j) are the values an equality-keyed shortcut
    would confuse; each is promoted after each other one, alone and inside containers, and the result is compared node-wise (model
    class and printed form, which tells -0.0 from 0.0) with the model built directly from the registered class; the evaluated value has
    the type and printed form of the original."""
    import itertools
    scal = [True, 1, 1.0, 1 + 0j, False, 0, 0.0, -0.0, 0j, complex(-0.0, 0.0), 2, 2.0, None, "1", b"1", float("inf"), 1e300, 10 ** 30]
    cls = {bool: hm.Symbol, int: hm.Integer, float: hm.Float, complex: hm.Complex, type(None): hm.Symbol, str: hm.String, bytes: hm.Bytes}

    def direct(v):
        return cls[type(v)](str(v)) if type(v) in (bool, type(None)) else cls[type(v)](v)

    def same(m, v):
        d = direct(v)
        return type(m) is type(d) and repr(m) == repr(d)
    bad = None
    n = 0
    for u, v in itertools.permutations(scal, 2):
        for wrap in (lambda x: x, lambda x: [x], lambda x: {"k": (x,)}):
            n += 1
            try:        # (whatever the code under verification raises here is an observation, not a crash of the check)
                hy.as_model(wrap(u))
                m = hy.as_model(wrap(v))
                leaf = m
                while isinstance(leaf, hm.Sequence):
                    leaf = leaf[-1]
                ok = same(leaf, v)
                if ok:
                    back = hy.eval(m, module=types.ModuleType("hv_c29h"))
                    while isinstance(back, (list, tuple, dict)):
                        back = list(back.values())[-1] if isinstance(back, dict) else back[-1]
                    ok = type(back) is type(v) and repr(back) == repr(v)
                shown = repr(m)
            except Exception as e:  # noqa: BLE001
                ok, shown = False, f"{type(e).__name__}: {e}"[:200]
            if not ok and bad is None:
                bad = (u, v, shown)
    chk.case(("history", n))
    chk.ob("history/what as_model returns for a value does not depend on the values promoted before it (equal scalars of different types, "
           "zeros of either sign; node-wise and after evaluation)", bad is None, "rtc", "bounded",
           detail=f"{n} ordered pairs x wrappings" if bad is None else f"after as_model({bad[0]!r}), as_model({bad[1]!r}) gives {bad[2]}",
           replay=None if bad is None else {"confirmed": True, "input": f"hy.as_model({bad[0]!r}); hy.as_model({bad[1]!r})", "observed": bad[2],
                                            "expected": repr(direct(bad[1]))})


def existing_models(chk):
    """`returns a model tree` for inputs that already contain models: a model whose children are models may still hold raw values
    further down (models are built from arbitrary Python values); every node of the result is a model, the result evaluates to the
    value, and a cycle that passes through such a model is still detected."""
    M = hm

    def all_models(m):
        return isinstance(m, M.Object) and (not isinstance(m, M.Sequence) or all(all_models(x) for x in m))
    cases = {
        "List of a Tuple of raw values": (lambda: M.List([M.Tuple([1, "a"])]), [(1, "a")]),
        "Tuple of a List of a List of raw values": (lambda: M.Tuple([M.List([M.List([None, 2.5])])]), ([[None, 2.5]],)),
        "Dict model whose value is a List model of raw values": (lambda: M.Dict([M.String("k"), M.List([M.List([1])])]), {"k": [[1]]}),
        "Set model of a Tuple model of raw values": (lambda: M.Set([M.Tuple([M.Tuple([1, 2])])]), {((1, 2),)}),
        "raw list holding such a model": (lambda: [M.List([M.Tuple([b"b", True])])], [[(b"b", True)]]),
        "List model whose children are models down to depth 3": (lambda: M.List([M.List([M.List([M.List([7])])])]), [[[[7]]]]),
        "Expression holding a List of a Tuple of raw values": (lambda: M.Expression([M.Symbol("quote"), M.List([M.Tuple([1])])]), None),
    }
    for what, (mk, want) in cases.items():
        try:
            m = hy.as_model(mk())
            ok = all_models(m)
            det = repr(m)[:200]
            if ok and want is not None:
                back = hy.eval(m, module=types.ModuleType("hv_c29e"))
                ok = back == want
                det = f"evaluates to {back!r}, expected {want!r}"
        except Exception as e:  # noqa: BLE001
            ok, det = False, f"{type(e).__name__}: {e}"[:200]
        chk.case(("existing", what))
        chk.ob(f"existing-models/{what}: every node of the result is a model and it evaluates to the value", ok, "rtc", "bounded", detail=det,
               replay=None if ok else {"confirmed": True, "input": "hy.as_model of a " + what, "observed": det})
    # cycles through existing models
    for what, mk in {"List model > Tuple model > raw list > back": lambda l: M.List([M.Tuple([l])]),
                     "Dict model > List model > raw list > back": lambda l: M.Dict([M.String("k"), M.List([l])])}.items():
        l = [1]
        m = mk(l)
        l.append(m)
        try:
            hy.as_model(m)
            got = "returned"
        except HyWrapperError:
            got = "HyWrapperError"
        except RecursionError:
            got = "RecursionError"
        except Exception as e:  # noqa: BLE001
            got = type(e).__name__
        try:
            after = hy.as_model([1, (2,)]) == M.List([M.Integer(1), M.Tuple([M.Integer(2)])])
        except Exception:  # noqa: BLE001
            after = False
        chk.ob(f"existing-models/cycle {what}: HyWrapperError, and as_model keeps working", got == "HyWrapperError" and after, "rtc", "bounded",
               detail=f"{got}; afterwards ok={after}",
               replay=None if got == "HyWrapperError" and after else {"confirmed": True, "input": "l = [1]; m = " + what + "; l.append(m); hy.as_model(m)",
                                                                      "observed": got, "expected": "HyWrapperError"})


def run(chk):
    targets.c29(chk)
    structure(chk)
    existing_models(chk)
    history_independence(chk)
    roundtrip(chk)
    from hv.pyvc import engine
    chk.extra["smt"] = dict(engine.STATS)
    chk.sample({"obligation": "as_model/recwrap.lambda_to_return: _seen restored (raise path 2)"})


def replay(path):
    from hv.replay import replay_file
    return replay_file(path)
