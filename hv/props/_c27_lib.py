"""Shared machinery of C27: value comparison (type at every node, NaN by isnan, zeros by sign), input classes, the
round trip on the real hy.repr / hy.read / hy.eval, deterministic value enumeration and hypothesis strategies."""
import contextlib
import itertools
import math
import signal
import types
from collections import ChainMap, Counter, OrderedDict, defaultdict, deque
from fractions import Fraction

import hv.symx.core  # noqa: F401
import hy
from hy.models import Keyword

NS = types.ModuleType("hv_c27_ns")
exec("from fractions import Fraction\nfrom collections import deque, OrderedDict, Counter, defaultdict, ChainMap\n", NS.__dict__)

NAN = math.nan                      # one NaN object: equal-looking NaNs in one set/dict would be distinct members
CNANS = [complex(NAN, 0.0), complex(1.0, NAN), complex(NAN, NAN), complex(NAN, math.inf)]
DICTS = (dict, OrderedDict, Counter, defaultdict)
FACTORIES = [int, list, dict, set, str, float, tuple, bool, bytes, frozenset, complex, bytearray]


class Timeout(Exception):
    pass


@contextlib.contextmanager
def time_guard(seconds):
    def onalarm(*a):
        raise Timeout(f"no result after {seconds}s")
    old = signal.signal(signal.SIGALRM, onalarm)
    signal.setitimer(signal.ITIMER_REAL, seconds)
    try:
        yield
    finally:
        signal.setitimer(signal.ITIMER_REAL, 0)
        signal.signal(signal.SIGALRM, old)


def _fsame(a, b):
    if math.isnan(a) or math.isnan(b):
        return math.isnan(a) and math.isnan(b)
    return a == b and math.copysign(1.0, a) == math.copysign(1.0, b)


def _feq(a, b):
    return (math.isnan(a) and math.isnan(b)) or a == b


def vdiff(x, y, path="x", signs=True):
    """first difference: None or (clause, path, text); clause in type / equal / zero-sign"""
    if type(x) is not type(y):
        return ("type", path, f"{type(x).__name__} vs {type(y).__name__}")
    if isinstance(x, float):
        if not _feq(x, y):
            return ("equal", path, f"{x!r} vs {y!r}")
        return None if _fsame(x, y) else ("zero-sign", path, f"{x!r} vs {y!r}")
    if isinstance(x, complex):
        if not (_feq(x.real, y.real) and _feq(x.imag, y.imag)):
            return ("equal", path, f"{x!r} vs {y!r}")
        return None if _fsame(x.real, y.real) and _fsame(x.imag, y.imag) else ("zero-sign", path, f"{x!r} vs {y!r}")
    if isinstance(x, (list, tuple, deque)):
        if len(x) != len(y):
            return ("equal", path, f"{len(x)} elements vs {len(y)}")
        for i, (a, b) in enumerate(zip(x, y)):
            d = vdiff(a, b, f"{path}[{i}]")
            if d:
                return d
        return None
    if isinstance(x, ChainMap):
        return vdiff(x.maps, y.maps, path + ".maps")
    if isinstance(x, DICTS):
        if isinstance(x, defaultdict) and x.default_factory is not y.default_factory:
            return ("equal", path, f"default_factory {x.default_factory!r} vs {y.default_factory!r}")
        if len(x) != len(y):
            return ("equal", path, f"{len(x)} items vs {len(y)}")
        d = None
        for i, ((k1, v1), (k2, v2)) in enumerate(zip(x.items(), y.items())):
            d = vdiff(k1, k2, f"{path}.key{i}") or vdiff(v1, v2, f"{path}[{k1!r}]")
            if d:
                break
        if d is None or isinstance(x, OrderedDict):
            return d
        # order is not part of dict equality: match the items in any order
        rest = list(y.items())
        for k1, v1 in x.items():
            j = next((j for j, (k2, v2) in enumerate(rest) if vdiff(k1, k2) is None and vdiff(v1, v2) is None), None)
            if j is None:
                return d
            rest.pop(j)
        return None
    if isinstance(x, (set, frozenset)):
        if len(x) != len(y):
            return ("equal", path, f"{len(x)} members vs {len(y)}")
        rest = list(y)
        first = None
        for a in x:
            j = next((j for j, b in enumerate(rest) if vdiff(a, b) is None), None)
            if j is None:
                cands = [vdiff(a, b, f"{path}{{{a!r}}}") for b in rest]
                return min(cands, key=lambda c: {"zero-sign": 0, "type": 1, "equal": 2}[c[0]]) if cands else ("equal", path, "missing member")
            rest.pop(j)
        return first
    if isinstance(x, slice):
        return vdiff((x.start, x.stop, x.step), (y.start, y.stop, y.step), path + ".slice")
    if isinstance(x, range):
        return None if x == y else ("equal", path, f"{x!r} vs {y!r}")
    if isinstance(x, Keyword):
        return None if x.name == y.name else ("equal", path, f"{x!r} vs {y!r}")
    return None if x == y else ("equal", path, f"{x!r} vs {y!r}")


def children(x):
    if isinstance(x, ChainMap):
        return list(x.maps)
    if isinstance(x, DICTS):
        return [c for kv in x.items() for c in kv]
    if isinstance(x, (list, tuple, deque, set, frozenset)):
        return list(x)
    if isinstance(x, slice):
        return [x.start, x.stop, x.step]
    return []


def _neg0(f):
    return f == 0 and math.copysign(1.0, f) < 0


def value_class(x):
    t = type(x)
    if t is float:
        return "float/" + ("nan" if math.isnan(x) else "inf" if math.isinf(x) else "negative zero" if _neg0(x) else "finite")
    if t is complex:
        if _neg0(x.real) or _neg0(x.imag):
            return "complex/negative zero part"
        if any(math.isnan(p) or math.isinf(p) for p in (x.real, x.imag)):
            return "complex/nan or inf part"
        return "complex/finite"
    if t is str:
        return "str/" + ("plain" if all(c.isalnum() or c in " -_" for c in x) else "needs escapes")
    if t is defaultdict:
        f = x.default_factory
        return "defaultdict/" + ("no factory" if f is None else "builtin factory")
    if t is type(None):
        return "None"
    if t is slice:
        return "slice/" + ("a component is a Keyword" if any(type(c) is Keyword for c in (x.start, x.stop, x.step)) else "other components")
    return t.__name__


ALL_CLASSES = ["None", "bool", "int", "float/finite", "float/inf", "float/nan", "float/negative zero", "complex/finite",
               "complex/nan or inf part", "complex/negative zero part", "str/plain", "str/needs escapes", "bytes", "bytearray", "list",
               "tuple", "dict", "set", "frozenset", "Keyword", "Fraction", "range", "slice/other components", "slice/a component is a Keyword", "deque", "OrderedDict", "Counter",
               "defaultdict/no factory", "defaultdict/builtin factory", "ChainMap"]


def read_all(text):
    forms = list(hy.read_many(text))
    if len(forms) != 1:
        raise ValueError(f"{len(forms)} forms instead of one")
    return forms[0]


def roundtrip(x, ns=None):
    """None (holds) or (clause, detail, text)"""
    try:
        with time_guard(20):
            text = hy.repr(x)
    except (RecursionError, Timeout) as e:
        return ("terminates", f"hy.repr: {type(e).__name__}", None)
    except Exception as e:  # noqa: BLE001
        return ("equal", f"hy.repr raised {type(e).__name__}: {str(e)[:100]}", None)
    try:
        y = hy.eval(read_all(text), module=ns or NS)
    except Exception as e:  # noqa: BLE001
        return ("equal", f"{text[:200]!r} does not evaluate: {type(e).__name__}: {str(e)[:100]}", text)
    d = vdiff(x, y)
    if d:
        return (d[0], f"{d[1]}: {d[2]}; printed {text[:200]!r}", text)
    return None


def walk(x, depth=0):
    yield x
    if depth < 12:
        for c in children(x):
            yield from walk(c, depth + 1)


def minimal_failing(x, res):
    for c in children(x):
        r = roundtrip(c)
        if r is not None:
            return minimal_failing(c, r)
    return x, res


def run_case(x):
    classes = {value_class(n) for n in walk(x)}
    r = roundtrip(x)
    if r is None:
        return classes, None
    mm, rr = minimal_failing(x, r)
    return classes, (value_class(mm), rr[0], rr[1], repr(mm)[:300])


# ---------------------------------------------------------------------------------------------
# deterministic small-scope enumeration
# ---------------------------------------------------------------------------------------------
def leaves():
    return [None, True, False, 0, 1, -1, 2 ** 70, -10 ** 25, 1.5, -0.0, 0.0, math.inf, -math.inf, NAN, 1e-320, 1e22, 1e16, 0.1,
            1j, -1j, complex(-0.0, -0.0), complex(0.0, -0.0), complex(-0.0, 0.0), complex(1.5, -2.5), CNANS[0], CNANS[1], CNANS[3],
            complex(math.inf, -math.inf), "", "a", "a b", 'a"b\'\\\n', "é😀\x00", "\r\t\x7f\x85 ", "{x}", "\ud800", b"", b"a",
            b"a\xff\"'\\\n\x00", Keyword("k"), Keyword(""), Keyword("foo-bar?"), Fraction(1, 3), Fraction(-5, 1), Fraction(0),
            Fraction(10 ** 20, 7), range(3), range(1, 5), range(0, 10, 3), range(5, 0, -1), range(0), range(2, 2), range(-3),
            range(0, 3, 1), range(1, 3, 1), slice(None), slice(1, None), slice(1, 5, 2), slice(None, None, -1), slice(None, 5),
            slice(0, 5), slice(None, None, None), slice(None, 5, 1), slice(1.5, "a", None), bytearray(b""), bytearray(b"a\x00\xff")]


def _hashable(x):
    try:
        hash(x)
        return True
    except TypeError:
        return False


def _mk_chainmap(cs):
    maps = [c for c in cs if isinstance(c, DICTS)]
    return ChainMap(*maps) if maps else ChainMap({i: c for i, c in enumerate(cs)})


def _pairs(cs):
    keys = [c if _hashable(c) else i for i, c in enumerate(cs)]
    return list(zip(keys, reversed(cs)))


BUILDERS = [
    ("list", lambda cs: list(cs)),
    ("tuple", lambda cs: tuple(cs)),
    ("set", lambda cs: set(c for c in cs if _hashable(c))),
    ("frozenset", lambda cs: frozenset(c for c in cs if _hashable(c))),
    ("dict", lambda cs: dict(_pairs(cs))),
    ("deque", lambda cs: deque(cs)),
    ("OrderedDict", lambda cs: OrderedDict(_pairs(cs))),
    ("Counter", lambda cs: _counter(_pairs(cs))),
    ("defaultdict-none", lambda cs: defaultdict(None, _pairs(cs))),
    ("defaultdict-factory", lambda cs: defaultdict(FACTORIES[len(cs) % len(FACTORIES)], _pairs(cs))),
    ("ChainMap", _mk_chainmap),
    ("slice", lambda cs: slice(*(list(cs) + [None, None, None])[:3])),
]


def _counter(pairs):
    c = Counter()
    for k, v in pairs:
        dict.__setitem__(c, k, v)
    return c


def enumeration(tier):
    """(family, value)"""
    L = leaves()
    out = [("leaf", x) for x in L]
    k = 0
    for name, b in BUILDERS:
        for n in range(0, 4):
            for r in range(len(L) if tier == "thorough" else 12):
                k += 1
                out.append(("depth1", b([L[(k * 7 + 11 * j) % len(L)] for j in range(n)])))
    for (n1, b1), (n2, b2) in itertools.product(BUILDERS, repeat=2):
        for r in range(6 if tier == "thorough" else 2):
            k += 1
            inner = b2([L[(k * 5 + 3 * j) % len(L)] for j in range(r % 3 + 1)])
            out.append(("depth2", b1([inner, L[k % len(L)]])))
    for (n1, b1), (n2, b2), (n3, b3) in itertools.product(BUILDERS, repeat=3):
        for r in range(3 if tier == "thorough" else 1):
            k += 1
            inner = b3([L[(k * 5 + 3 * j) % len(L)] for j in range((k + r) % 3)])
            mid = b2([inner, L[(k * 13) % len(L)]])
            out.append(("depth3", b1([L[(k * 17) % len(L)], mid])))
    return out


# ---------------------------------------------------------------------------------------------
# hypothesis strategies (bounded depth and size)
# ---------------------------------------------------------------------------------------------
def value_strategy():
    from hypothesis import strategies as st
    floats = st.one_of(st.floats(allow_nan=False), st.sampled_from([NAN, math.inf, -math.inf, -0.0, 0.0, 5e-324, 1e22, 1e16, 1e-7]))
    cplx = st.one_of(st.complex_numbers(allow_nan=False, allow_infinity=True), st.sampled_from(CNANS),
                     st.builds(complex, st.sampled_from([0.0, -0.0, 1.0, math.inf]), st.sampled_from([0.0, -0.0, 2.0, -math.inf])))
    text = st.one_of(st.text(max_size=8), st.text(st.characters(), max_size=4),
                     st.lists(st.sampled_from(list("ab \"'\\\n\r\t{}[]#;é😀\x00\x7f\x85 \ud800")), max_size=6).map("".join))
    kw = st.one_of(st.sampled_from(["", "a", "foo-bar", "a?", "+", "λ", "_x", "a1"]),
                   st.text("abcxyz019-_*?!+<>=/&|%@^$λ", max_size=5)).map(Keyword)
    small = st.integers(-20, 20)
    ranges = st.one_of(st.builds(range, small), st.builds(range, small, small),
                       st.builds(range, small, small, small.filter(lambda s: s != 0)))
    sl_part = st.one_of(st.none(), small)
    slices = st.builds(slice, sl_part, sl_part, sl_part)
    fractions = st.builds(Fraction, st.integers(-10 ** 12, 10 ** 12), st.integers(1, 10 ** 6))
    hleaf = st.one_of(st.none(), st.booleans(), st.integers(-10 ** 25, 10 ** 25), floats, cplx, text, st.binary(max_size=6), kw,
                      fractions, ranges)
    hashables = st.recursive(hleaf, lambda ch: st.one_of(st.lists(ch, max_size=3).map(tuple), st.lists(ch, max_size=3).map(frozenset)),
                             max_leaves=6)
    leaf = st.one_of(hleaf, slices, st.binary(max_size=6).map(bytearray))

    def extend(ch):
        items = st.lists(st.tuples(hashables, ch), max_size=4)
        dicts = items.map(dict)
        mapping = st.one_of(dicts, items.map(OrderedDict), items.map(_counter),
                            st.tuples(st.sampled_from([None] + FACTORIES), items).map(lambda t: defaultdict(t[0], t[1])))
        return st.one_of(
            st.lists(ch, max_size=4), st.lists(ch, max_size=4).map(tuple), st.lists(hashables, max_size=4).map(set),
            st.lists(hashables, max_size=4).map(frozenset), mapping, st.lists(ch, max_size=4).map(deque),
            st.lists(st.tuples(hashables, small), max_size=4).map(lambda kv: Counter(dict(kv))),
            st.lists(mapping, min_size=1, max_size=3).map(lambda ms: ChainMap(*ms)),
            st.tuples(ch, ch, ch).map(lambda t: slice(*t)))
    return st.recursive(leaf, extend, max_leaves=12)
