"""Shared machinery for C06 / C07: skeleton programs over binding constructs, rendered (a) as Hy source compiled by
the real compiler and (b) as Python source obtained by an independent *reference renamer* for `let` (each let binding
becomes a fresh variable, applied lexically) with Python's own scoping for everything else.  Both run under CPython; the
logs of variable reads must agree.

Program terms (nested tuples):
  ("let", ((name, val), ...), body)      ("fn", body)  immediately called anonymous function
  ("defn", fname, body)                  defines and then calls the function
  ("class", cname, body)                 ("setv", name, val)      ("log", name)
  ("nonlocal", name)  ("global", name)   ("lfor", name, val, names_to_log)   ("later", fname) call a closure saved earlier
`body` is a tuple of terms.  Every `val` is a distinct integer so that a logged value identifies its binding.
"""
import itertools
import types

import hy

NAMES = ("x", "y")
# parameter kinds: Hy lambda list, Python parameter list, Hy call arguments, Python call arguments
PARAM_KINDS = {
    "posonly": ("{} /", "{}, /", "{1}", "{1}"), "plain": ("{}", "{}", "{1}", "{1}"), "default": ("[{} 0]", "{}=0", "{1}", "{1}"),
    "kwonly": ("* {}", "*, {}", ":{0} {1}", "{0}={1}"), "rest": ("#* {}", "*{}", "{1}", "{1}"), "kwargs": ("#** {}", "**{}", ":k {1}", "k={1}"),
}


# ---------------------------------------------------------------------------------------------------------------
# rendering as Hy
# ---------------------------------------------------------------------------------------------------------------
def to_hy(t, ind=0):
    k = t[0]
    sp = " "
    if k == "let":
        b = " ".join(f"{n} {val_hy(v)}" for n, v in t[1])
        return f"(let [{b}] {body_hy(t[2])})"
    if k == "fn":
        return f"((fn [] {body_hy(t[1])}))"
    if k == "defn":
        return f"(do (defn {t[1]} [] {body_hy(t[2])}) ({t[1]}))"
    if k == "defnp":
        # a function whose parameter (of the given kind) binds the name
        _, fname, pname, pkind, val, body = t
        ll, _, call, _ = PARAM_KINDS[pkind]
        return f"(do (defn {fname} [{ll.format(pname)}] {body_hy(body)}) ({fname} {call.format(pname, val)}))"
    if k == "class":
        return f"(defclass {t[1]} [] {body_hy(t[2])})"
    if k == "setv":
        return f"(setv {t[1]} {t[2]})"
    if k == "bind":
        # other ways of binding a name in the current Python scope: an assignment whose value needs statements (the
        # compiler renames the value's temporary to the target), setx, a for-loop target
        how, n, v = t[1], t[2], t[3]
        return {"setv-of-try": f"(setv {n} (try {v} (finally None)))", "setx": f"(do (setx {n} {v}) None)",
                "for": f"(for [{n} [{v}]] None)",
                # further values that leave their result in a temporary which the compiler renames to the target
                "setv-of-if": f"(setv {n} (if True (do (setv hv_tmp {v}) hv_tmp) 0))",
                "setv-of-match": f"(setv {n} (match 1 1 (do (setv hv_tmp {v}) hv_tmp) _ 0))",
                "setv-of-fn": f"(setv {n} ((fn [] (setv hv_tmp {v}) hv_tmp)))",
                "setv-of-def-fn": f"(do (setv {n} (fn [] (setv hv_tmp {v}) hv_tmp)) (setv {n} ({n})))"}[how]
    if k == "log":
        return f'(LOG "{t[1]}" (fn [] {t[1]}))'
    if k == "log2":
        # two direct references in the current scope (no thunk): every occurrence of a name must be resolved
        return f'(LOGV "{t[1]}{t[1]}" #({t[1]} {t[1]}))'
    if k in ("nonlocal", "global"):
        return f"({k} {t[1]})"
    if k == "def":
        return f"(defn {t[1]} [] {body_hy(t[2])})"
    if k == "call":
        return f"({t[1]})"
    if k == "lforx":
        # the iterable is the variable of the same name in the enclosing scope
        # (a generator expression: CPython 3.12.0-3.12.3 mis-compile the inlined list comprehension here, see below)
        return f'(list (gfor {t[1]} [{t[1]}] (do (LOGV "{t[1]}" {t[1]}) 0)))'
    if k == "lfor2x":
        # two clauses: the first iterable names the variable of the enclosing scope, a *later* clause uses the same name as its
        # iteration variable
        return f'(list (gfor hv_i [{t[1]}] {t[1]} [hv_i] (do (LOGV "{t[1]}" {t[1]}) 0)))'
    if k == "lforsetv":
        # a `:setv` clause creates a variable in the comprehension's own scope; the element needs statements, so the comprehension is
        # emitted as a function
        return f'(lfor hv_i [0] :setv {t[1]} {t[2]} (do (LOGV "{t[1]}" {t[1]}) 0))'
    if k == "lforsetvx":
        # ... and here it is a real Python comprehension (by value, as for "lfor")
        return f'(lfor hv_i [0] :setv {t[1]} {t[2]} (LOGV "{t[1]}" {t[1]}))'
    if k == "lfor":
        # only the iteration variable is logged inside (by value: CPython 3.12.0-3.12.3 mis-compile a lambda that captures
        # the iteration variable of an inlined comprehension when the enclosing function has a free variable of that name)
        return f'(lfor {t[1]} [{t[2]}] (do (LOGV "{t[1]}" {t[1]}) 0))'
    raise ValueError(k)


def val_hy(v):
    """A let-binding value: an integer, or ("closure", name): a function that logs `name` as seen at this point of the
    binding list (the bindings of one let are sequential: later bindings of the same name must not be visible to it)."""
    if isinstance(v, tuple) and v[0] == "closure":
        return f'(fn [] (LOG "{v[1]}" (fn [] {v[1]})))'
    return str(v)


def body_hy(body):
    return " ".join(to_hy(s) for s in body) or "None"


# ---------------------------------------------------------------------------------------------------------------
# reference: let-renaming + Python's own scoping
# ---------------------------------------------------------------------------------------------------------------
class Ren:
    """Lexical environment of let bindings.  Each binding knows in which Python scope (function nesting id) it lives."""

    def __init__(self):
        self.n = 0

    def fresh(self, name):
        self.n += 1
        return f"{name}__let{self.n}"


def to_py(prog):
    """Returns Python source of the reference program.  Two passes: the first collects, per Python scope, the names it
    assigns (after let-renaming); the second emits code, resolving (nonlocal n) to the nearest enclosing binding: a let
    binding, else an enclosing *function* that assigns n, else the module-level variable (-> global)."""
    assigned = {}
    declared = {}        # Python scope -> names it declares global / nonlocal: its assignments to them are not bindings of its own

    def run(emit_code):
        ren = Ren()
        out = []
        counter = [0]

        def emit(line, ind):
            out.append("    " * ind + line)

        def resolve(name, env):
            for frame in reversed(env):
                if name in frame and frame[name] is not True:
                    r = frame[name]
                    return None if r[0] == name else r        # (name, scope) marks "module-level variable" after (global name)
            return None

        def note(pyscope, name):
            assigned.setdefault(pyscope, set()).add(name)

        def go(body, env, ind, pyscope):
            if not body:
                emit("pass", ind)
            for t in body:
                k = t[0]
                counter[0] += 1
                me = counter[0]
                if k == "let":
                    frame = {}
                    env2 = env + [frame]
                    for n, v in t[1]:
                        new = ren.fresh(n)
                        if isinstance(v, tuple) and v[0] == "closure":
                            r = resolve(v[1], env2)           # the bindings so far, not the one being made
                            v = f"lambda: LOG({v[1]!r}, lambda: {r[0] if r else v[1]})"
                        emit(f"{new} = {v}", ind)
                        note(pyscope, new)
                        frame[n] = (new, pyscope)
                    go(t[2], env2, ind, pyscope)
                elif k in ("fn", "defn", "def"):
                    fname = f"_anon{me}" if k == "fn" else t[1]
                    body2 = t[1] if k == "fn" else t[2]
                    emit(f"def {fname}():", ind)
                    go(body2, env + [{"<fn>": True}], ind + 1, pyscope + (("fn", me),))
                    if k != "def":
                        emit(f"{fname}()", ind)
                    if k != "fn":
                        note(pyscope, fname)
                elif k == "defnp":
                    _, fname, pname, pkind, val, body2 = t
                    _, pyll, _, pycall = PARAM_KINDS[pkind]
                    emit(f"def {fname}({pyll.format(pname)}):", ind)
                    inner_scope = pyscope + (("fn", me),)
                    note(inner_scope, pname)                 # a parameter is a variable the function binds
                    # (the parameter shadows a let binding of the same name for the whole function body)
                    go(body2, env + [{"<fn>": True, pname: (pname, inner_scope)}], ind + 1, inner_scope)
                    emit(f"{fname}({pycall.format(pname, val)})", ind)
                    note(pyscope, fname)
                elif k == "call":
                    r = resolve(t[1], env)
                    emit(f"{r[0] if r else t[1]}()", ind)
                elif k == "class":
                    emit(f"class {t[1]}:", ind)
                    go(t[2], env, ind + 1, pyscope + (("class", me),))
                    note(pyscope, t[1])
                elif k == "setv":
                    r = resolve(t[1], env)
                    n = r[0] if r else t[1]
                    emit(f"{n} = {t[2]}", ind)
                    note(pyscope, n)
                elif k == "bind":
                    r = resolve(t[2], env)
                    n = r[0] if r else t[2]
                    emit(f"for {n} in [{t[3]}]: pass" if t[1] == "for" else f"{n} = {t[3]}", ind)
                    note(pyscope, n)
                elif k == "log2":
                    r = resolve(t[1], env)
                    n = r[0] if r else t[1]
                    emit(f"LOGV({(t[1] * 2)!r}, ({n}, {n}))", ind)
                elif k == "log":
                    r = resolve(t[1], env)
                    n = r[0] if r else t[1]
                    emit(f"LOG({t[1]!r}, lambda: {n})", ind)
                elif k == "global":
                    # (global n) always refers to the module-level variable: from here on, in this Python scope, the
                    # name is not a let binding any more (neither of this scope's lets nor of an enclosing scope's)
                    for frame in reversed(env):
                        if t[1] in frame and frame[t[1]] is not True:
                            frame[t[1]] = (t[1], pyscope)
                        if frame.get("<fn>"):
                            frame[t[1]] = (t[1], pyscope)
                            break
                    else:
                        pass
                    declared.setdefault(pyscope, set()).add(t[1])
                    emit(f"global {t[1]}", ind)
                elif k == "nonlocal":
                    # the name (after let-renaming: a let binding is just a freshly named variable) refers to the nearest
                    # enclosing *function* that assigns it, else to the module-level variable (-> global); class bodies
                    # never provide the binding
                    r = resolve(t[1], env)
                    n = r[0] if r else t[1]
                    if r is not None and r[1] == pyscope:
                        pass                                     # let binding of this very Python scope: nothing to declare
                    else:
                        declared.setdefault(pyscope, set()).add(n)
                        target = None
                        for i in range(len(pyscope) - 1, 0, -1):
                            scp = pyscope[:i]
                            if scp and scp[-1][0] == "fn" and n in assigned.get(scp, ()) and n not in declared.get(scp, ()):
                                target = "nonlocal"
                                break
                        if target is None and n in assigned.get((), ()):
                            target = "global"
                        emit(f"{target or 'nonlocal'} {n}", ind)      # no binding at all: Python's own SyntaxError
                elif k == "lfor2x":
                    r = resolve(t[1], env)
                    emit(f"def _lf{me}(it):", ind)
                    emit("for hv_i in it:", ind + 1)
                    emit(f"for {t[1]} in [hv_i]:", ind + 2)
                    emit(f"LOGV({t[1]!r}, {t[1]})", ind + 3)
                    emit("yield 0", ind + 3)
                    emit(f"list(_lf{me}([{r[0] if r else t[1]}]))", ind)
                elif k == "lforx":
                    # the first iterable of a comprehension is evaluated in the enclosing scope
                    r = resolve(t[1], env)
                    emit(f"def _lf{me}(it):", ind)
                    emit(f"for {t[1]} in it:", ind + 1)
                    emit(f"LOGV({t[1]!r}, {t[1]})", ind + 2)
                    emit("yield 0", ind + 2)
                    emit(f"list(_lf{me}([{r[0] if r else t[1]}]))", ind)
                elif k in ("lforsetv", "lforsetvx"):
                    emit(f"def _lf{me}():", ind)
                    emit("for hv_i in [0]:", ind + 1)
                    emit(f"{t[1]} = {t[2]}", ind + 2)
                    emit(f"LOGV({t[1]!r}, {t[1]})", ind + 2)
                    emit("yield 0", ind + 2)
                    emit(f"list(_lf{me}())", ind)
                elif k == "lfor":
                    # a generator function instead of an (inlined, PEP 709) comprehension: CPython 3.12.0-3.12.3 mis-compile
                    # functions in which a lambda refers to a free variable that is also a comprehension's iteration variable
                    emit(f"def _lf{me}():", ind)
                    emit(f"for {t[1]} in [{t[2]}]:", ind + 1)
                    emit(f"LOGV({t[1]!r}, {t[1]})", ind + 2)
                    emit("yield 0", ind + 2)
                    emit(f"list(_lf{me}())", ind)
                else:
                    raise ValueError(k)
        go(prog, [], 0, ())
        return "\n".join(out) + "\n"
    run(False)
    return run(True)


def _logger(log):
    def LOG(n, thunk):
        try:
            v = thunk()
        except NameError:       # includes UnboundLocalError
            v = "undef"
        log.append((n, v))
    return LOG


def run_hy(src):
    log = []
    mod = types.ModuleType("hv_scopes_hy")
    mod.LOG = _logger(log)
    mod.LOGV = lambda n, v: log.append((n, v))
    try:
        hy.eval(hy.read_many(src), module=mod, locals=mod.__dict__)
        end = None
    except SyntaxError as e:
        end = "SyntaxError"
    except Exception as e:  # noqa: BLE001
        end = "NameError" if isinstance(e, NameError) else type(e).__name__
    return log, end, {k: mod.__dict__.get(k, "unset") for k in NAMES}


def run_py(src):
    log = []
    g = {"LOG": _logger(log), "LOGV": lambda n, v: log.append((n, v)), "__name__": "hv_scopes_py"}
    try:
        exec(compile(src, "<ref>", "exec"), g)
        end = None
    except SyntaxError:
        end = "SyntaxError"
    except Exception as e:  # noqa: BLE001
        end = "NameError" if isinstance(e, NameError) else type(e).__name__
    return log, end, {k: g.get(k, "unset") for k in NAMES}


def compare(prog):
    hs, ps = body_hy(prog), to_py(prog)
    h, p = run_hy(hs), run_py(ps)
    if h[1] == "SyntaxError" and p[1] == "SyntaxError":
        return True, hs, ps, h, p
    return h == p, hs, ps, h, p


# ---------------------------------------------------------------------------------------------------------------
# generators
# ---------------------------------------------------------------------------------------------------------------
class Vals:
    def __init__(self):
        self.n = 100

    def __call__(self):
        self.n += 1
        return self.n


def spine_programs(levels, pre_opts, post_opts, inner_opts, wrap_function=False):
    """All programs consisting of a spine of nested binding constructs.  `levels`: list (outermost first) of level kinds;
    at each level: pre-statements, the construct enclosing the next level, post-statements."""
    def build(i, v):
        if i == len(levels):
            for inner in inner_opts:
                yield tuple(mk(v) for mk in inner)
            return
        kind = levels[i]
        for pre in pre_opts:
            for post in post_opts:
                for rest in build(i + 1, v):
                    pre_s = tuple(mk(v) for mk in pre)
                    post_s = tuple(mk(v) for mk in post)
                    if kind[0] == "let":
                        node = ("let", tuple((n, v()) for n in kind[1]), rest + post_s)
                        yield pre_s + (node,)
                    elif kind[0] == "fn":
                        yield pre_s + (("fn", rest),) + post_s
                    elif kind[0] == "defn":
                        yield pre_s + (("defn", f"f{i}", rest),) + post_s
                    elif kind[0] == "defnp":
                        yield pre_s + (("defnp", f"f{i}", kind[1], kind[2], v(), rest),) + post_s
                    elif kind[0] == "later":      # closure defined now, variable reassigned, closure called afterwards
                        yield pre_s + (("def", f"g{i}", rest), ("setv", kind[1], v()), ("call", f"g{i}")) + post_s
                    elif kind[0] == "class":
                        yield pre_s + (("class", f"K{i}", rest),) + post_s
                    elif kind[0] == "lfor":
                        yield pre_s + (("lfor", kind[1], v(), NAMES),) + rest + post_s
                    elif kind[0] in ("lforsetv", "lforsetvx"):
                        yield pre_s + ((kind[0], kind[1], v()),) + rest + post_s
                    elif kind[0] == "lforx":
                        yield pre_s + (("lforx", kind[1]),) + rest + post_s
                    elif kind[0] == "lfor2x":
                        yield pre_s + (("lfor2x", kind[1]),) + rest + post_s
                    elif kind[0] == "let2":       # one let binding the same name twice, a closure captured in between
                        n = kind[1]
                        node = ("let", ((n, v()), (f"c{i}", ("closure", n)), (n, v())), rest + (("call", f"c{i}"),) + post_s)
                        yield pre_s + (node,)
                    else:
                        raise ValueError(kind)
    v = Vals()
    for prog in build(0, v):
        if wrap_function:
            yield (("fn", prog),)
        else:
            yield prog


SETV = lambda n: (lambda v: ("setv", n, v()))
BIND = lambda how, n: (lambda v: ("bind", how, n, v()))
LOG = lambda n: (lambda v: ("log", n))
LOG2 = lambda n: (lambda v: ("log2", n))
NONLOCAL = lambda n: (lambda v: ("nonlocal", n))
GLOBAL = lambda n: (lambda v: ("global", n))
