"""C08 match selects, binds and returns like Python's match statement."""
from hv import core  # noqa: E402
import ast
import itertools
import multiprocessing as mp

import hy
from hy.models import (Bytes, Complex, Dict, Expression, Float, Integer, Keyword, List, String, Symbol, Tuple)

from hv import equiv, rules
from hv.symx import core as sx
from hv.symx.core import E, S, Tok

from hv.replay import replay_mismatch

META = {
    "engine": "symx+pysem",
    "level": "proof",
    "technique": "contract-based: (1) postcondition of compile_pattern: the emitted pattern node equals CPython's parse of the "
                 "equivalent Python pattern text (independent renderer), for every pattern of the match sublanguage up to "
                 "depth 2/3; (2) postcondition of compile_match_expression: pysem(emitted) == reference match semantics "
                 "(cases in order, guard only after a successful match, value of the selected body, None otherwise) with "
                 "opaque subject, guards and bodies and an opaque match decision per case",
    "text": "Patterns: literals, singletons, capture, wildcard, dotted value, sequence with #*, mapping with #**, class with "
            "positional and keyword sub-patterns (also dotted class), | alternatives, :as captures and keyword patterns are "
            "enumerated to depth 2 (quick) / 3 (thorough) over all parent/child kind pairs; each emitted pattern is "
            "structurally identical to CPython's own parse, so selection and binding are Python's. The wrapper is proved "
            "trace-equivalent to Python's match statement for up to 3 clauses, guards that are absent, expressions or "
            "statement-producing (lifted into a function), all body shapes, and a raise at every atom.",
    "note": "Trusted: CPython's match semantics for identical pattern nodes; pysem's Match model (opaque per-case decision); "
            "the pattern renderer as reading of docs/api.rst `match`. Depth bound: compile_pattern treats sub-patterns "
            "uniformly by recursion, depth 2 already exercises every (parent kind, child kind) pair.",
}

LEAVES = [
    (lambda: Integer(1), "1"), (lambda: String("s"), "'s'"), (lambda: Float(1.5), "1.5"), (lambda: Bytes(b"b"), "b'b'"),
    (lambda: Complex(2j), "2j"), (lambda: Symbol("None"), "None"), (lambda: Symbol("True"), "True"), (lambda: Symbol("False"), "False"),
    (lambda: Symbol("cap"), "cap"), (lambda: Symbol("_"), "_"), (lambda: Symbol("cap-x!"), hy.mangle("cap-x!")),
    (lambda: String("None"), "'None'"), (lambda: Bytes(b"True"), "b'True'"),      # literals spelled like the singletons
    (lambda: E(S("."), S("m"), S("C")), "m.C"), (lambda: E(S("."), S("m"), S("sub"), S("val-x")), "m.sub.val_x"),
]


def composites(subs):
    """subs: list of (builder, text).  Yields (builder, text) of one-level-deeper patterns."""
    for (a, ta), (b, tb) in itertools.product(subs, repeat=2):
        yield (lambda a=a, b=b: List([a(), b()]), f"[{ta}, {tb}]")
        yield (lambda a=a, b=b: Tuple([a(), b()]), f"[{ta}, {tb}]")
        yield (lambda a=a, b=b: E(S("|"), a(), b()), f"({ta} | {tb})")
        yield (lambda a=a, b=b: Dict([String("k"), a(), Integer(2), b()]), f"{{'k': {ta}, 2: {tb}}}")
        yield (lambda a=a, b=b: E(S("Cls"), a(), Keyword("attr-x"), b()), f"Cls({ta}, attr_x={tb})")
    for (a, ta) in subs:
        yield (lambda a=a: List([a(), E(S("unpack-iterable"), S("rest"))]), f"[{ta}, *rest]")
        yield (lambda a=a: List([E(S("unpack-iterable"), S("_")), a()]), f"[*_, {ta}]")
        yield (lambda a=a: Dict([String("k"), a(), E(S("unpack-mapping"), S("more"))]), f"{{'k': {ta}, **more}}")
        yield (lambda a=a: Dict([String("k"), a(), E(S("unpack-mapping"), S("_"))]), f"{{'k': {ta}, **_}}")
        yield (lambda a=a: E(E(S("."), S("m"), S("Cls")), a()), f"m.Cls({ta})")
        yield (lambda a=a: E(S("Cls"), Keyword("k"), a()), f"Cls(k={ta})")
        yield (lambda a=a: E(S("Cls")), "Cls()")
        yield (lambda a=a: List([]), "[]")
        yield (lambda a=a: Dict([]), "{}")
        yield (lambda a=a: E(S("|"), a()), ta)         # a single alternative is that alternative
        yield (("as", a), f"({ta}) as whole")


def norm(node):
    return ast.dump(node)


ITEMS = []


def check(idx):
    b, text = ITEMS[idx]
    as_name = None
    if isinstance(b, tuple):
        as_name, b = S("whole"), b[1]
    pat = b()
    clause = [pat] + ([Keyword("as"), as_name] if as_name is not None else [])
    body = Tok("b", "E")
    out = sx.run_rule(E(S("match"), Tok("s", "E"), *clause, body))
    desc = hy.repr(pat)[1:] + (" :as whole" if as_name is not None else "")
    if text is None:
        # (| p): a one-alternative or-pattern; Python's grammar cannot write it, CPython's validator rejects MatchOr with
        # fewer than two patterns -> must be a Hy error or a non-MatchOr pattern
        if not out.ok:
            return desc, sx.is_hy_user_error(out.exc), repr(out.exc)[:200]
        m = next(s for s in out.result.stmts if isinstance(s, ast.Match))
        p = m.cases[0].pattern
        try:
            compile(ast.fix_missing_locations(ast.Module(body=[ast.Match(subject=ast.Constant(1), cases=[ast.match_case(pattern=p, guard=None, body=[ast.Pass()])])], type_ignores=[])), "<p>", "exec")
            return desc, True, None
        except (ValueError, TypeError, SyntaxError) as e:
            return desc, False, f"emitted pattern is rejected by CPython: {e}"
    if not out.ok:
        if sx.is_hy_user_error(out.exc):
            # is the Python text itself invalid (e.g. duplicate capture names, wildcard alternative not last)?
            try:
                compile(f"match S:\n case {text}: pass", "<p>", "exec")
            except SyntaxError:
                return desc, True, "rejected by Hy; also a SyntaxError in Python"
            return desc, False, f"Hy rejects a pattern Python accepts: {out.exc}"[:300]
        return desc, False, repr(out.exc)[:300]
    m = next(s for s in out.result.stmts if isinstance(s, ast.Match))
    got = m.cases[0].pattern
    try:
        want = ast.parse(f"match S:\n case {text}: pass").body[0].cases[0].pattern
    except SyntaxError as e:
        return desc, True, f"(Python text not parseable: {e})"
    g, w = norm(got), norm(want)
    return desc, g == w, None if g == w else f"emitted {g}\n  CPython {w}\n  text    {text}"


def run(chk):
    quick = chk.tier == "quick"
    level1 = list(composites(LEAVES))
    items = list(LEAVES) + level1
    plain = [x for x in level1 if not isinstance(x[0], tuple) and x[1] is not None]
    rep = plain[::41][:4]
    if not quick:
        # a superset of the quick tier's depth-3 sample (obligation names of the quick tier stay present)
        rep = rep + [x for x in plain[::7][:12] if not any(x is y for y in rep)]
    items += list(composites(rep))
    ITEMS[:] = items
    import gc; gc.collect(); gc.freeze()  # forked workers then touch (copy) far fewer pages
    with mp.get_context("fork").Pool(chk.jobs) as pool:
        res = core.pmap(pool, check, range(len(items)), chunksize=32)
    seen = set()
    for desc, ok, detail in res:
        if desc in seen:
            continue
        seen.add(desc)
        chk.case(desc)
        chk.ob(f"pattern/{desc}"[:150], ok, "cpython-oracle", "arity_bounded", detail=detail)
    # keyword pattern
    out = sx.run_rule(E(S("match"), Tok("s", "E"), Keyword("kw"), Tok("b", "E")))
    p = next(s for s in out.result.stmts if isinstance(s, ast.Match)).cases[0].pattern
    want = ast.parse("match S:\n case hy.models.Keyword('kw'): pass").body[0].cases[0].pattern
    chk.ob("pattern/:kw is the class pattern hy.models.Keyword('kw')", ast.dump(p) == ast.dump(want), "cpython-oracle", "proved",
           detail=ast.dump(p))
    # captures are reported to the scope (so that let/nonlocal machinery sees them)
    comp = sx.new_compiler()
    sx.run_rule(E(S("match"), Tok("s", "E"), List([S("p"), E(S("unpack-iterable"), S("q"))]), Keyword("as"), S("w"), Tok("b", "E")), compiler=comp)
    chk.ob("pattern/captures p, *q and :as w are recorded as assignments of the enclosing scope", {"p", "q", "w"} <= comp.scope.defined,
           "structural", "proved", detail=str(sorted(comp.scope.defined)))

    # every pattern kind also compiles inside a comprehension (there the enclosing scope collects the names a pattern assigns)
    import hy.scoping as hsc
    kinds = {"capture": lambda: S("q"), "wildcard": lambda: S("_"), "star": lambda: List([S("q"), E(S("unpack-iterable"), S("r"))]),
             "star wildcard": lambda: List([S("q"), E(S("unpack-iterable"), S("_"))]), "mapping without rest": lambda: Dict([String("k"), S("q")]),
             "mapping with rest": lambda: Dict([String("k"), S("q"), E(S("unpack-mapping"), S("r"))]), "class": lambda: E(S("Cls"), S("q"), Keyword("a"), S("r")),
             "or": lambda: E(S("|"), Integer(1), Integer(2)), "as": None}
    for pk, mk in kinds.items():
        for body_shape in ("E", "SE"):
            clause = [Integer(1), Keyword("as"), S("w")] if mk is None else [mk()]
            form = E(S("lfor"), S("v"), Tok("xs", "E"), E(S("match"), S("v"), *clause, Tok("b", body_shape)))
            out = sx.run_rule(form)
            chk.ob(f"pattern/inside a comprehension/{pk}/body shape {body_shape}: compiles", out.ok, "structural", "proved",
                   detail=None if out.ok else f"{type(out.exc).__name__}: {out.exc}"[:300])
    # wrapper semantics
    C = rules.Case
    B = ("E", "SE", "S")
    f = "hy/core/result_macros.py::compile_match_expression"
    C("match/0", lambda s: E(S("match"), s), 1, B, fn=f)
    BT = B + ("T",)      # T: a child that leaves its value in a result temporary (rules may look at Result.temp_variables)
    C("match/1", lambda s, b: E(S("match"), s, S("x"), b), 2, BT, fn=f)
    C("match/2", lambda s, a, b: E(S("match"), s, Integer(1), a, S("_"), b), 3, BT, kind="arity_bounded", fn=f)
    C("match/3", lambda s, a, b, c: E(S("match"), s, Integer(1), a, List([S("p")]), b, S("_"), c), 4, B, kind="arity_bounded", fn=f)
    C("match/guard-1", lambda s, g, a: E(S("match"), s, S("x"), Keyword("if"), g, a), 3, BT, fn=f)
    C("match/guard-2", lambda s, g, a, h, b: E(S("match"), s, S("x"), Keyword("if"), g, a, S("y"), Keyword("if"), h, b), 5,
      [("E",), B, ("E", "SE"), B, ("E", "SE")], kind="arity_bounded", fn=f)
    C("match/guard-then-default", lambda s, g, a, b: E(S("match"), s, S("x"), Keyword("if"), g, a, S("_"), b), 4, B,
      kind="arity_bounded", fn=f)
    # guards that are literal models, also falsy ones (a rule must not test a model's own truth value)
    for gname, g in (("0", lambda: Integer(0)), ("empty-string", lambda: String("")), ("empty-list", lambda: List([])), ("1", lambda: Integer(1))):
        C(f"match/literal-guard-{gname}", (lambda g: lambda s, a, b: E(S("match"), s, S("x"), Keyword("if"), g(), a, S("_"), b))(g), 3,
          [("E",), ("E", "SE"), ("E", "SE")], kind="arity_bounded", fn=f)
    C("match/as", lambda s, a: E(S("match"), s, Integer(1), Keyword("as"), S("w"), a), 2, BT, fn=f)
    C("match/value-used", lambda s, a, b: E(S("if"), E(S("match"), s, Integer(1), a), b, b), 3, ("E", "SE"), kind="arity_bounded")
    rules.run_cases(chk, ["match/0", "match/1", "match/2", "match/3", "match/guard-1", "match/guard-2", "match/guard-then-default",
                          "match/as", "match/value-used"] + [f"match/literal-guard-{g}" for g in ("0", "empty-string", "empty-list", "1")],
                    replay_fn=replay_mismatch)
    chk.fn("hy/core/result_macros.py::compile_pattern", f)
    chk.trust("CPython's parser and match semantics for identical pattern nodes", "pysem Match model", "pattern renderer (docs/api.rst match)")
    chk.bounds.update({"pattern depth": "2 quick / 3 thorough", "clauses": "<=3"})
    # canary
    t = sx.tokens(("E", "E", "E"))
    out = sx.run_rule(E(S("match"), t[0], Integer(1), t[1], S("_"), t[2]))
    _, bad = equiv.compare(out.result, E(S("match"), t[0], Integer(1), t[2], S("_"), t[1]))
    chk.canary("match emitted vs reference with swapped bodies", bool(bad))
    chk.sample({"pattern": "[1 cap #* rest]", "python": "[1, cap, *rest]"})


def replay(path):
    from hv.replay import replay_file
    return replay_file(path)
