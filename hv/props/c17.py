"""C17 runtime tracebacks point at the line of the failing form: span containment of emitted node positions."""
import ast

import hy.models as hm
from hy.models import Expression, Integer, List, String, Symbol

from hv import catalog, structural
from hv.structural import FORM_LINE
from hv.symx import core as sx
from hv.symx.core import E, S, Tok

META = {
    "engine": "symx",
    "level": "proof",
    "technique": "contract-based: span-containment postcondition on every compile_* rule (symbolic execution of the real rule "
                 "on opaque children placed on distinct source lines) plus contracts on Asty._get_pos, Object.replace, "
                 "Sequence.replace and HyReader.fill_pos checked on the real functions",
    "text": "For every rule of the catalogue and every child-shape vector, every position-bearing AST node the rule creates "
            "lies within the source line span of the form being compiled (children sit on their own lines inside that span "
            "and keep their own positions); nodes the rule synthesises from new models inherit the form's span instead of "
            "the fallback line 1. By induction over form depth the node that raises belongs to the innermost form whose rule "
            "emitted it. Position plumbing (_get_pos, replace, fill_pos) is checked against its contract.",
    "note": "Trusted: CPython's mapping from node positions to traceback line numbers; parametricity. Constant nodes are exempt (evaluating a "
            "constant cannot raise; Result.force_expr fabricates a `None` at line 0 for an empty Result); every other "
            "position-bearing node is required to be inside the span.",
}


def span_check(entry, sv):
    toks, form, out = structural.emit(entry, sv)
    if not out.ok:
        if sx.is_hy_user_error(out.exc):
            return ("hy-error", None, None)
        return ("ok", f"raises {type(out.exc).__name__} (classified by C10)", None)
    lo, hi = FORM_LINE, FORM_LINE + len(sv) + 1
    bad = []
    for n in structural.nodes_of(out.result):
        if not isinstance(n, (ast.expr, ast.stmt, ast.excepthandler, ast.arg, ast.keyword, ast.alias)) and \
                type(n).__name__ not in ("MatchValue", "MatchSingleton", "MatchSequence", "MatchMapping", "MatchClass",
                                         "MatchStar", "MatchAs", "MatchOr", "TypeVar", "ParamSpec", "TypeVarTuple"):
            continue
        ln, eln = getattr(n, "lineno", None), getattr(n, "end_lineno", None)
        if ln is None:
            if isinstance(n, (ast.expr, ast.stmt)):
                bad.append(f"{type(n).__name__} without lineno")
            continue
        if isinstance(n, ast.Constant):
            continue        # evaluating a constant cannot raise (covers the `None` Result.force_expr fabricates at line 0)
        if not (lo <= ln <= hi) or (eln is not None and not (ln <= eln <= hi)):
            bad.append(f"{type(n).__name__} at lines {ln}..{eln}, form spans {lo}..{hi}")
    # the code of a sub-form keeps the position of that sub-form: a rule may position the nodes *it* builds anywhere in the form's span,
    # but it must not re-position the compiled children (an error raised inside a child is reported on the child's own line)
    for n in structural.nodes_of(out.result):
        tok = getattr(n, "tok", None)
        if tok is not None and getattr(n, "lineno", None) != tok.start_line:
            bad.append(f"the code of sub-form {tok.name} (line {tok.start_line}) was moved to line {getattr(n, 'lineno', None)}")
    if bad:
        return ("violated", "; ".join(sorted(set(bad))[:6]) + "\n" + sx.show(out.result),
                {"emitted": sx.show(out.result), "replay": _replay_span(entry, sv)})
    return ("ok", None, None)


def _replay_span(entry, sv):
    """Through the reader and the compiler: the instantiated form as one line of source text on line 10 of a module; every
    expression / statement node of the compiled module that can raise must carry line 10."""
    import types
    import hy
    from hy.compiler import hy_compile
    from hv import concrete
    try:
        toks, form = structural.make(entry, sv)
        text = hy.repr(concrete.instantiate(form)).lstrip("'")
        if "\n" in text:
            return {"confirmed": False, "reason": "source text spans several lines"}
        src = "\n" * 9 + text + "\n"
        if entry.in_function or entry.in_class:
            src = "\n" * 8 + "(defn hv_f []\n" + text + ")\n"
        tree = hy_compile(hy.read_many(src, filename="<hv-c17-replay>"), types.ModuleType("hv_c17_replay"), import_stdlib=False)
    except Exception as e:  # noqa: BLE001
        return {"confirmed": False, "error": f"{type(e).__name__}: {e}"[:200]}
    off = []
    for n in ast.walk(tree):
        if isinstance(n, (ast.expr, ast.stmt)) and not isinstance(n, ast.Constant):
            ln = getattr(n, "lineno", None)
            if isinstance(n, ast.FunctionDef) and n.name == "hv_f":
                continue
            if ln != 10:
                off.append(f"{type(n).__name__} at line {ln}")
    return {"confirmed": bool(off), "input": f"line 10 of a module: {text}", "observed": sorted(set(off))[:6],
            "expected": "every node that can raise is on line 10"}


def plumbing(chk):
    from hy.compiler import Asty
    # Asty._get_pos: start_line->lineno, start_column->col_offset, end_line->end_lineno, end_column->end_col_offset
    t = Tok("p", "E", line=7)
    t.start_column, t.end_line, t.end_column = 3, 9, 5
    pos = Asty._get_pos(t)
    chk.ob("plumbing/Asty._get_pos maps model positions to the four AST attributes",
           pos == dict(lineno=7, col_offset=3, end_lineno=9, end_col_offset=5), "structural", "proved", detail=str(pos))
    n = ast.Name(id="x", lineno=4, col_offset=2, end_lineno=5, end_col_offset=6)
    pos = Asty._get_pos(n)
    chk.ob("plumbing/Asty._get_pos passes AST positions through",
           pos == dict(lineno=4, col_offset=2, end_lineno=5, end_col_offset=6), "structural", "proved", detail=str(pos))
    # Object.replace: fills unset positions only; Sequence.replace recurses
    a, b = Symbol("a"), Symbol("b")
    b.start_line, b.end_line, b.start_column, b.end_column = 20, 21, 2, 3
    inner = Expression([Symbol("f"), a])
    outer = Expression([inner, b]).replace(b)
    got = [(x.start_line, x.end_line) for x in (outer, outer[0], outer[0][1], outer[1])]
    chk.ob("plumbing/Sequence.replace gives un-positioned sub-models the donor's span and keeps set positions",
           got == [(20, 21)] * 4, "structural", "proved", detail=str(got))
    c = Symbol("c")
    c.start_line = c.end_line = 30
    c.start_column = c.end_column = 1
    c2 = c.replace(b)
    chk.ob("plumbing/Object.replace never overwrites a position that is already set", (c2.start_line, c2.end_line) == (30, 30),
           "structural", "proved")
    # fill_pos through the real reader: every model of a multi-line text gets start<=end within the text
    import hy
    src = "(defn f [x]\n  (+ x\n     (g 1\n        2)))\n'(a b)\n"
    bad = []

    def walk(m, lo, hi):
        if not (lo <= m.start_line <= m.end_line <= hi):
            bad.append((str(m)[:20], m.start_line, m.end_line, lo, hi))
        if isinstance(m, hm.Sequence):
            for x in m:
                walk(x, m.start_line, m.end_line)
    for m in hy.read_many(src):
        walk(m, 1, 6)
    chk.ob("plumbing/HyReader.fill_pos: child spans nest inside parent spans on a multi-line text", not bad, "structural",
           "bounded", detail=str(bad))


def line_endings(chk):
    """The line a raising form is reported on is its physical line whatever the file's line-ending convention: the same
    program with LF and with CRLF line ends yields the same traceback lines (the importer hands the decoded text to the
    reader without newline translation), and each of them lies inside the raising form's span."""
    import traceback
    import types
    import hy
    base = ('(setv a 1)\n'
            '(defn f [x]\n'
            '  (setv y\n'
            '    (/ x 0))\n'
            '  y)\n'
            '\n'
            '(defn g []\n'
            '  (lfor i [1]\n'
            '    :do (setv q i)\n'
            '    (f i)))\n'
            '(setv r\n'
            '  [1\n'
            '   (g)])\n')
    want = {"<module>": (11, 13), "g": (8, 10), "f": (3, 4)}
    seen = {}
    for name, nl in (("LF", "\n"), ("CRLF", "\r\n")):
        text = base.replace("\n", nl)
        mod = types.ModuleType("hv_c17_" + name)
        try:
            tree = hy.compiler.hy_compile(hy.read_many(text, filename="<c17>"), mod, filename="<c17>", source=text)
            exec(compile(tree, "<c17>", "exec"), mod.__dict__)
            seen[name] = "no exception"
        except ZeroDivisionError as e:
            seen[name] = {fr.name if not fr.name.startswith("_hy_anon") else "lifted": fr.lineno for fr in traceback.extract_tb(e.__traceback__) if fr.filename == "<c17>"}
        except Exception as e:  # noqa: BLE001
            seen[name] = f"{type(e).__name__}: {e}"
    for name in ("LF", "CRLF"):
        got = seen[name]
        ok = isinstance(got, dict) and all(k in got and lo <= got[k] <= hi for k, (lo, hi) in want.items())
        chk.ob(f"line-endings/{name} source: every traceback frame points into the raising form", ok, "cpython-oracle", "bounded",
               detail=f"frames {got}, spans {want}", replay={"confirmed": not ok, "input": f"the 13-line program of hv/props/c17.py::line_endings with {name} line ends", "observed": str(got), "expected": str(want)})


def run(chk):
    line_endings(chk)
    names = [n for n, e in catalog.ENTRIES.items() if catalog.supported(e)]
    chk.fn(*sorted({e.fn for e in catalog.ENTRIES.values() if e.fn}), "hy/compiler.py::Asty._get_pos/__getattr__/parse",
           "hy/models.py::Object.replace, Sequence.replace", "hy/reader/hy_reader.py::HyReader.fill_pos")
    chk.trust("CPython maps node positions to traceback line numbers", "parametricity of rules in their children")
    structural.run(chk, "span", span_check, names)
    plumbing(chk)
    # canary: a rule that compiles a freshly built, un-positioned model
    import hy.compiler as hc

    class Fresh(hm.Object):
        def __init__(self):
            self.start_line, self.end_line, self.start_column, self.end_column = FORM_LINE, FORM_LINE + 1, 1, 9
    hc._model_compilers[Fresh] = lambda comp, d: comp.compile(Expression([Symbol("u_f"), Integer(1)]))
    out = sx.run_rule(Fresh())
    chk.canary("stub rule compiling an un-positioned synthetic form (falls back to line 1)",
               any(getattr(n, "lineno", FORM_LINE) < FORM_LINE for n in structural.nodes_of(out.result)))
    del hc._model_compilers[Fresh]
    chk.sample({"entry": "with/2", "form_span": [FORM_LINE, FORM_LINE + 4], "child_lines": [FORM_LINE + 1, FORM_LINE + 2, FORM_LINE + 3]})


def replay(path):
    from hv.replay import replay_file
    return replay_file(path)
