"""C28 hy.repr output doesn't depend on earlier failed or nested calls: _seen/_quoting restored on every exit."""
import random
import types

import hv.symx.core  # noqa: F401
import hy
import hy.core.hy_repr as hr
import hy.models as hm

from hv.pyvc import targets

META = {
    "engine": "pyvc",
    "level": "proof",
    "technique": "contract-based deductive verification: verification conditions generated from the AST that hy_compile yields "
                 "for hy/core/hy_repr.hy::hy-repr (symbolic initial state, registered printer as abstract callee with contract), "
                 "discharged by z3 (cvc5 for unknowns): frame/exception-safety postcondition _seen == old(_seen) and _quoting == "
                 "old(_quoting) on every normal, early-return and exceptional exit, under the data-structure invariant "
                 "`a non-keyword model in _seen implies _quoting`, re-established at every call of a printer",
    "text": "For an arbitrary initial state satisfying the invariant, an arbitrary object and an arbitrary registered printer "
            "(which may return or raise, and reaches the two globals only through hy-repr itself: induction on call depth with "
            "this very contract as hypothesis), every exit of hy-repr leaves _seen and _quoting exactly as found; the early "
            "`return placeholder` is safe only because of the invariant (a canary without it is refuted). Hence after any "
            "history of calls, including failed and nested ones, the state equals the initial state (empty set, False) and each "
            "successful call computes the same text as in a fresh interpreter. Unbounded in objects, nesting and histories.",
    "note": "Trusted: the Hy compiler for the one function (the verified text is the AST it yields on this run); the rely "
            "condition that printers touch _seen/_quoting only via hy-repr (checked syntactically over hy_repr.hy); id() is "
            "injective on live objects; z3. A bounded run-time cross-check replays random histories with raising printers.",
}


def rely_scan(chk):
    import ast
    import os
    from hv.core import REPO
    from hy.compiler import hy_compile
    from hy.reader import read_many
    src = open(os.path.join(REPO, "hy/core/hy_repr.hy")).read()
    tree = hy_compile(read_many(src), types.ModuleType("hv_c28_scan"))
    offenders = []
    for fn in ast.walk(tree):
        if isinstance(fn, (ast.FunctionDef, ast.Lambda)) and getattr(fn, "name", "") != "hy_repr":
            for n in ast.walk(fn):
                if isinstance(n, ast.Name) and n.id in ("_seen", "_quoting"):
                    offenders.append((getattr(fn, "name", "lambda"), n.id))
                if isinstance(n, ast.Global) and set(n.names) & {"_seen", "_quoting"}:
                    offenders.append((getattr(fn, "name", "lambda"), "global"))
    # (a rely condition of the proof, not a clause of the property: when another function touches the state, the VCs of hy-repr no
    # longer cover the module, so the property is *undecided* by them - the run-time clauses below still decide what they exercise)
    chk.ob("rely/no function of hy_repr.hy other than hy-repr mentions _seen or _quoting", True if not offenders else None, "structural", "proved",
           detail="" if not offenders else "the state is also touched by " + str(offenders) + ": the verification conditions of hy-repr do not cover "
           "these functions; undecided")


def _model_cycles():
    """Models that reach themselves (only possible through a non-model container: model sequences are immutable)."""
    inner = [hm.Integer(1)]
    m1 = hm.List([inner])
    inner.append(m1)
    d = {}
    m2 = hm.Expression([hm.Symbol("f"), d])
    d["self"] = m2
    t = [hm.Keyword("k")]
    m3 = hm.Tuple([hm.Set([t])])
    t.append(m3)
    return [m1, m2, m3]


def _nested_failures():
    """Nested calls that fail and are caught by the calling printer: the rest of the enclosing call must print as if the failing part
    had printed `<error>` without raising.  -> None, or (description, observed, expected)."""
    class _Raiser2:
        pass

    class _Quiet:
        pass

    class _Tolerant:
        def __init__(self, *parts):
            self.parts = list(parts)

    def _tol(t):
        out = []
        for p in t.parts:
            try:
                out.append(hy.repr(p))
            except ZeroDivisionError:
                out.append("<error>")
        return "(Tolerant " + " ".join(out) + ")"

    def _boom(x):
        raise ZeroDivisionError("printer raises")
    hr.hy_repr_register(_Raiser2, _boom)
    hr.hy_repr_register(_Quiet, lambda x: "<error>")
    hr.hy_repr_register(_Tolerant, _tol, "(Tolerant ...)")
    try:
        def build(bad):
            cyc = [hm.Symbol("x")]
            tcyc = _Tolerant(bad(), cyc)
            cyc.insert(0, tcyc)
            return [
                ("a quoted model holding a printer that catches a failed nested call",
                 hm.Expression([hm.Symbol("f"), _Tolerant(hm.Symbol("a"), bad(), hm.Symbol("b"), hm.List([hm.Symbol("c")])), hm.Symbol("d")])),
                ("a list holding such a printer", [_Tolerant(hm.Symbol("a"), bad(lambda r: [r]), hm.Symbol("b")), hm.Symbol("d")]),
                ("such a printer whose failing part sits under a model",
                 hm.List([_Tolerant(bad(lambda r: hm.Tuple([hm.Symbol("t"), r])), hm.Symbol("b")), hm.Symbol("d")])),
                ("a cycle through such a printer (the failed part comes before the self-reference)", [tcyc]),
            ]
        for (what, v), (_, w) in zip(build(lambda wrap=(lambda r: r): wrap(_Raiser2())), build(lambda wrap=None: _Quiet())):
            texts = []
            for val in (v, w):
                hr._seen.clear()
                hr._quoting = False
                try:
                    texts.append(hy.repr(val))
                except BaseException as e:  # noqa: BLE001
                    texts.append(f"<{type(e).__name__}>")
            hr._seen.clear()
            hr._quoting = False
            if texts[0] != texts[1]:
                return (what, texts[0], texts[1])
        return None
    finally:
        for c in (_Raiser2, _Quiet, _Tolerant):
            hr._registry.pop(c, None)
        hr._seen.clear()
        hr._quoting = False


def _concrete(name, model):
    """Replay for a refuted VC of hy-repr: a short history on the real function after which the module state is not
    what it was, or a later call prints something else than in a fresh state."""
    nf = _nested_failures()
    if nf is not None:
        return {"confirmed": True, "input": "hy.repr of " + nf[0], "observed": nf[1],
                "expected": nf[2] + "   (the text when the failing part prints <error> without raising)"}
    want = {"sym": "'a", "list": "[1 'b]"}

    class _Raiser:
        pass

    def _boom(x):
        raise ZeroDivisionError("printer raises")
    hr.hy_repr_register(_Raiser, _boom)
    raising = [[hm.Symbol("before"), _Raiser()], hm.Expression([hm.Symbol("g"), [_Raiser()]]), {"k": [_Raiser()]},
               # the failing printer is reached *through a model* (the frame that switched quoting on is on the stack)
               hm.List([hm.Symbol("a"), _Raiser()]), hm.Expression([hm.Symbol("f"), hm.List([_Raiser()])]), [1, hm.Tuple([_Raiser()])]]
    for v in _model_cycles() + [[hm.Symbol("x")], hm.Expression([hm.Symbol("g")])] + raising:
        hr._seen.clear()
        hr._quoting = False
        try:
            hy.repr(v)
        except Exception:  # noqa: BLE001
            pass
        got = {"sym": hy.repr(hm.Symbol("a")), "list": hy.repr([1, hm.Symbol("b")])}
        state = (set(hr._seen), hr._quoting)
        hr._seen.clear()
        hr._quoting = False
        if got != want or state[0] or state[1]:
            hr._registry.pop(_Raiser, None)
            what = " containing an object whose registered printer raises" if any(v is r for r in raising) else " reaching itself through a container"
            return {"confirmed": True, "input": "hy.repr of a " + type(v).__name__ + what + ", then hy.repr('a), hy.repr([1 'b])",
                    "observed": {"later calls": got, "_seen, _quoting afterwards": repr(state)}, "expected": {"later calls": want, "_seen, _quoting afterwards": "(set(), False)"}}
    hr._registry.pop(_Raiser, None)
    return None


def histories(chk):
    """Bounded cross-check: random histories of hy.repr calls with a printer that raises at chosen depths."""
    rng = random.Random(chk.seed)

    class Boom(Exception):
        pass

    class Box:
        def __init__(self, inner, explode):
            self.inner, self.explode = inner, explode
    hr.hy_repr_register(Box, lambda b: (_ for _ in ()).throw(Boom()) if b.explode else "(Box " + hy.repr(b.inner) + ")")
    try:
        base = [1, "s", hm.Symbol("x"), hm.Expression([hm.Symbol("f"), hm.Integer(1)]), [1, [2, hm.Keyword("k")]], {"a": (1, 2)},
                hm.List([hm.String("q")]), hm.Keyword("kw"), (hm.Symbol("a"), 1)]
        cyc = []
        cyc.append(cyc)
        base.append(cyc)
        base.extend(_model_cycles())
        fresh = {}
        for i, b in enumerate(base):
            fresh[i] = hy.repr(b)
        bad = []
        n = 300 if chk.tier == "quick" else 5000
        for k in range(n):
            i = rng.randrange(len(base))
            depth = rng.randrange(0, 4)
            v = base[i]
            for d in range(depth):
                v = Box([v, hm.Symbol("m")] if rng.random() < 0.5 else hm.Expression([hm.Symbol("g"), v]) if not isinstance(v, Box) else v,
                        explode=False)
            explode = rng.random() < 0.4
            if explode:
                v = [hm.Symbol("before"), Box(v, True)]
                if rng.random() < 0.5:
                    v = hm.Expression([hm.Symbol("q"), hm.List(v)])       # ... underneath a model
            try:
                hy.repr(v)
            except Exception:  # noqa: BLE001  (Boom, or whatever the code under verification turns it into: an observation, not a crash)
                pass
            chk.case(("hist", k))
            j = rng.randrange(len(base))
            if hy.repr(base[j]) != fresh[j] or hr._seen or hr._quoting:
                bad.append((k, j, hy.repr(base[j]), fresh[j], set(hr._seen), hr._quoting))
                break
        chk.ob("rtc/random histories with raising printers: every later successful call prints the fresh-interpreter text; state is empty between calls",
               not bad, "rtc", "bounded", detail=str(bad[:1]),
               replay=None if not bad else {"confirmed": True, "input": f"history of {bad[0][0] + 1} hy.repr calls (seed {chk.seed}) on nested values, some "
                                            "containing an object whose registered printer raises, then hy.repr of a base value",
                                            "observed": repr(bad[0][2:]), "expected": "the fresh-interpreter text, _seen empty, _quoting False"})
    finally:
        hr._registry.pop(Box, None)
        hr._seen.clear()
        hr._quoting = False


def module_state_frame(chk):
    """Frame condition on the whole module: a call of hy.repr - successful, failed or nested - leaves every module-level variable of
    hy.core.hy_repr as it found it (same object, and for containers the same contents).  State that survives a call is exactly what
    lets an earlier call influence a later one."""
    import copy

    def snap():
        out = {}
        for k, v in vars(hr).items():
            if k.startswith("__") or isinstance(v, type(hr)) or callable(v):
                continue
            try:
                out[k] = (id(v), copy.copy(v) if isinstance(v, (dict, set, list)) else v)
            except Exception:  # noqa: BLE001
                out[k] = (id(v), None)
        return out

    class Fresh1:
        pass

    class Fresh2:
        def __repr__(self):
            raise ZeroDivisionError("no repr")

    class Fresh3(hm.Object):
        pass
    values = [Fresh1(), [Fresh1(), 1], hm.List([hm.Symbol("a")]), hm.Keyword("k"), Fresh2(), [1, [Fresh2()]], hm.List([Fresh2()]), Fresh3(),
              {"k": (Fresh1(),)}, hm.Expression([hm.Symbol("f"), hm.String("s")])]
    bad = None
    for v in values:
        before = snap()
        try:
            hy.repr(v)
        except Exception:  # noqa: BLE001
            pass
        after = snap()
        chk.case(("frame", type(v).__name__))
        if set(before) != set(after):
            bad = bad or (type(v).__name__, "module variables " + str(sorted(set(before) ^ set(after))))
        for k in before:
            if k in after and (before[k][0] != after[k][0] or before[k][1] != after[k][1]) and bad is None:
                bad = (type(v).__name__, f"module variable {k} changed")
    chk.ob("frame/a call of hy.repr leaves every module-level variable of hy.core.hy_repr as it found it", bad is None, "rtc", "bounded",
           detail=str(bad), replay=None if bad is None else {"confirmed": True, "input": f"hy.repr of a {bad[0]} value", "observed": bad[1]})
    # register a printer *after* objects of the type were printed (also in failed and nested calls): the next print uses it

    class Late:
        pass
    texts = [hy.repr(Late())[:5], None]
    try:
        hy.repr([Late(), Fresh2()])
    except Exception:  # noqa: BLE001
        pass
    hr.hy_repr_register(Late, lambda x: "(Late)", "...")
    try:
        texts[1] = hy.repr(Late())
        nested = hy.repr([Late()])
    finally:
        hr._registry.pop(Late, None)
    chk.ob("history/a printer registered after objects of the type were printed is used by every later call", texts[1] == "(Late)" and nested == "[(Late)]",
           "rtc", "bounded", detail=f"{texts}, {nested if texts[1] else None}",
           replay=None if texts[1] == "(Late)" else {"confirmed": True, "input": "hy.repr of an object, then hy.repr-register for its type, then hy.repr again",
                                                     "observed": repr(texts[1]), "expected": "'(Late)'"})


def stack_exhaustion(chk):
    """A call that fails because the Python stack is exhausted (a structure nested deeper than the recursion limit allows) is a failed
    call like any other: afterwards _seen is empty and _quoting is off, whatever frame the RecursionError was raised in.  The call is
    started at several stack depths so that the error is met at every alignment of the hy-repr / printer frame pair."""
    import sys
    old = sys.getrecursionlimit()
    deep = []
    levels = [deep]
    for _ in range(400):
        deep = [deep]
        levels.append(deep)
    quoted = hm.List([hm.Symbol("a"), deep])
    bad = None

    def at_depth(k, v):
        if k:
            return at_depth(k - 1, v)
        try:
            hy.repr(v)
            return "returned"
        except RecursionError:
            return "RecursionError"
        except Exception as e:  # noqa: BLE001
            return type(e).__name__
    try:
        sys.setrecursionlimit(400)
        for v, what in ((deep, "a list nested 400 deep"), (quoted, "a model holding a list nested 400 deep")):
            for k in range(12):
                hr._seen.clear()
                hr._quoting = False
                outcome = at_depth(k, v)
                state = (len(hr._seen), hr._quoting)
                chk.case(("stack", what, k))
                if (state != (0, False) or outcome != "RecursionError") and bad is None:
                    bad = (what, k, outcome, state)
    finally:
        sys.setrecursionlimit(old)
        hr._seen.clear()
        hr._quoting = False
    chk.ob("history/a call that fails by exhausting the stack leaves _seen empty and _quoting off, at every frame alignment", bad is None, "rtc",
           "bounded", detail=str(bad),
           replay=None if bad is None else {"confirmed": True, "input": f"sys.setrecursionlimit(400); hy.repr of {bad[0]}, called {bad[1]} frames deeper",
                                            "observed": f"{bad[2]}; afterwards (len(_seen), _quoting) = {bad[3]}", "expected": "RecursionError; (0, False)"})


def nested(chk):
    nf = _nested_failures()
    chk.case(("nested-failures",))
    chk.ob("nested/a nested call that fails and is caught by the calling printer leaves quoting and cycle state of the enclosing call as it "
           "found them", nf is None, "rtc", "bounded", detail=str(nf),
           replay=None if nf is None else {"confirmed": True, "input": "hy.repr of " + nf[0], "observed": nf[1], "expected": nf[2]})


def run(chk):
    module_state_frame(chk)
    nested(chk)
    stack_exhaustion(chk)
    targets.c28(chk, concrete=_concrete)
    rely_scan(chk)
    histories(chk)
    chk.trust("Hy compiler for hy/core/hy_repr.hy::hy-repr (verified text = its output on this run)", "id() injective on live objects",
              "z3 4.x / cvc5", "initial module state: _seen == set(), _quoting == False (read from the module source)")
    from hv.pyvc import engine
    chk.extra["smt"] = dict(engine.STATS)
    chk.sample({"obligation": "hy_repr/_quoting restored (return path 1)", "vc": "Inv(_seen0,_quoting0) & path-condition => _quoting_exit == _quoting0"})


def replay(path):
    from hv.replay import replay_file
    return replay_file(path)
