"""C09 try/except/else/finally and with at every raise point."""
from hv import equiv, rules
from hv.symx.core import E, S, Keyword, List, run_rule, tokens, show

META = {
    "engine": "symx+pysem",
    "level": "proof",
    "technique": "contract-based: symbolic execution of the real compile_try_expression / compile_with_expression / "
                 "compile_raise_expression on opaque sub-forms; postcondition pysem(emitted) == reference try/with semantics "
                 "with a raise decision at every atom, enter, exit and suppression, decided by exhaustive enumeration",
    "text": "Each rule is run on every shape vector of opaque bodies, handler types, handler bodies, else, finally and "
            "manager expressions; the emitted Try/With code is proved trace-equivalent to Python's documented try/with "
            "semantics for all values and for an exception injected at every effect point, singly and in every combination "
            "(all decision vectors). Clause-count bounded: <=2 handlers, <=3 managers, nesting depth 2.",
    "note": "Trusted: pysem's Try/With/Raise model (validated against CPython on every path that can be scripted), hysem "
            "try/with as the reading of Python's semantics, parametricity. TryStar (except*) is interpreted like Try; "
            "AsyncWith like With. Exception-type expressions are restricted to pure expressions in the proved family "
            "(statement-producing type expressions are reported separately).",
}

B = ("E", "SE", "S")
X = lambda *spec: lambda *body: E(S("except"), List(spec), *body)


def cases():
    C = rules.Case
    f = "hy/core/result_macros.py::compile_try_expression"
    T = ("E",)   # exception-type expressions: pure
    C("try/body-only", lambda b: E(S("try"), b), 1, B, fn=f)
    C("try/finally", lambda b, fi: E(S("try"), b, E(S("finally"), fi)), 2, B, fn=f)
    C("try/except-all", lambda b, h: E(S("try"), b, X()(h)), 2, B, fn=f)
    C("try/except-T", lambda b, t, h: E(S("try"), b, X(t)(h)), 3, [B, T, B], fn=f)
    C("try/except-eT-uses-e", lambda b, t, h: E(S("try"), b, X(S("e"), t)(h, S("e"))), 3, [B, T, B], fn=f)
    C("try/except-eT", lambda b, t, h: E(S("try"), b, X(S("e"), t)(h)), 3, [B, T, B], fn=f)
    C("try/except-empty-handler", lambda b, t: E(S("try"), b, X(t)()), 2, [B, T], fn=f)
    C("try/except-else", lambda b, t, h, o: E(S("try"), b, X(t)(h), E(S("else"), o)), 4, [B, T, B, B], fn=f)
    C("try/except-else-finally", lambda b, t, h, o, fi: E(S("try"), b, X(t)(h), E(S("else"), o), E(S("finally"), fi)),
      5, [B, T, B, B, B], fn=f)
    C("try/except-finally", lambda b, t, h, fi: E(S("try"), b, X(t)(h), E(S("finally"), fi)), 4, [B, T, B, B], fn=f)
    C("try/else-only", lambda b, o: E(S("try"), b, E(S("else"), o)), 2, B, fn=f)
    C("try/else-finally", lambda b, o, fi: E(S("try"), b, E(S("else"), o), E(S("finally"), fi)), 3, B, fn=f)
    C("try/two-handlers", lambda b, t1, h1, t2, h2: E(S("try"), b, X(t1)(h1), X(S("e"), t2)(h2)), 5,
      [B, T, B, T, B], kind="arity_bounded", fn=f)
    C("try/two-handlers-finally", lambda b, t1, h1, h2, fi: E(S("try"), b, X(t1)(h1), X()(h2), E(S("finally"), fi)), 5,
      [B, T, B, B, B], kind="arity_bounded", fn=f)
    C("try/type-list", lambda b, t1, t2, h: E(S("try"), b, X(List([t1, t2]))(h)), 4, [B, T, T, B], fn=f)
    C("try/multi-form-bodies", lambda b1, b2, t, h1, h2, f1, f2: E(S("try"), b1, b2, X(t)(h1, h2), E(S("finally"), f1, f2)),
      7, [("E", "SE"), B, T, ("E", "SE"), B, ("SE",), B], kind="arity_bounded", fn=f)
    C("try/empty-body", lambda t, h: E(S("try"), X(t)(h)), 2, [T, B], fn=f)
    # the except variable never clobbers a same-named outer variable
    C("try/except-var-scope", lambda b, t, h: E(S("do"), E(S("try"), b, X(S("e"), t)(h)), S("e")), 3, [B, T, B], fn=f)
    C("try/except-var-setv-inside", lambda b, t, v: E(S("do"), E(S("try"), b, X(S("e"), t)(E(S("setv"), S("e"), v), S("e"))), S("e")),
      3, [B, T, ("E", "SE")], fn=f)
    # an except variable is visible in its own handler only: sibling handlers, else, finally and the code after the
    # try see the outer variable of the same name
    C("try/except-var-then-sibling-reads-outer", lambda b, t1, h1, t2, h2: E(S("try"), b, X(S("e"), t1)(h1, S("e")), X(t2)(h2, S("e"))),
      5, [B, T, ("E", "SE"), T, ("E", "SE")], kind="arity_bounded", fn=f)
    C("try/except-var-then-sibling-sets-outer", lambda b, t1, h1, t2, v: E(S("do"), E(S("try"), b, X(S("e"), t1)(h1), X(t2)(E(S("setv"), S("e"), v))), S("e")),
      5, [B, T, ("E", "SE"), T, ("E", "SE")], kind="arity_bounded", fn=f)
    C("try/except-var-else-finally-read-outer", lambda b, t, h, o, fi: E(S("try"), b, X(S("e"), t)(h), E(S("else"), o, S("e")), E(S("finally"), S("e"), fi)),
      5, [B, T, ("E", "SE"), ("E", "SE"), ("E", "SE")], fn=f)
    C("try/two-named-handlers", lambda b, t1, t2: E(S("try"), b, X(S("e"), t1)(S("e")), X(S("e"), t2)(S("e"))), 3, [B, T, T],
      kind="arity_bounded", fn=f)
    C("try/body-reads-outer-e", lambda b, t, h: E(S("try"), b, S("e"), X(S("e"), t)(h)), 3, [("E", "SE"), T, B], fn=f)
    C("try/except-var-in-nested-fn", lambda b, t: E(S("try"), b, X(S("e"), t)(E(E(S("fn"), List([]), S("e"))))), 2, [B, T], fn=f)
    # nesting depth 2
    C("nest/try-in-try-body", lambda b, t, h, fi: E(S("try"), E(S("try"), b, X(t)(h)), E(S("finally"), fi)), 4, [B, T, B, B])
    C("nest/try-in-handler", lambda b, t, h, fi: E(S("try"), b, X(t)(E(S("try"), h, E(S("finally"), fi)))), 4, [B, T, B, B])
    C("nest/try-in-finally", lambda b, g, fi: E(S("try"), b, E(S("finally"), E(S("try"), g, E(S("finally"), fi)))), 3, B)
    C("nest/with-in-try", lambda m, b, t, h: E(S("try"), E(S("with"), List([S("a"), m]), b), X(t)(h)), 4, [B, B, T, B])
    C("nest/try-in-with", lambda m, b, fi: E(S("with"), List([S("a"), m]), E(S("try"), b, E(S("finally"), fi))), 3, B)
    C("nest/raise-in-try", lambda x, t, h, fi: E(S("try"), E(S("raise"), x), X(S("e"), t)(h), E(S("finally"), fi)), 4, [B, T, B, B])
    C("nest/reraise-in-handler", lambda b, t, fi: E(S("try"), b, X(t)(E(S("raise"))), E(S("finally"), fi)), 3, [B, T, B])
    # statement-producing exception type expressions (hoisted before the try by the rule)
    C("try/except-T-with-statements", lambda b, t, h: E(S("try"), b, X(t)(h)), 3, [("E",), ("SE",), ("E",)], fn=f)

    w = "hy/core/result_macros.py::compile_with_expression"
    C("with/1-anon", lambda m, b: E(S("with"), List([m]), b), 2, B, fn=w)
    C("with/1", lambda m, b: E(S("with"), List([S("a"), m]), b), 2, B, fn=w)
    C("with/1-underscore", lambda m, b: E(S("with"), List([S("_"), m]), b), 2, B, fn=w)
    C("with/1-two-body-forms", lambda m, b1, b2: E(S("with"), List([S("a"), m]), b1, b2), 3, B, fn=w)
    C("with/1-empty-body", lambda m: E(S("with"), List([S("a"), m])), 1, B, fn=w)
    C("with/2", lambda m1, m2, b: E(S("with"), List([S("a"), m1, S("c"), m2]), b), 3, B, kind="arity_bounded", fn=w)
    C("with/3", lambda m1, m2, m3, b: E(S("with"), List([S("a"), m1, S("_"), m2, S("c"), m3]), b), 4, B,
      kind="arity_bounded", fn=w)
    C("with/async-1", lambda m, b: E(S("with"), List([Keyword("async"), S("a"), m]), b), 2, B, fn=w)
    C("with/mixed-sync-async", lambda m1, m2, b: E(S("with"), List([S("a"), m1, Keyword("async"), S("c"), m2]), b), 3, B,
      kind="arity_bounded", fn=w)
    C("with/mixed-async-sync-sync", lambda m1, m2, m3, b: E(S("with"), List([Keyword("async"), S("a"), m1, S("c"), m2, S("d"), m3]), b),
      4, [B, B, ("E", "SE"), ("E", "SE")], kind="arity_bounded", fn=w)
    C("nest/with-in-with-body", lambda m1, m2, b: E(S("with"), List([S("a"), m1]), E(S("with"), List([S("c"), m2]), b)), 3, B)

    # children that leave their value in a result temporary (a rule may look at Result.temp_variables of a child)
    ET = ("E", "T")
    C("try/temp-result-children", lambda b, t, h, o, fi: E(S("try"), b, X(t)(h), E(S("else"), o), E(S("finally"), fi)), 5,
      [ET, ("E",), ET, ET, ET], fn=f)
    C("try/temp-result-body-finally", lambda b, fi: E(S("try"), b, E(S("finally"), fi)), 2, [ET, ET], fn=f)
    C("with/temp-result-children", lambda m, b: E(S("with"), List([S("a"), m]), b), 2, [ET, ET], fn=w)
    C("with/2-temp-result-children", lambda m1, m2, b: E(S("with"), List([S("a"), m1, S("c"), m2]), b), 3, [ET, ET, ET], kind="arity_bounded", fn=w)

    r = "hy/core/result_macros.py::compile_raise_expression"
    C("raise/bare", lambda: E(S("raise")), 0, B, fn=r)
    C("raise/x", lambda x: E(S("raise"), x), 1, B, fn=r)
    C("raise/x-from-y", lambda x, y: E(S("raise"), x, Keyword("from"), y), 2, B, fn=r)
    return list(rules.CASES)


def run(chk):
    names = cases()
    chk.fn("hy/core/result_macros.py::compile_try_expression", "hy/core/result_macros.py::compile_with_expression",
           "hy/core/result_macros.py::compile_raise_expression", "hy/compiler.py::HyASTCompiler._compile_branch",
           "hy/compiler.py::Result.__add__/expr_as_stmt/force_expr", "hy/scoping.py::ScopeLet.add/access/assign")
    chk.bounds.update({"handlers": "<=2", "managers": "<=3", "nesting": "depth 2",
                       "raise points": "every atom, __enter__, __exit__, suppression; all combinations"})
    chk.trust("pysem: Try/With/Raise semantics of CPython (validated natively where scriptable)",
              "hysem: try/with reference semantics written from the Python language reference and docs/api.rst",
              "parametricity of the rules in their sub-forms",
              "except* (TryStar) interpreted as Try; AsyncWith as With; await points not modelled")
    from hv.replay import replay_mismatch
    rules.run_cases(chk, names, replay_fn=replay_mismatch)

    # canaries
    toks = tokens(("E", "E"))
    out = run_rule(E(S("with"), List([S("a"), toks[0]]), toks[1]))
    _, bad = equiv.compare(out.result, E(S("do"), toks[0], toks[1]))
    chk.canary("with emitted vs `do` reference (no enter/exit)", bool(bad))
    toks = tokens(("E", "E"))
    out = run_rule(E(S("try"), toks[0], E(S("finally"), toks[1])))
    _, bad = equiv.compare(out.result, E(S("do"), toks[0], toks[1]))
    chk.canary("try/finally emitted vs `do` reference (finally skipped on raise)", bool(bad))
    # pysem validation against CPython on a sample of emissions
    from hv import concrete
    nval = nbad = 0
    for sv in (("E", "SE"), ("SE", "S"), ("S", "E")):
        t = tokens(sv)
        for form in (E(S("with"), List([S("a"), t[0]]), t[1]), E(S("try"), t[0], E(S("finally"), t[1]))):
            o = run_rule(form)
            if o.ok:
                k, b = concrete.validate_pysem(o.result)
                nval += k
                nbad += len(b)
    chk.extra["pysem_paths_validated_against_cpython"] = nval
    chk.ob("engine/pysem agrees with CPython on scripted with/try paths", nbad == 0 and nval > 0, "cpython-oracle", "bounded",
           detail=f"{nval} paths, {nbad} disagreements")
    t = tokens(("E", "SE", "E"))
    chk.sample({"rule": "with/2", "shapes": ["E", "SE", "E"],
                "emitted": show(run_rule(E(S("with"), List([S("a"), t[0], S("c"), t[1]]), t[2])).result)})


def replay(path):
    from hv.replay import replay_file
    return replay_file(path)
