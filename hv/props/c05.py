"""C05 fn/defn bind arguments exactly like the equivalent Python def."""
from hv import core  # noqa: E402
import ast
import itertools
import multiprocessing as mp

import hy
from hy.errors import HySyntaxError
from hy.models import Expression, Integer, Keyword, List, String, Symbol

from hv.symx import core as sx
from hv.symx.core import AbsExpr, AbsStmt, E, S, Tok

META = {
    "engine": "symx",
    "level": "proof",
    "technique": "contract-based: postcondition of compile_lambda_list/compile_arguments_set and of _compile_collect/"
                 "compile_expression: the emitted ast.arguments / ast.Call node equals, field by field, the node CPython's own "
                 "parser builds for the documented equivalent def / call text (independent spec renderer); real rules run on "
                 "opaque defaults, annotations and argument forms",
    "text": "Every lambda-list shape with up to 4 (quick) / 6 (thorough) parameters over {positional-only, plain, default, #* "
            "args, bare *, keyword-only with and without default, #** kwargs} and every call shape with up to 4 / 6 arguments "
            "over {positional, keyword, #*, #**} in every order is compiled by the real rules; the result is structurally "
            "identical to CPython's parse of the equivalent Python text (so Python itself binds identically and raises "
            "TypeError in the same cases), and invalid orders are Hy syntax errors. Implicit return, the async-generator "
            "exception and the docstring rule are checked on the emitted FunctionDef. Parameter counts are the property's own "
            "bound; within it the enumeration is complete and parametric in all default/argument values.",
    "note": "Trusted: CPython's parser as oracle for the reference node and CPython's binding semantics for identical nodes; "
            "the spec renderer (Hy lambda list -> Python signature text) is the reading of docs/api.rst `fn`/`defn`.",
}


# ---- lambda lists -----------------------------------------------------------------------------
def lambda_lists(maxn):
    """(hy_models_builder, python_text or None if invalid, description)"""
    out = []
    PD = "PD"
    for npos in range(0, maxn + 1):
        for pos in itertools.product(PD, repeat=npos):
            for slash in ((False, True) if npos else (False, "empty")):
                if not slash and npos:
                    continue        # without "/" these are ordinary args: covered by npos == 0
                for nargs in range(0, maxn + 1 - npos):
                    for args in itertools.product(PD, repeat=nargs):
                        for star in ("none", "bare", "rest"):
                            for nkw in range(0, (maxn + 1 - npos - nargs - (star == "rest")) if star != "none" else 1):
                                for kw in itertools.product(PD, repeat=nkw):
                                    for kwargs in (False, True):
                                        n = npos + nargs + nkw + (star == "rest") + kwargs
                                        if n > maxn or (slash == "empty" and n > 2):
                                            continue
                                        out.append((pos, slash, args, star, kw, kwargs))
    return out


def build(ll):
    pos, slash, args, star, kw, kwargs = ll
    toks, items, py = [], [], []
    names = iter("abcdefghijklmnop")
    nd = itertools.count()

    def param(kind):
        n = "u" + next(names)
        if kind == "P":
            return S(n), n
        i = next(nd)
        t = Tok(f"d{i}", "E")
        toks.append(t)
        return List([S(n), t]), f"{n}=D{i}"
    for k in pos:
        m, p = param(k)
        items.append(m)
        py.append(p)
    if slash:
        items.append(S("/"))
        py.append("/")
    for k in args:
        m, p = param(k)
        items.append(m)
        py.append(p)
    if star == "bare":
        items.append(S("*"))
        py.append("*")
    elif star == "rest":
        n = "u" + next(names)
        items.append(E(S("unpack-iterable"), S(n)))
        py.append("*" + n)
    for k in kw:
        m, p = param(k)
        items.append(m)
        py.append(p)
    if kwargs:
        n = "u" + next(names)
        items.append(E(S("unpack-mapping"), S(n)))
        py.append("**" + n)
    seq = list(pos) + list(args)
    valid = True
    if slash == "empty":
        valid = False
    if "D" in seq and "P" in seq[seq.index("D"):]:
        valid = False
    if star == "bare" and not kw:
        valid = False
    return List(items), ", ".join(py), toks, valid


class Norm(ast.NodeTransformer):
    """AbsExpr(tok dI) -> Name(DI); positions dropped by ast.dump(include_attributes=False)."""

    def visit_AbsExpr(self, n):
        return ast.Name(id=n.tok.name.replace("d", "D").replace("a", "A"), ctx=ast.Load())


def dump(node):
    import copy
    return ast.dump(Norm().visit(copy.deepcopy(node)))


def check_ll(ll):
    model, py, toks, valid = build(ll)
    body = Tok("body", "E")
    out = sx.run_rule(E(S("fn"), model, body))
    desc = py or "<empty>"
    if not valid:
        ok = (not out.ok) and isinstance(out.exc, HySyntaxError)
        return desc, ok, "invalid order must be a Hy syntax error; got " + (repr(out.exc)[:120] if not out.ok else "an emission")
    if not out.ok:
        return desc, False, f"valid lambda list rejected: {out.exc!r}"[:300]
    r = out.result
    node = r._expr if isinstance(r._expr, ast.Lambda) else next((s for s in r.stmts if isinstance(s, ast.FunctionDef)), None)
    if node is None:
        return desc, False, "no Lambda/FunctionDef emitted"
    want = ast.parse(f"def f({py}): pass").body[0].args
    g, w = dump(node.args), ast.dump(want)
    return desc, g == w, None if g == w else f"emitted {g}\n  CPython {w}"


# ---- calls ------------------------------------------------------------------------------------
def call_shapes(maxn):
    for n in range(0, maxn + 1):
        yield from itertools.product(("pos", "kw", "star", "dstar"), repeat=n)


def check_call(shape):
    f = Tok("a9", "E")
    args, pos_py, kw_py = [], [], []
    for i, k in enumerate(shape):
        t = Tok(f"a{i}", "E")
        if k == "pos":
            args.append(t)
            pos_py.append(f"A{i}")
        elif k == "kw":
            args += [Keyword(f"key-{i}"), t]
            kw_py.append(f"key_{i}=A{i}")
        elif k == "star":
            args.append(E(S("unpack-iterable"), t))
            pos_py.append(f"*A{i}")
        else:
            args.append(E(S("unpack-mapping"), t))
            kw_py.append(f"**A{i}")
    out = sx.run_rule(E(f, *args))
    desc = ",".join(shape) or "<none>"
    if not out.ok:
        return desc, False, repr(out.exc)[:200]
    call = out.result._expr
    want = ast.parse("A9(" + ", ".join(pos_py + kw_py) + ")", mode="eval").body
    g, w = dump(call), ast.dump(want)
    return desc, g == w and not out.result.stmts, None if g == w else f"emitted {g}\n  CPython {w}"


def _w(task):
    kind, x = task
    return (kind,) + (check_ll(x) if kind == "ll" else check_call(x))


def parameters_under_let(chk):
    """Binding `exactly like the equivalent Python def` includes that a parameter is a local of the function whatever the
    surroundings: a function defined inside a `let` that binds the same names still sees its arguments.  One program per
    parameter kind and one with all kinds, run by CPython against the equivalent nested def."""
    import types
    import hy
    progs = {
        "positional-only": ("(let [a \"L\"] (defn f [a /] a))", "(f 1)", 1),
        "ordinary": ("(let [a \"L\"] (defn f [a] a))", "(f 1)", 1),
        "with default": ("(let [a \"L\"] (defn f [[a 5]] a))", "(f)", 5),
        "star": ("(let [a \"L\"] (defn f [#* a] a))", "(f 1 2)", (1, 2)),
        "keyword-only": ("(let [a \"L\"] (defn f [* a] a))", "(f :a 1)", 1),
        "double-star": ("(let [a \"L\"] (defn f [#** a] a))", "(f :k 1)", {"k": 1}),
        "all kinds": ("(let [a \"La\" b \"Lb\" c \"Lc\" xs \"Lx\" k \"Lk\" kw \"Lw\"] (defn f [a [b 2] / [c 3] #* xs [k 4] #** kw] #(a b c xs k kw)))",
                      "(f 1 :k 9 :z 0)", (1, 2, 3, (), 9, {"z": 0})),
        "anonymous, two levels below the let": ("(let [a \"L\"] (defn g [] (fn [a / b] #(a b))) (setv f (g)))", "(f 1 2)", (1, 2)),
    }
    for kind, (definition, call, want) in progs.items():
        mod = types.ModuleType("hv_c05_let")
        try:
            hy.eval(hy.read_many(definition), module=mod, locals=mod.__dict__)
            got = hy.eval(hy.read(call), module=mod, locals=mod.__dict__)
        except Exception as e:  # noqa: BLE001
            got = f"{type(e).__name__}: {e}"
        chk.case(("let", kind))
        chk.ob(f"under-let/{kind} parameter shadows a let binding of the same name", got == want, "cpython-oracle", "proved",
               detail=f"{definition} {call} -> {got!r}, the equivalent def gives {want!r}",
               replay={"confirmed": got != want, "input": definition + " " + call, "observed": repr(got), "expected": repr(want)})


def literal_unpack_operands(chk):
    """Call side: the operand of #* / #** is an ordinary value form.  When it is written as a literal, its elements are
    elements - a keyword inside `#* [...]` is a Keyword object passed positionally, not the name of a keyword argument.  The callee
    records what it was given; the expectation is built from the elements, independently of the compiler."""
    import types
    import hy
    from hy.models import Keyword as K
    spy = "(defn f [#* a #** k] #(a (dict (sorted (.items k)))))"
    cases = [
        ("#* list literal holding a keyword and a value", "(f #* [:b 7])", ((K("b"), 7), {})),
        ("#* list literal ending in a keyword", "(f #* [1 2 :z])", ((1, 2, K("z")), {})),
        ("#* list literal of two keywords", "(f #* [:x :y])", ((K("x"), K("y")), {})),
        ("#* tuple literal holding a keyword", "(f #* #(:b 7))", ((K("b"), 7), {})),
        ("#* list literal between positional and keyword arguments", "(f 0 #* [:b 7] :c 1)", ((0, K("b"), 7), {"c": 1})),
        ("#* list literal after a keyword argument", "(f :c 1 #* [:b 7])", ((K("b"), 7), {"c": 1})),
        ("#* list literal nested in a #* list literal", "(f #* [0 #* [:b 7]])", ((0, K("b"), 7), {})),
        ("#* list literal of plain values", "(f #* [1 2] 3)", ((1, 2, 3), {})),
        ("#* list literal holding an unpack-mapping-looking list", "(f #* [[:b 7]])", (([K("b"), 7],), {})),
        ("two #* list literals", "(f #* [:a] #* [:b 1])", ((K("a"), K("b"), 1), {})),
        ("#** dict literal", "(f #** {\"b\" 7})", ((), {"b": 7})),
        ("#** dict literal after #* list literal", "(f #* [:b] #** {\"b\" 7})", ((K("b"),), {"b": 7})),
        ("#* empty list literal", "(f #* [] :c 1)", ((), {"c": 1})),
        ("#* set-free generator of keywords", "(f #* (lfor x [:p :q] x))", ((K("p"), K("q")), {})),
    ]
    for what, call, want in cases:
        try:
            got = hy.eval(hy.read_many(spy + " " + call), module=types.ModuleType("hv_c05u"))
        except Exception as e:  # noqa: BLE001
            got = f"{type(e).__name__}: {e}"[:200]
        chk.case(("literal-unpack", what))
        chk.ob(f"call/unpacking a literal/{what}", got == want, "cpython-oracle", "proved", detail=f"{call} -> {got!r}, the elements are {want!r}",
               replay=None if got == want else {"confirmed": True, "input": spy + " " + call, "observed": repr(got), "expected": repr(want)})


def keyword_argument_names(chk):
    """Call side: the name of a keyword argument is the Python identifier of the parameter it is spelled like - hyphens, punctuation,
    and NFKC normalisation (which CPython applies to every identifier, so a parameter written with a compatibility character is
    the normalised name).  Compared with the equivalent Python def called by keyword; the expected argument name is computed with
    unicodedata, independently of hy.mangle."""
    import types
    import unicodedata
    import hy
    names = ["\u00b5", "\u2115", "\ufb01x", "\uff55full", "a-b", "caf\u00e9", "\u2160v", "\u017f", "plain", "\u212b"]
    for nm in names:
        ident = nm.replace("-", "_")
        assert ident.isidentifier(), nm       # (other names get hy.mangle's hyx_ escapes: property C32/C34)
        want_arg = unicodedata.normalize("NFKC", ident)
        out = sx.run_rule(E(Tok("a9", "E"), Keyword(nm), Tok("a0", "E")))
        got_arg = out.result._expr.keywords[0].arg if out.ok and getattr(out.result._expr, "keywords", None) else repr(getattr(out, "exc", None))
        progs = [f"(defn f [a / {nm} * [scale 1] #** kw] #(a {nm} scale kw)) (f 1 :{nm} 2)",
                 f"(defn f [* {nm}] {nm}) (f :{nm} 3)",
                 f"(defn f [[{nm} 0] #** kw] #({nm} kw)) (f #** {{\"scale\" 5}} :{nm} 2)"]
        wants = [(1, 2, 1, {}), 3, (2, {"scale": 5})]
        bad = None
        for src, want in zip(progs, wants):
            try:
                got = hy.eval(hy.read_many(src), module=types.ModuleType("hv_c05k"))
            except Exception as e:  # noqa: BLE001
                got = f"{type(e).__name__}: {e}"[:160]
            if got != want and bad is None:
                bad = (src, got, want)
        chk.case(("kwname", nm))
        ok = got_arg == want_arg and bad is None
        chk.ob(f"call/keyword argument name {ascii(nm)}: the NFKC-normal Python identifier of the parameter", ok, "cpython-oracle", "proved",
               detail=f"emitted keyword name {got_arg!r}, expected {want_arg!r}; {bad}",
               replay=None if ok else {"confirmed": True, "input": bad[0] if bad else f"(f :{nm} v)", "observed": repr(bad[1]) if bad else got_arg,
                                       "expected": repr(bad[2]) if bad else want_arg})


def run(chk):
    parameters_under_let(chk)
    keyword_argument_names(chk)
    literal_unpack_operands(chk)
    quick = chk.tier == "quick"
    maxn = 4 if quick else 6
    lls = lambda_lists(maxn)
    calls = list(call_shapes(4 if quick else 6))
    tasks = [("ll", x) for x in lls] + [("call", x) for x in calls]
    import gc; gc.collect(); gc.freeze()  # forked workers then touch (copy) far fewer pages
    with mp.get_context("fork").Pool(chk.jobs) as pool:
        res = core.pmap(pool, _w, tasks, chunksize=64)
    seen = set()
    for kind, desc, ok, detail in res:
        name = f"{'lambda-list' if kind == 'll' else 'call'}/{desc}"
        if name in seen:
            continue
        seen.add(name)
        chk.case(name)
        chk.ob(name, ok, "cpython-oracle", "arity_bounded", detail=detail)
    chk.bounds.update({"parameters": f"<={maxn}", "call arguments": f"<={4 if quick else 6}"})

    # annotations and defaults with statements keep their order and place
    t1, t2, d, b = Tok("A1", "E"), Tok("A2", "SE"), Tok("d0", "SE"), Tok("body", "E")
    out = sx.run_rule(E(S("defn"), E(S("annotate"), S("uf"), t1), List([E(S("annotate"), S("ua"), t2), List([S("ub"), d])]), b))
    fd = next(s for s in out.result.stmts if isinstance(s, ast.FunctionDef))
    want = ast.parse("def uf(ua: A2, ub=D0) -> A1: return BODY").body[0]
    g = dump(fd.args) + dump(fd.returns)
    w = ast.dump(want.args) + ast.dump(want.returns)
    pre = [repr(s) for s in out.result.stmts if isinstance(s, AbsStmt)]
    chk.ob("annotations/defn with annotated parameter, default and return annotation equals CPython's parse; their statements precede the def",
           g == w and pre == ["S[A2]", "S[d0]"], "cpython-oracle", "proved", detail=f"{g}\n{w}\n{pre}")

    # truth-blindness: a default that is a falsy literal model (0, "", [] ...) is a default like any other - for every parameter kind
    from hy.models import Bytes, Dict as HDict, Float, Tuple as HTuple
    falsy = {"0": lambda: Integer(0), "0.0": lambda: Float(0.0), '""': lambda: String(""), 'b""': lambda: Bytes(b""), "[]": lambda: List([]),
             "{}": lambda: HDict([]), "()": lambda: HTuple([]), "False": lambda: S("False"), "None": lambda: S("None")}
    shapes_ll = {
        "positional-only": (lambda d: List([List([S("ua"), d]), S("/")]), "ua={}, /"),
        "plain": (lambda d: List([List([S("ua"), d])]), "ua={}"),
        "after a required one": (lambda d: List([S("ub"), List([S("ua"), d])]), "ub, ua={}"),
        "keyword-only after bare *": (lambda d: List([S("*"), List([S("uk"), d])]), "*, uk={}"),
        "keyword-only after #* rest": (lambda d: List([E(S("unpack-iterable"), S("ur")), List([S("uk"), d])]), "*ur, uk={}"),
        "keyword-only next to a required one": (lambda d: List([S("*"), S("uq"), List([S("uk"), d]), S("uz")]), "*, uq, uk={}, uz"),
        "annotated keyword-only": (lambda d: List([S("*"), E(S("annotate"), List([S("uk"), d]), S("int"))]), "*, uk: int={}"),
    }
    # a default that needs statements: for every parameter kind they are hoisted in front of the definition (evaluated when the
    # definition executes, like the Python default), and the default itself is the value that follows them
    for sname, (mk, pytext) in shapes_ll.items():
        for head in ("defn", "fn"):
            d = Tok("d0", "SE")
            form = E(S("defn"), S("uf"), mk(d), Tok("body", "E")) if head == "defn" else E(S("fn"), mk(d), Tok("body", "SE"))
            out = sx.run_rule(form)
            ok, det = False, None
            if out.ok:
                fds = [i for i, s_ in enumerate(out.result.stmts) if isinstance(s_, ast.FunctionDef)]
                pre = [repr(s_) for s_ in out.result.stmts[:fds[0]] if isinstance(s_, AbsStmt)] if fds else None
                node = out.result.stmts[fds[0]].args if fds else None
                vals = [repr(x) for x in (list(node.defaults) + [k for k in node.kw_defaults if k is not None])] if node else None
                ok = pre == ["S[d0]"] and vals == ["E[d0]"]
                det = f"statements before the definition {pre}, defaults {vals}"
            else:
                det = repr(out.exc)[:200]
            chk.case(("default-statements", sname, head))
            chk.ob(f"defaults/a default that needs statements, {sname}/{head}: its statements precede the definition, its value is the default",
                   ok, "structural", "proved", detail=det)
    for sname, (mk, pytext) in shapes_ll.items():
        for fname, fmk in falsy.items():
            for head in ("fn", "defn"):
                pre = [S("uf")] if head == "defn" else []
                out = sx.run_rule(E(S(head), *pre, mk(fmk()), Tok("body", "SE")))
                chk.case(("falsy-default", sname, fname, head))
                name = f"defaults/falsy literal default {fname}/{sname}/{head}: the arguments node equals CPython's"
                if not out.ok:
                    chk.ob(name, False, "cpython-oracle", "proved", detail=repr(out.exc)[:200])
                    continue
                node = next((s_ for s_ in out.result.stmts if isinstance(s_, (ast.FunctionDef, ast.AsyncFunctionDef))), None) or out.result._expr
                want = ast.parse(f"def f({pytext.format(fname)}): pass").body[0].args
                g, w = dump(node.args), ast.dump(want)
                chk.ob(name, g == w, "cpython-oracle", "proved", detail=None if g == w else f"emitted {g}\n  CPython {w}",
                       replay=None if g == w else {"confirmed": True, "input": hy.repr(E(S(head), *pre, mk(fmk()), S("None"))).lstrip("'"),
                                                   "observed": g, "expected": w})
    # implicit return / async generator / docstring
    def fdef(form):
        o = sx.run_rule(form)
        assert o.ok, o.exc
        return next(s for s in o.result.stmts if isinstance(s, (ast.FunctionDef, ast.AsyncFunctionDef)))
    a, bb = Tok("a", "SE"), Tok("b", "E")
    fd = fdef(E(S("defn"), S("uf"), List([]), a, bb))
    chk.ob("return/last body form is returned, earlier ones are statements",
           isinstance(fd.body[-1], ast.Return) and isinstance(fd.body[-1].value, AbsExpr) and fd.body[-1].value.tok is bb
           and [type(s).__name__ for s in fd.body] == ["AbsStmt", "Expr", "Return"], "structural", "proved", detail=sx.show(fd))
    fd = fdef(E(S("defn"), S("uf"), List([]), Tok("s", "S")))
    chk.ob("return/statement-only last form: no Return of a stale value", not any(isinstance(s, ast.Return) for s in fd.body),
           "structural", "proved", detail=sx.show(fd))
    fd = fdef(E(S("defn"), Keyword("async"), S("uf"), List([]), E(S("yield"), Tok("y", "E")), Tok("b", "E")))
    chk.ob("return/async generator: last form is evaluated but not returned",
           isinstance(fd, ast.AsyncFunctionDef) and not any(isinstance(s, ast.Return) for s in fd.body) and isinstance(fd.body[-1], ast.Expr),
           "structural", "proved", detail=sx.show(fd))
    # ... wherever the yield sits in the function's own Python scope (a let, a branch, a loop body, an argument, an assignment value),
    # and for defn and fn alike; a yield inside a nested function makes *that* one the generator, not the enclosing coroutine
    Y = lambda: E(S("yield"), Tok("y", "E"))
    places = {
        "directly in the body": lambda: Y(), "in a let body": lambda: E(S("let"), List([S("ul"), Tok("i", "E")]), Y()),
        "in nested lets": lambda: E(S("let"), List([S("ul"), Tok("i", "E")]), E(S("let"), List([S("um"), Tok("j", "E")]), Y())),
        "in a let binding value": lambda: E(S("let"), List([S("ul"), Y()]), S("ul")),
        "in an if branch": lambda: E(S("if"), Tok("c", "E"), Y(), Tok("e", "E")), "in a when body": lambda: E(S("when"), Tok("c", "E"), Y()),
        "in a do": lambda: E(S("do"), Tok("d", "SE"), Y()), "in a try body": lambda: E(S("try"), Y(), E(S("finally"), Tok("f", "E"))),
        "in an except handler": lambda: E(S("try"), Tok("t", "E"), E(S("except"), List([]), Y())),
        "in a with body": lambda: E(S("with"), List([S("uw"), Tok("m", "E")]), Y()), "in a for body": lambda: E(S("for"), List([S("ui"), Tok("xs", "E")]), Y()),
        "in a while body": lambda: E(S("while"), Tok("c", "E"), Y()), "as a call argument": lambda: E(S("ug"), Y()),
        "as an assignment value": lambda: E(S("setv"), S("uv"), Y()), "in a match body": lambda: E(S("match"), Tok("s", "E"), Integer(1), Y()),
        "as yield :from": lambda: E(S("for"), List([S("ui"), Tok("xs", "E")]), E(S("yield"), S("ui"))),
        "in a let inside a for body": lambda: E(S("for"), List([S("ui"), Tok("xs", "E")]), E(S("let"), List([S("ul"), S("ui")]), Y())),
    }
    for head in ("defn", "fn"):
        for pname, mk in places.items():
            pre = [S("uf")] if head == "defn" else []
            try:
                fd = fdef(E(S(head), Keyword("async"), *pre, List([]), mk(), Tok("b", "E")))
                okk = isinstance(fd, ast.AsyncFunctionDef) and not any(isinstance(n, ast.Return) and n.value is not None for n in ast.walk(fd))
                det = sx.show(fd)
            except Exception as e:  # noqa: BLE001
                okk, det = False, f"{type(e).__name__}: {e}"
            chk.case(("async-generator", head, pname))
            chk.ob(f"return/async generator ({head}), yield {pname}: the last form is not returned", okk, "structural", "proved", detail=det)
    inner = E(S("fn"), List([]), Y())
    fd = fdef(E(S("defn"), Keyword("async"), S("uf"), List([]), E(S("setv"), S("ug"), inner), Tok("b", "E")))
    chk.ob("return/a yield inside a nested function does not make the enclosing coroutine a generator: it returns its last form",
           isinstance(fd.body[-1], ast.Return), "structural", "proved", detail=sx.show(fd))
    fd = fdef(E(S("defn"), S("uf"), List([]), E(S("yield"), Tok("y", "E")), Tok("b", "E")))
    chk.ob("return/sync generator still returns its last form", isinstance(fd.body[-1], ast.Return), "structural", "proved")
    fd = fdef(E(S("defn"), Keyword("async"), S("uf"), List([]), Tok("a", "E"), Tok("b", "E")))
    chk.ob("return/async non-generator returns its last form", isinstance(fd.body[-1], ast.Return), "structural", "proved")
    fd = fdef(E(S("defn"), S("uf"), List([]), String("doc"), Tok("b", "E")))
    chk.ob("docstring/string literal followed by more forms is the first statement",
           isinstance(fd.body[0], ast.Expr) and getattr(fd.body[0].value, "value", None) == "doc" and isinstance(fd.body[-1], ast.Return)
           and ast.get_docstring(ast.fix_missing_locations(ast.FunctionDef(name="f", args=fd.args, body=fd.body[:1] + [ast.Pass()], decorator_list=[], type_params=[]))) == "doc",
           "structural", "proved", detail=sx.show(fd))
    fd = fdef(E(S("defn"), S("uf"), List([]), String("only")))
    chk.ob("docstring/a lone string literal is the return value, not a docstring",
           len(fd.body) == 1 and isinstance(fd.body[0], ast.Return) and fd.body[0].value.value == "only", "structural", "proved", detail=sx.show(fd))
    o = sx.run_rule(E(S("fn"), List([]), String("doc"), Tok("b", "SE")))
    fd = next(s for s in o.result.stmts if isinstance(s, ast.FunctionDef))
    chk.ob("docstring/fn with statements: same rule", isinstance(fd.body[0], ast.Expr) and fd.body[0].value.value == "doc", "structural", "proved")
    chk.fn("hy/core/result_macros.py::compile_lambda_list", "hy/core/result_macros.py::compile_arguments_set",
           "hy/core/result_macros.py::compile_function_lambda, compile_function_def, compile_function_node",
           "hy/compiler.py::HyASTCompiler._compile_collect", "hy/compiler.py::HyASTCompiler.compile_expression")
    chk.trust("CPython's parser (reference nodes) and binding semantics for identical ast.arguments/Call nodes",
              "spec renderer: lambda list -> Python signature text (docs/api.rst fn/defn; docs/syntax.rst keywords)")
    # canary: kw_defaults without None padding would differ from CPython's node
    want = ast.parse("def f(*, a, b=D0): pass").body[0].args
    broken = ast.arguments(posonlyargs=[], args=[], vararg=None, kwonlyargs=want.kwonlyargs, kw_defaults=[want.kw_defaults[1]], kwarg=None, defaults=[])
    chk.canary("arguments node with un-padded kw_defaults differs from CPython's", ast.dump(broken) != ast.dump(want))
    chk.sample({"lambda_list": "[ua [ub d0] / uc #* ud ue [uf d1] #** ug]", "python": "ua, ub=D0, /, uc, *ud, ue, uf=D1, **ug"})


def replay(path):
    from hv.replay import replay_file
    return replay_file(path)
