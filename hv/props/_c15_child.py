"""Child process of the C15 check (run as a script, never imported by the checker).

    python _c15_child.py JOB.json

JOB = {"repo": path of the hy checkout, "hypyc": private bytecode directory for hy itself, "out": result file,
       "tasks": [ {"kind": "import", "root": sys.path entry, "modules": [names, in import order], "probe": int},
                  {"kind": "runmod", "root": ..., "modules": [...]}   (runpy.run_module(name, run_name="__main__", alter_sys=True)),
                  {"kind": "files", "files": [[path, how]]}           (single files through a loader or runhy.run_path) ]}

hy itself is imported with sys.pycache_prefix pointing at the private directory (so that nothing is written into the
checkout); then the prefix is removed again, so that the generated modules are compiled and cached the ordinary way, in
__pycache__ next to their sources.  Every call of the importer's source-to-code function is recorded: this is how the
parent knows which modules were compiled and which were loaded from bytecode.
"""
import importlib
import importlib.machinery
import json
import os
import sys
import traceback
import types


def short_exc(e):
    return f"{type(e).__name__}: {str(e)[:300]}"


def main():
    job = json.load(open(sys.argv[1]))
    env_ok = ("PYTHONDONTWRITEBYTECODE" not in os.environ and "PYTHONPYCACHEPREFIX" not in os.environ
              and sys.dont_write_bytecode is False and sys.pycache_prefix is None)
    sys.path.insert(0, job["repo"])
    sys.pycache_prefix = job["hypyc"]
    import hy
    import hy.importer as hi
    import hy.core.hy_repr  # noqa: F401   (everything hy imports lazily, while the private prefix is in force)
    import hy.core.util  # noqa: F401
    import hy.pyops  # noqa: F401
    import hy.repl  # noqa: F401
    import hy.cmdline  # noqa: F401
    import hy.macros as hmac
    from hy.models import Expression, Integer, Symbol
    sys.pycache_prefix = None
    assert os.path.realpath(hy.__file__).startswith(os.path.realpath(job["repo"])), hy.__file__

    compiled_hy = []          # paths handed to hy_compile by the importer (compiled as Hy)
    to_code = []              # paths handed to SourceFileLoader.source_to_code (compiled at all: no valid bytecode)
    real_hy_compile = hi.hy_compile
    real_s2c = importlib.machinery.SourceFileLoader.source_to_code

    def rec_hy_compile(tree, module, *a, **k):
        compiled_hy.append(getattr(tree, "filename", None))
        return real_hy_compile(tree, module, *a, **k)

    def rec_s2c(self, data, path, *a, **k):
        to_code.append(os.fspath(path))
        return real_s2c(self, data, path, *a, **k)

    hi.hy_compile = rec_hy_compile
    importlib.machinery.SourceFileLoader.source_to_code = rec_s2c

    # ---- snapshots ------------------------------------------------------------------------------------------------
    def snap(v, depth=0):
        if isinstance(v, (bool, int, float, complex, str, bytes, type(None))):
            return ["v", type(v).__name__, repr(v)]
        if isinstance(v, (list, tuple)) and depth < 4:
            return ["seq", type(v).__name__, [snap(x, depth + 1) for x in v]]
        if isinstance(v, dict) and depth < 4:
            return ["dict", sorted(([repr(k), snap(x, depth + 1)] for k, x in v.items()), key=repr)]
        if isinstance(v, (set, frozenset)) and depth < 4:
            return ["set", type(v).__name__, sorted(repr(x) for x in v)]
        if isinstance(v, types.ModuleType):
            return ["module", v.__name__]
        if isinstance(v, type):
            attrs = {}
            for k, x in sorted(vars(v).items()):
                if k.startswith("__") or k.startswith("_hy_"):
                    continue
                if isinstance(x, types.FunctionType):
                    try:
                        attrs[k] = ["method", snap(getattr(v(), k)(3), depth + 1)]
                    except Exception as e:
                        attrs[k] = ["method-raises", short_exc(e)]
                else:
                    attrs[k] = snap(x, depth + 1)
            return ["class", v.__name__, [b.__name__ for b in v.__bases__], attrs]
        if isinstance(v, types.FunctionType):
            try:
                n = v.__code__.co_argcount
                r = snap(v(*([3] * n)), depth + 1)
            except Exception as e:
                r = ["raises", short_exc(e)]
            return ["fn", v.__name__, v.__code__.co_argcount, r]
        if isinstance(v, hy.models.Object):
            return ["model", hy.repr(v)]
        return ["obj", type(v).__name__]

    def head_of(key):
        parts = key.split(".")
        if len(parts) == 1:
            return Symbol(key)
        return Expression([Symbol(".")] + [Symbol(p) for p in parts])

    def snap_module(m, probe):
        values = {}
        for k, v in sorted(vars(m).items()):
            if k.startswith("_") or k == "hy":
                continue
            values[k] = snap(v)
        macros = {}
        for k, f in sorted(getattr(m, "_hy_macros", {}).items()):
            ent = [getattr(f, "__module__", None), getattr(f, "__name__", None)]
            try:
                ent.append(snap(hy.eval(Expression([head_of(k), Integer(probe)]), module=m)))
            except Exception as e:
                ent.append(["raises", short_exc(e)])
            macros[k] = ent
        readers = {}
        table = getattr(m, "_hy_reader_macros", None)
        for k, f in sorted((table or {}).items()):
            ent = [getattr(f, "__module__", None), getattr(f, "__name__", None)]
            try:
                rd = hy.HyReader()
                hmac.enable_readers(m, rd, "ALL")
                ent.append(hy.repr(list(hy.read_many(f"#{k} 41 42", reader=rd))))
            except Exception as e:
                ent.append("raises " + short_exc(e))
            readers[k] = ent
        cached = getattr(m, "__cached__", None)
        return {"values": values, "macros": macros, "readers": readers,
                "has_macro_table": hasattr(m, "_hy_macros"), "has_reader_table": table is not None,
                "file": getattr(m, "__file__", None), "cached": cached,
                "cached_exists": bool(cached and os.path.exists(cached)),
                "loader": type(getattr(m, "__loader__", None)).__name__}

    results = []
    for task in job["tasks"]:
        del compiled_hy[:], to_code[:]
        res = {"kind": task["kind"], "tag": task.get("tag")}
        if task["kind"] == "import":
            root = task["root"]
            sys.path.insert(0, root)
            importlib.invalidate_caches()
            mods = {}
            for name in task["modules"]:
                try:
                    m = importlib.import_module(name)
                    mods[name] = snap_module(m, task.get("probe", 5))
                except BaseException as e:
                    mods[name] = {"error": short_exc(e), "tb": traceback.format_exc()[-1500:]}
            # everything else the imports dragged in (macro modules): record their tables too
            others = {}
            for name, m in sorted(sys.modules.items()):
                f = getattr(m, "__file__", None) or ""
                if m is not None and f.startswith(root + os.sep) and name not in mods:
                    others[name] = {"macros": sorted(getattr(m, "_hy_macros", {})),
                                    "readers": sorted(getattr(m, "_hy_reader_macros", None) or {}),
                                    "cached_exists": bool(getattr(m, "__cached__", None) and os.path.exists(m.__cached__)),
                                    "loader": type(getattr(m, "__loader__", None)).__name__, "file": f}
            res.update(modules=mods, others=others)
            sys.path.remove(root)
            for name in [n for n, m in sys.modules.items()
                         if (getattr(m, "__file__", None) or "").startswith(root + os.sep)]:
                del sys.modules[name]
        elif task["kind"] == "runmod":
            import runpy
            root = task["root"]
            sys.path.insert(0, root)
            importlib.invalidate_caches()
            mods = {}
            for name in task["modules"]:
                saved_argv0 = sys.argv[0]
                try:
                    g = runpy.run_module(name, run_name="__main__", alter_sys=True)
                    mods[name] = {"values": {k: snap(v) for k, v in sorted(g.items()) if not k.startswith("_") and k != "hy"},
                                  "macros": sorted(g.get("_hy_macros", {})),
                                  "readers": sorted(g.get("_hy_reader_macros", {}) or {})}
                except BaseException as e:
                    mods[name] = {"error": short_exc(e), "tb": traceback.format_exc()[-1500:]}
                finally:
                    sys.argv[0] = saved_argv0
            res.update(modules=mods)
            sys.path.remove(root)
            for name in [n for n, m in sys.modules.items()
                         if (getattr(m, "__file__", None) or "").startswith(root + os.sep)]:
                del sys.modules[name]
        elif task["kind"] == "files":
            # load single files of any extension: how = "loader" (SourceFileLoader(name, path): what the import system
            # does once a finder has chosen the file), "hyloader" (hy.importer.HyLoader), "runhy" (what `hy FILE` uses)
            outs = []
            for n, (path, how) in enumerate(task["files"]):
                before = (len(compiled_hy), len(to_code))
                ent = {"path": path, "how": how}
                saved_main = sys.modules.get("__main__")
                saved_argv0 = sys.argv[0]
                try:
                    if how in ("loader", "hyloader"):
                        name = f"hv_c15_file_{task.get('tag')}_{n}"
                        cls = importlib.machinery.SourceFileLoader if how == "loader" else hi.HyLoader
                        loader = cls(name, path)
                        spec = importlib.util.spec_from_file_location(name, path, loader=loader)
                        m = importlib.util.module_from_spec(spec)
                        sys.modules[name] = m
                        try:
                            spec.loader.exec_module(m)
                        finally:
                            sys.modules.pop(name, None)
                        g = vars(m)
                        ent["cached"] = getattr(m, "__cached__", None)
                    else:
                        g = hi.runhy.run_path(path, run_name="__main__")
                    ent["values"] = {k: snap(v) for k, v in sorted(g.items()) if not k.startswith("_") and k != "hy"}
                    ent["macros"] = sorted(g.get("_hy_macros", {}))
                except BaseException as e:
                    ent["error"] = short_exc(e)
                finally:
                    sys.modules["__main__"] = saved_main
                    sys.argv[0] = saved_argv0
                ent["compiled_as_hy"] = path in compiled_hy[before[0]:]
                ent["compiled"] = path in to_code[before[1]:]
                outs.append(ent)
            res["files"] = outs
        res["compiled_hy"] = list(compiled_hy)
        res["to_code"] = list(to_code)
        results.append(res)

    out = {"env_ok": env_ok, "dont_write_bytecode": sys.dont_write_bytecode, "pycache_prefix": sys.pycache_prefix,
           "python": sys.version.split()[0], "hy_file": hy.__file__, "results": results}
    with open(job["out"], "w") as f:
        json.dump(out, f)


if __name__ == "__main__":
    main()
