"""C30 quote reproduces its argument model exactly; C31 quasiquote level discipline (shared machinery)."""
import itertools
import types

import hy
import hy.core.result_macros as rm
import hy.models as hm
from hy.models import (Bytes, Complex, Dict, Expression, FComponent, Float, FString, Integer, Keyword, List, Set, String,
                       Symbol, Tuple)

from hv.symx import core as sx
from hv.symx.core import E, S, Tok

META = {
    "engine": "symx",
    "level": "proof",
    "technique": "contract-based: render_quoted_form is executed on one model node at a time with its recursive calls replaced "
                 "by their contract (opaque children); postcondition: evaluating the rendered constructor call with the real "
                 "model constructors yields a node of the same type, with the very same children and equal extra attributes "
                 "(attribute list read from the live classes)",
    "text": "For every model class (Expression, List, Tuple, Set, Dict, FString, FComponent, Symbol, Keyword, String incl. "
            "bracket strings, Bytes, Integer, Float, Complex), every combination of its extra attributes (brackets, "
            "conversion, expression, is_tstring) and 0..3 opaque children, quoting one node yields a constructor call whose "
            "evaluation reproduces the node exactly; recursion is cut at the callee contract, so by induction over the tree "
            "(quote m) evaluates to a model equal to m for all trees.",
    "note": "Trusted: the model constructors themselves (C26), compile of the rendered constructor call is an ordinary call "
            "(C01), hy.eval. Leaf values are drawn from a vocabulary of special-looking symbols/keywords/strings/numbers "
            "(bounded, labelled as such); node structure and attributes are exhaustive.",
}

INF = float("inf")


class Q(hm.Object):
    """What the callee contract returns for an opaque child: a form that evaluates to that child."""

    def __init__(self, tok):
        self.tok = tok


def with_stub(fn, level_log):
    """Run fn with the module-global render_quoted_form replaced by the callee contract for opaque children."""
    real = rm.render_quoted_form

    def stub(compiler, form, level):
        if isinstance(form, Tok):
            level_log.append((form.name, level))
            if form.shape == "splice":
                return form, True            # an `unquote-splice` child at level 0: (expression, splice=True)
            return Symbol("hv_q_" + form.name), False
        return real(compiler, form, level)
    rm.render_quoted_form = stub
    try:
        return fn(real)
    finally:
        rm.render_quoted_form = real


def evaluate(rendered, toks, splice_vals=None):
    env = {"hv_q_" + t.name: t for t in toks}
    for t in toks:
        if t.shape == "splice":
            env["hv_s_" + t.name] = (splice_vals or {}).get(t.name, [])

    def inst(x):
        if isinstance(x, Tok):
            return Symbol("hv_s_" + x.name)
        if isinstance(x, hm.Sequence):
            return type(x)((inst(y) for y in x), **{k: getattr(x, k) for k in getattr(x, "_extra_kwargs", ())})
        return x
    mod = types.ModuleType("hv_c30")
    mod.__dict__.update(env)
    return hy.eval(inst(rendered), module=mod, locals=mod.__dict__)


def same_node(a, b, toks_identity=True):
    if type(a) is not type(b):
        return f"type {type(a).__name__} vs {type(b).__name__}"
    for k in getattr(type(a), "_extra_kwargs", ()) + (("brackets",) if isinstance(a, String) else ()):
        if getattr(a, k, None) != getattr(b, k, None):
            return f"attribute {k}: {getattr(a, k, None)!r} vs {getattr(b, k, None)!r}"
    if isinstance(a, hm.Sequence):
        if len(a) != len(b):
            return f"length {len(a)} vs {len(b)}"
        for x, y in zip(a, b):
            if isinstance(x, Tok) or isinstance(y, Tok):
                if x is not y:
                    return f"child {x!r} vs {y!r}"
            elif x != y or type(x) is not type(y):
                return f"child {x!r} vs {y!r}"
        return None
    if isinstance(a, Keyword):
        return None if a.name == b.name else f"{a.name!r} vs {b.name!r}"
    if isinstance(a, (float, complex)) and a != a:
        return None if repr(a) == repr(b) else "nan"
    return None if a == b else f"value {a!r} vs {b!r}"


def node_space(quick):
    ns = range(0, 3 if quick else 4)
    for cls in (Expression, List, Tuple, Set, Dict):
        for n in ns:
            yield f"{cls.__name__}/{n}", (lambda ch, cls=cls: cls(ch)), n
    for n in ns:
        for br, tst in itertools.product((None, "", "f", "f-x"), (False, True)):
            yield f"FString/{n}/brackets={br!r}/tstring={tst}", (lambda ch, br=br, tst=tst: FString(ch, brackets=br, is_tstring=tst)), n
    for n in range(1, 3 if quick else 4):
        for conv, ex, tst in itertools.product((None, "r", "s", "a"), (None, "x + 1"), (False, True)):
            yield (f"FComponent/{n}/conv={conv}/expr={ex!r}/tstring={tst}",
                   (lambda ch, conv=conv, ex=ex, tst=tst: FComponent(ch, conversion=conv, expression=ex, is_tstring=tst)), n)


LEAVES = [
    Symbol("plain"), Symbol("None"), Symbol("True"), Symbol("..."), Symbol(".", from_parser=True), Symbol("a-b!"), Symbol("unquote"),
    Symbol("quote"), Symbol("hy.models.Symbol", from_parser=True), Symbol("1+", from_parser=True), Symbol("#weird", from_parser=True),
    Keyword("kw"), Keyword(""), Keyword("a-b"), Keyword("from_parser"), Keyword("with space", from_parser=True),
    Keyword(":a", from_parser=True), Keyword("::", from_parser=True), Keyword("a:b"),      # what the reader makes of ::a, ::: and :a:b
    String(""), String("text"), String('q"uote\n'), String("br", brackets=""), String("br]x", brackets="ab"), String("]]", brackets="x"),
    Bytes(b""), Bytes(b"\x00\xff"), Integer(0), Integer(-7), Integer(10 ** 30), Float(1.5), Float(float("inf")), Float(float("-inf")), Float(float("nan")),
    Float(-0.0), Complex(2j), Complex(complex(1, -1)), Complex(complex(float("nan"), float("inf"))),
]


def run(chk):
    comp = sx.new_compiler()
    quick = chk.tier == "quick"
    for name, mk, n in node_space(quick):
        toks = [Tok(f"c{i}", "E") for i in range(n)]
        node = mk(toks)
        log = []
        try:
            rendered, splice = with_stub(lambda real: real(comp, node, INF), log)
            got = evaluate(rendered, toks)
            err = same_node(node, got) or (None if splice is False else "splice flag set")
            lv = all(l == INF for _, l in log) and [t for t, _ in log] == [t.name for t in toks]
            if not lv:
                err = err or f"recursive calls: {log}"
        except Exception as e:  # noqa: BLE001
            err = f"{type(e).__name__}: {e}"
        chk.case(name)
        rp = None
        if err is not None:
            # replay through the whole pipeline with literal children: (quote NODE) compiled and evaluated by hy.eval
            try:
                lit = mk([Integer(i + 1) for i in range(n)])
                e2e = same_node(lit, hy.eval(Expression([Symbol("quote"), lit]), module=types.ModuleType("hv_c30r")))
                rp = {"confirmed": e2e is not None, "input": f"(hy.eval (hy.models.Expression [(hy.models.Symbol \"quote\") {hy.repr(lit)}]))",
                      "observed": e2e, "expected": "a model equal to the quoted one, attributes included"}
            except Exception as e:  # noqa: BLE001
                rp = {"confirmed": False, "error": f"{type(e).__name__}: {e}"[:200]}
        chk.ob(f"quote/node/{name}", err is None, "structural", "proved" if n <= 2 else "arity_bounded", detail=err, replay=rp)
    for leaf in LEAVES:
        try:
            rendered, splice = rm.render_quoted_form(comp, leaf, INF)
            got = hy.eval(rendered, module=types.ModuleType("hv_c30l"))
            err = same_node(leaf, got)
        except Exception as e:  # noqa: BLE001
            err = f"{type(e).__name__}: {e}"
        chk.case(repr(leaf))
        rp = None
        if err is not None:
            # replay through the whole pipeline: (quote LEAF) compiled and evaluated by hy.eval
            try:
                e2e = same_node(leaf, hy.eval(Expression([Symbol("quote"), leaf]), module=types.ModuleType("hv_c30r")))
            except Exception as e:  # noqa: BLE001
                e2e = f"{type(e).__name__}: {e}"
            rp = {"confirmed": e2e is not None, "input": f"(hy.eval (hy.models.Expression [(hy.models.Symbol \"quote\") {hy.repr(leaf)}]))",
                  "observed": e2e, "expected": "a model equal to the quoted one, attributes included"}
        chk.ob(f"quote/leaf/{type(leaf).__name__}/{leaf!r}"[:120], err is None, "structural", "bounded", detail=err, replay=rp)
    # attribute completeness: every _extra_kwargs attribute of every Sequence subclass is exercised above
    classes = [c for c in vars(hm).values() if isinstance(c, type) and issubclass(c, hm.Sequence)]
    extra = {c.__name__: c._extra_kwargs for c in classes if c._extra_kwargs}
    known = {"FString": ("brackets", "is_tstring"), "FComponent": ("conversion", "expression", "is_tstring")}
    chk.ob("quote/attribute vocabulary equals the live _extra_kwargs of all Sequence classes", extra == known, "structural", "proved",
           detail=str(extra))
    # the quote rule itself passes level = infinity and compiles exactly the rendering
    seen = []
    real = rm.render_quoted_form
    rm.render_quoted_form = lambda c, f, level: (seen.append(level), real(c, f, level))[1]
    try:
        out = sx.run_rule(E(S("quote"), E(S("unquote"), Symbol("x"))))
    finally:
        rm.render_quoted_form = real
    chk.ob("quote/compile_quote renders at level infinity (unquote stays literal)", bool(seen) and seen[0] == INF and out.ok,
           "structural", "proved", detail=str(seen[:1]))
    chk.fn("hy/core/result_macros.py::render_quoted_form", "hy/core/result_macros.py::compile_quote")
    chk.trust("model constructors (C26)", "hy.eval of a constructor call (C01, C39)")
    chk.bounds["children per node"] = "0..2 quick / 0..3 thorough (uniform loop over children)"
    # canary: dropping `conversion` must be refuted
    node = FComponent([Tok("c0", "E")], conversion="r")
    rendered, _ = with_stub(lambda real: real(comp, node, INF), [])
    broken = Expression([x for x in rendered if not (isinstance(x, Keyword) and x.name == "conversion")][:2])
    got = evaluate(broken, list(node))
    chk.canary("rendering without the conversion keyword", same_node(node, got) is not None)
    chk.sample({"node": "FComponent/1/conv=r", "rendered": hy.repr(rendered)})


def replay(path):
    from hv.replay import replay_file
    return replay_file(path)
