"""C10 compilation yields a valid Python AST or a user-facing Hy error."""
from hv import core  # noqa: E402
import ast
import copy
import itertools
import marshal
import multiprocessing as mp
import types
import warnings

import hy
import hy.models as hm
from hy.compiler import hy_compile
from hy.errors import HyCompileError, HyInternalError, HyLanguageError
from hy.models import (Bytes, Dict, Expression, FComponent, Float, FString, Integer, Keyword, List, Set, String, Symbol, Tuple)

from hv.symx import core as sx
from hv.symx.core import E, S, Tok

META = {
    "engine": "symx",
    "level": "proof",
    "technique": "contract-based: well-formedness postcondition on every core macro and model compiler: for every vector of "
                 "argument kinds (opaque sub-forms of every Result shape plus every syntactic kind a rule can observe) the real "
                 "hy_compile either raises a HyLanguageError/SyntaxError or returns a module that CPython's own validator "
                 "accepts (compile + marshal) or rejects with SyntaxError only",
    "text": "Every head in the live core macro tables and every literal kind is applied to every vector of child kinds "
            "(arity 0..2 exhaustively in the quick tier, 0..3 in the thorough tier, plus depth-2 composites for assignment "
            "targets and f-strings): opaque sub-forms (expression / statements+expression / statements only), symbols, "
            "None/True, keywords (also empty), numbers, strings, bytes, empty and non-empty (), [], {}, odd dict, #* and #** "
            "forms with 0/1/2 arguments, annotate forms, the bare symbols * / _ . | ..., dotted forms and f-strings. The "
            "contract: never HyCompileError or a foreign exception from compilation, never an AST that Python rejects with "
            "ValueError/TypeError/SystemError. Opaque sub-forms make each case stand for all programs of that shape.",
    "note": "Trusted: CPython's compile() as validator, marshal. Arity and depth are bounded; within them the vocabulary is "
            "exhaustive. Heads whose compile-time evaluation would run arbitrary code (require/import of real modules) use "
            "harmless names; compile-time evaluation of opaque sub-forms fails with HyEvalError, which is user-facing.",
}


def vocabulary():
    """name -> builder() of one child kind"""
    T = lambda sh: (lambda: Tok("t", sh))
    um = lambda *a: E(S("unpack-mapping"), *a)
    ui = lambda *a: E(S("unpack-iterable"), *a)
    return {
        "E": T("E"), "SE": T("SE"), "S": T("S"),
        # a sub-form that compiles to nothing at all: no statements, no expression (an empty `do`, a `when` with no body, ...)
        "0": T("0"), "(do)": lambda: E(S("do")),
        "(. sym)": lambda: E(S("."), S("u_a")), "(None E)": lambda: E(S("None"), Tok("t", "E")), "(True)": lambda: E(S("True")),
        "(nonlocal sym)": lambda: E(S("nonlocal"), S("u_name")), "(global sym)": lambda: E(S("global"), S("u_name")),
        "(return)": lambda: E(S("return")), "(break)": lambda: E(S("break")),
        "sym": lambda: S("u_name"), "None": lambda: S("None"), "True": lambda: S("True"), "dotted": lambda: E(S("."), S("u_a"), S("u_b")),
        "kw": lambda: Keyword("u_kw"), "kw-empty": lambda: Keyword(""), "kw-as": lambda: Keyword("as"),
        "int": lambda: Integer(1), "float": lambda: Float(1.5), "str": lambda: String("s"), "bytes": lambda: Bytes(b"b"),
        "()": lambda: E(), "[]": lambda: List([]), "[E]": lambda: List([Tok("t", "E")]), "[sym]": lambda: List([S("u_p")]),
        "[sym E]": lambda: List([S("u_p"), Tok("t", "E")]), "{}": lambda: Dict([]), "{odd}": lambda: Dict([Tok("t", "E")]),
        "{E E}": lambda: Dict([Tok("t", "E"), Tok("t2", "SE")]), "#{E}": lambda: Set([Tok("t", "E")]), "#(E)": lambda: Tuple([Tok("t", "E")]),
        "#*E": lambda: ui(Tok("t", "E")), "#**E": lambda: um(Tok("t", "SE")), "#*0": lambda: ui(), "#**0": lambda: um(),
        "#*2": lambda: ui(Tok("t", "E"), Tok("t2", "E")), "#**2": lambda: um(Tok("t", "E"), Tok("t2", "E")),
        "#*sym": lambda: ui(S("u_rest")), "#**sym": lambda: um(S("u_kw")),
        "annotate": lambda: E(S("annotate"), S("u_x"), Tok("t", "E")), "annotate1": lambda: E(S("annotate"), S("u_x")),
        "*": lambda: S("*"), "/": lambda: S("/"), "_": lambda: S("_"), ".": lambda: S("."), "|": lambda: S("|"), "...": lambda: S("..."),
        "call": lambda: E(S("u_f"), Tok("t", "E")), "fstr": lambda: FString([String("a"), FComponent([Tok("t", "S")])]),
        "fstr-conv": lambda: FString([FComponent([Tok("t", "E")], conversion="z")]),
        "(else)": lambda: E(S("else"), Tok("t", "E")), "(except)": lambda: E(S("except"), List([]), Tok("t", "E")),
        "(finally)": lambda: E(S("finally"), Tok("t", "S")),
        "(else0)": lambda: E(S("else")), "(finally0)": lambda: E(S("finally")), "(except0)": lambda: E(S("except"), List([])),
        "(except-named)": lambda: E(S("except"), List([S("u_e"), S("u_Exc")]), Tok("t", "SE")),
    }


def heads():
    import builtins
    import hy.core.result_macros as rm
    import hy.core.macros  # noqa: F401
    hs = sorted(set(rm._hy_macros) | set(getattr(builtins, "_hy_macros", {})))
    skip = {"require", "defreader", "export", "get_macro", "local_macros", "help", "doc"}
    return [h for h in hs if h not in skip]


class _Inst(ast.NodeTransformer):
    def visit_AbsExpr(self, n):
        return ast.copy_location(ast.Call(func=ast.copy_location(ast.Name(id="hv_e", ctx=ast.Load()), n), args=[], keywords=[]), n)

    def visit_AbsStmt(self, n):
        return ast.copy_location(ast.Expr(value=ast.copy_location(ast.Call(func=ast.copy_location(ast.Name(id="hv_s", ctx=ast.Load()), n),
                                                                            args=[], keywords=[]), n)), n)


def classify(form):
    """-> (verdict, detail); verdict in ok-compiled / ok-hy-error / ok-python-syntax-error / BAD-..."""
    mod = types.ModuleType("hv_c10")
    try:
        with warnings.catch_warnings():
            warnings.simplefilter("ignore")
            tree = hy_compile(form, mod, import_stdlib=False)
    except HyInternalError as e:
        return "BAD-internal-compiler-error", f"{type(e).__name__}: {str(e)[-300:]}"
    except (HyLanguageError, SyntaxError):
        return "ok-hy-error", None
    except RecursionError:
        return "ok-hy-error", None
    except Exception as e:  # noqa: BLE001
        return "BAD-foreign-exception", f"{type(e).__name__}: {e}"
    try:
        tree = _Inst().visit(copy.deepcopy(tree))
    except Exception as e:  # noqa: BLE001
        return "BAD-unvisitable-ast", f"{type(e).__name__}: {e}"
    try:
        with warnings.catch_warnings():
            warnings.simplefilter("ignore")
            code = compile(tree, "<hv-c10>", "exec")
    except SyntaxError:
        return "ok-python-syntax-error", None
    except (ValueError, TypeError, SystemError, AttributeError) as e:
        return "BAD-python-rejects-ast", f"{type(e).__name__}: {e}"
    except RecursionError:
        return "ok-python-syntax-error", None
    try:
        marshal.dumps(code)
    except Exception as e:  # noqa: BLE001
        return "BAD-unmarshallable", f"{type(e).__name__}: {e}"
    return "ok-compiled", None


VOC = None
TASKS = []


def _mk(task):
    kind, head, kinds = task
    kids = [VOC[k]() for k in kinds]
    if kind == "macro":
        from hy.reader import unmangle
        return E(Symbol(unmangle(head), from_parser=True), *kids)
    if kind == "call":
        return E(*kids)
    if kind == "msugar":
        return E(E(S("."), S("None"), S("u_meth")), *kids)
    if kind == "nested":
        if head == "fn-body":
            return E(S("fn"), List([]), *kids)
        if head == "let-in-let-body":
            return E(S("defn"), S("u_g"), List([]), E(S("let"), List([S("u_name"), Integer(1)]), E(S("let"), List([S("u_y"), Integer(2)]),
                                                                                               E(S("while"), S("u_c"), *kids))))
        if head == "while-body":
            return E(S("while"), S("u_c"), *kids)
        if head == "for-body":
            return E(S("for"), List([S("u_i"), S("u_xs")]), *kids)
        return E(S("do"), E(S("setv"), S("u_name"), Integer(1)), *kids)
    return {"list": List, "tuple": Tuple, "set": Set, "dict": Dict, "fstring": lambda k: FString(k),
            "fcomponent": lambda k: FString([FComponent(k)])}[head](kids)


def _work(i):
    task = TASKS[i]
    try:
        form = _mk(task)
    except Exception as e:  # noqa: BLE001  (a model constructor refusing the children is not a compiler matter)
        return i, "ok-not-constructible", str(e)[:80]
    v, d = classify(form)
    if v.startswith("BAD"):
        try:
            d = (d or "") + "\n  form: " + hy.repr(form)[:300]
        except Exception as e:  # noqa: BLE001
            d = (d or "") + f"\n  form: <hy.repr failed: {type(e).__name__}> {form!r}"[:300]
    return i, v, d


def confirm(task):
    """Replay with real forms in place of the opaque sub-forms."""
    form = _mk(task)

    def inst(x):
        if isinstance(x, Tok):
            if x.shape == "E":
                return E(S("hv_e"))
            if x.shape == "SE":
                return E(S("do"), E(S("setv"), S("hv_v"), Integer(1)), E(S("hv_e")))
            return E(S("setv"), S("hv_v"), Integer(1))
        if isinstance(x, hm.Sequence):
            return type(x)((inst(y) for y in x), **{k: getattr(x, k) for k in getattr(x, "_extra_kwargs", ())})
        return x
    f2 = inst(form)
    try:
        src = hy.repr(f2)
    except Exception as e:  # noqa: BLE001
        return {"confirmed": False, "reason": f"hy.repr of the instantiated form failed ({type(e).__name__}); no source text"}
    src = src[1:] if src.startswith("'") else src
    mod = types.ModuleType("hv_c10r")
    try:
        with warnings.catch_warnings():
            warnings.simplefilter("ignore")
            tree = hy_compile(hy.read_many(src), mod, import_stdlib=False)
            compile(tree, "<r>", "exec")
        return {"confirmed": False, "hy_source": src, "reason": "instantiated source compiles"}
    except (HyInternalError,) as e:
        return {"confirmed": True, "hy_source": src, "observed": f"{type(e).__name__}"}
    except (HyLanguageError, SyntaxError) as e:
        return {"confirmed": False, "hy_source": src, "reason": f"instantiated source gives a user-facing {type(e).__name__}"}
    except Exception as e:  # noqa: BLE001
        return {"confirmed": True, "hy_source": src, "observed": f"{type(e).__name__}: {e}"[:200]}


def run(chk):
    global VOC
    quick = chk.tier == "quick"
    VOC = voc = vocabulary()
    ks = list(voc)
    hs = heads()
    maxa = 2 if quick else 3
    clause_heads = {"try": 4, "hyx_Xwhile": 0}
    del TASKS[:]
    for h in hs:
        for n in range(0, maxa + 1):
            pool = ks if n <= 2 else [k for k in ks if k in ("E", "SE", "S", "sym", "kw", "[]", "[sym E]", "{odd}", "#*E", "#**E", "annotate",
                                                             "()", "int", "str", "(else)", "(except)", "(finally)", "(else0)", "(finally0)", "(except0)", "*", "_",
                                                             "[E]", "None")]
            for kinds in itertools.product(pool, repeat=n):
                TASKS.append(("macro", h, kinds))
    # heads whose smallest well-formed call has three arguments are exhausted at arity 3 in the quick tier too (otherwise only their
    # rejection paths are checked there): `if` over the reduced pool, `chainc` over operands and comparison operators
    p3 = ["E", "SE", "S", "sym", "kw", "[]", "#*E", "#**E", "annotate", "()", "int", "str", "None", "(else)", "_"]
    voc.update({"op<": lambda: S("<"), "op-in": lambda: S("in"), "op-is-not": lambda: S("is-not"), "op-bad": lambda: S("+")})
    if maxa < 3:
        for kinds in itertools.product(p3, repeat=3):
            TASKS.append(("macro", "if", kinds))
    for kinds in itertools.product(["E", "SE", "S", "sym", "int", "#*E", "()"], ["op<", "op-in", "op-is-not", "op-bad", "sym", "E"], ["E", "SE", "S", "int", "#*E"]):
        TASKS.append(("macro", "chainc", kinds))
        for k4 in ("op<", "E"):
            for k5 in ("E", "SE"):
                TASKS.append(("macro", "chainc", kinds + (k4, k5)))
    # clauses and bodies that compile to nothing, patterns with constant or one-part heads
    voc.update({"(finally (do))": lambda: E(S("finally"), E(S("do"))), "(else (do))": lambda: E(S("else"), E(S("do"))),
                "(except [] (do))": lambda: E(S("except"), List([]), E(S("do"))), "(finally 0)": lambda: E(S("finally"), Tok("t", "0")),
                "(None int)": lambda: E(S("None"), Integer(1)), "(sym int)": lambda: E(S("u_C"), Integer(1)), "(| int)": lambda: E(S("|"), Integer(1)),
                "[int #*sym]": lambda: List([Integer(1), E(S("unpack-iterable"), S("u_r"))]), "{str sym}": lambda: Dict([String("k"), S("u_v")]),
                "(. sym sym)": lambda: E(S("."), S("u_a"), S("u_b")), ":if": lambda: Keyword("if"), ":do": lambda: Keyword("do"),
                ":setv": lambda: Keyword("setv"), ":as": lambda: Keyword("as")})
    voc.update({"[#*None]": lambda: List([E(S("unpack-iterable"), S("None"))]), "[int #*_]": lambda: List([Integer(1), E(S("unpack-iterable"), S("_"))]),
                "{str int #**None}": lambda: Dict([String("k"), Integer(1), E(S("unpack-mapping"), S("None"))]),
                "{str int #**sym}": lambda: Dict([String("k"), Integer(1), E(S("unpack-mapping"), S("u_r"))]),
                "(sym :None int)": lambda: E(S("u_C"), Keyword("None"), Integer(1)), "(sym :kw sym)": lambda: E(S("u_C"), Keyword("u_a"), S("u_v")),
                "(.sym)": lambda: E(E(S("."), S("None"), S("u_a"))), "(.sym int)": lambda: E(E(S("."), S("None"), S("u_a")), Integer(1)),
                "((. sym sym) int)": lambda: E(E(S("."), S("u_m"), S("u_C")), Integer(1)), "True": lambda: S("True"),
                "[None]": lambda: List([S("None")]), "[#*True]": lambda: List([E(S("unpack-iterable"), S("True"))]),
                "[#**None]": lambda: List([E(S("unpack-mapping"), S("None"))]), "[sym sym]": lambda: List([S("u_T"), S("u_B")]),
                "[[sym None]]": lambda: List([List([S("u_T"), S("None")])]), ":tp": lambda: Keyword("tp")})
    for kinds in itertools.product(["E", "SE", "0"], ["(None int)", "(sym int)", "(. sym)", "(. sym sym)", "(| int)", "[int #*sym]", "{str sym}", "int", "sym", "_", "None",
                                                      "(True)", "kw", "str", "0", "(do)", "[#*None]", "[int #*_]", "{str int #**None}", "{str int #**sym}",
                                                      "(sym :None int)", "(sym :kw sym)", "(.sym)", "(.sym int)", "((. sym sym) int)"],
                                   ["E", "SE", "S", "0", "(do)"]):
        TASKS.append(("macro", "match", kinds))
        for tgt in ("sym", "_", "None", "True"):
            TASKS.append(("macro", "match", kinds[:2] + (":as", tgt) + kinds[2:]))
        TASKS.append(("macro", "match", kinds[:2] + (":if", "E") + kinds[2:]))
    # type-parameter lists
    for tp in ("[sym]", "[None]", "[#*True]", "[#**None]", "[#*E]", "[sym sym]", "[[sym None]]", "[]", "E"):
        for h, rest in (("defn", ("sym", "[]", "E")), ("fn", ("[]", "E")), ("defclass", ("sym", "[]")), ("deftype", ("sym", "E"))):
            TASKS.append(("macro", h, (":tp", tp) + rest))
    for h in ("lfor", "sfor", "gfor", "dfor", "for"):
        vals = [("E",), ("0",), ("(do)",), ("S",)] if h != "dfor" else [("E", "E"), ("0", "E"), ("E", "(do)"), ("S", "E")]
        for it in ("E", "SE", "0", "(do)"):
            for cl3 in ((), (":if", "E"), (":if", "(do)"), (":if", "0"), (":do", "(do)"), (":do", "S"), (":setv", "sym", "0"), (":setv", "sym", "(do)")):
                for v in vals:
                    if h == "for":
                        voc.setdefault("[sym " + it + "]", (lambda it=it: List([S("u_i"), VOC[it]()])))
                        TASKS.append(("macro", h, ("[sym " + it + "]",) + v))
                        voc.setdefault("[sym E " + " ".join(cl3) + "]", (lambda cl3=cl3: List([S("u_i"), Tok("t", "E")] + [VOC[k]() for k in cl3])))
                        TASKS.append(("macro", h, ("[sym E " + " ".join(cl3) + "]",) + v))
                    else:
                        TASKS.append(("macro", h, ("sym", it) + cl3 + v))
    # clause-structured heads get deeper argument lists over the clause vocabulary (also in the quick tier)
    cl = ["E", "SE", "(else)", "(else0)", "(except)", "(except0)", "(except-named)", "(finally)", "(finally0)", "(finally (do))", "(else (do))",
          "(except [] (do))", "0"]
    for n in (3, 4):
        for kinds in itertools.product(cl, repeat=n):
            TASKS.append(("macro", "try", kinds))
    for h, cl2 in (("while", ["E", "SE", "(else)", "(else0)"]), ("for", ["[sym E]", "E", "S", "(else)", "(else0)"])):
        for n in (3, 4):
            for kinds in itertools.product(cl2, repeat=n):
                TASKS.append(("macro", h, kinds))
    for lit in ("list", "tuple", "set", "dict", "fstring", "fcomponent"):
        for n in range(0, 3):
            for kinds in itertools.product(ks, repeat=n):
                TASKS.append(("lit", lit, kinds))
        for kinds in itertools.product(["E", "SE", "S", "0", "#*E", "#**E", "kw", "int", "sym"], repeat=3):
            TASKS.append(("lit", lit, kinds))
    # method-call sugar (.m obj args...) reads as ((. None m) obj args...): the object is the first non-keyword argument
    for n in range(0, 4 if quick else 5):
        for kinds in itertools.product(["E", "SE", "kw", "kw-empty", "#*E", "#**E", "sym", "0"], repeat=n):
            TASKS.append(("msugar", None, kinds))
    # nested two deep in non-macro positions and inside fn / let / while bodies: statements that must sit in a particular kind of scope
    for outer in ("fn-body", "let-in-let-body", "while-body", "for-body", "module"):
        for k in ("(nonlocal sym)", "(global sym)", "(return)", "(break)", "0", "(do)", "S", "E"):
            TASKS.append(("nested", outer, (k,)))
            TASKS.append(("nested", outer, (k, "E")))
            TASKS.append(("nested", outer, ("sym", k)))
    for n in range(1, 3 if quick else 4):
        pool = ks if n <= 2 else ["E", "SE", "S", "sym", "kw", "kw-empty", "#*E", "#**E", "#*0", "annotate", "dotted", "()"]
        for kinds in itertools.product(pool, repeat=n):
            TASKS.append(("call", None, kinds))
    # depth-2 composites: every assignment-like head with structured targets
    targets = {"[sym sym]": lambda: List([S("u_a"), S("u_b")]), "#(sym #*sym)": lambda: Tuple([S("u_a"), E(S("unpack-iterable"), S("u_b"))]),
               "(. E attr)": lambda: E(S("."), Tok("t", "E"), S("u_at")), "(get E E)": lambda: E(S("get"), Tok("t", "E"), Tok("t2", "E")),
               "(cut E E)": lambda: E(S("cut"), Tok("t", "E"), Tok("t2", "E")), "[[sym] sym]": lambda: List([List([S("u_a")]), S("u_b")]),
               "[int]": lambda: List([Integer(1)]), "(f E)": lambda: E(S("u_f"), Tok("t", "E")), "[(f E)]": lambda: List([E(S("u_f"), Tok("t", "E"))])}
    voc.update({"T:" + k: v for k, v in targets.items()})
    for h in ("setv", "setx", "del", "for", "lfor", "with", "+=", "//=", "annotate", "let", "match", "defn", "fn", "global", "nonlocal",
              "import", "try", "defclass", "deftype", "chainc", "assert", "raise", "return", "yield", "await", "cut", ".", "get", "quasiquote"):
        from hy.reader import mangle
        for tk in targets:
            for rest in (("E",), ("SE",), ("E", "E"), ()):
                TASKS.append(("macro", mangle(h), ("T:" + tk,) + rest))
                if h in ("for", "lfor", "with", "let"):
                    voc["L:" + tk] = (lambda tk=tk: List([targets[tk](), Tok("t9", "E")]))
                    TASKS.append(("macro", mangle(h), ("L:" + tk,) + rest))
    import gc; gc.collect(); gc.freeze()  # forked workers then touch (copy) far fewer pages
    with mp.get_context("fork").Pool(chk.jobs) as pool:
        res = core.pmap(pool, _work, range(len(TASKS)), chunksize=512)
    counts = {}
    bad_by_site = {}
    for i, v, d in res:
        counts[v] = counts.get(v, 0) + 1
        chk.case(i)
        if v.startswith("BAD"):
            kind, head, kinds = TASKS[i]
            key = (head or kind, v, (d or "").split("\n")[0][:90])
            bad_by_site.setdefault(key, []).append(i)
    chk.extra["verdicts"] = counts
    # one obligation per (head, arity) so that names are stable; failing ones carry the first failing vector
    per = {}
    for i, v, d in res:
        kind, head, kinds = TASKS[i]
        key = f"wellformed/{kind}:{head or ('call' if kind == 'call' else 'method-call sugar')}/arity {len(kinds)}"
        st = per.setdefault(key, [0, None, None])
        st[0] += 1
        if v.startswith("BAD") and st[1] is None:
            st[1], st[2] = f"{v}: {d}\n  child kinds: {kinds}", i
    for key, (n, bad, idx) in sorted(per.items()):
        rp = None
        if bad is not None:
            try:
                rp = confirm(TASKS[idx])
            except Exception as e:  # noqa: BLE001
                rp = {"confirmed": False, "error": repr(e)}
        chk.ob(key, bad is None, "cpython-oracle", "arity_bounded", detail=bad or f"{n} child-kind vectors", replay=rp)
    # vacuity: a head for which no vector ever compiles is only ever checked on its error path
    okc = {}
    for i, v, d in res:
        kind, head, kinds = TASKS[i]
        okc.setdefault(f"{kind}:{head or 'call'}", 0)
        if v in ("ok-compiled", "ok-python-syntax-error"):
            okc[f"{kind}:{head or 'call'}"] += 1
    # heads that are only meaningful inside another form are errors on their own, by design
    inner_only = {"macro:else", "macro:except", "macro:finally", "macro:hyx_exceptXasteriskX", "macro:unpack_mapping", "macro:unpack_iterable",
                  "macro:unquote", "macro:unquote_splice"}
    never = sorted(k for k, n_ in okc.items() if n_ == 0 and k not in inner_only)
    chk.extra["heads_never_compiled"] = never
    chk.ob("wellformed/vacuity: every head is compiled successfully for at least one vector of child kinds (not only rejected)", not never,
           "cpython-oracle", "arity_bounded", detail=None if not never else "never accepted within the explored arities: " + ", ".join(never))
    chk.extra["distinct_failure_sites"] = [f"{k[0]} | {k[1]} | {k[2]} ({len(v)} vectors)" for k, v in sorted(bad_by_site.items())][:80]
    chk.fn("every macro in hy/core/result_macros.py and hy/core/macros.hy (live tables)", "hy/macros.py::pattern_macro, MacroExceptions",
           "hy/compiler.py::HyASTCompiler.compile, compile_expression, _compile_collect, _storeize, compile_dict, compile_fcomponent, hy_compile")
    chk.trust("CPython compile() as AST validator", "marshal")
    chk.bounds.update({"arity": f"0..{maxa} (exhaustive over {len(ks)} child kinds for arity<=2)", "depth": "2 for assignment targets / f-strings"})
    # canary: an AST that Python rejects with ValueError is classified BAD
    import hy.compiler as hc

    class BadNode(hm.Object):
        pass
    hc._model_compilers[BadNode] = lambda comp, d: ast.Dict(keys=[ast.Constant(1, lineno=1, col_offset=0)], values=[], lineno=1, col_offset=0,
                                                            end_lineno=1, end_col_offset=1)
    v, _ = classify(BadNode())
    del hc._model_compilers[BadNode]
    chk.canary("stub rule emitting a Dict with mismatched keys/values", v.startswith("BAD"))
    chk.sample({"head": "setv", "child_kinds": ["T:[sym sym]", "SE"], "verdict": classify(_mk(("macro", "setv", ("T:[sym sym]", "SE"))))[0]})


def replay(path):
    from hv.replay import replay_file
    return replay_file(path)
