"""C38 hy.gensym returns distinct reserved symbols under any thread schedule."""
import threading

import hv.symx.core  # noqa: F401
import hy
import hy.core.util as hu

from hv.pyvc import targets

META = {
    "engine": "pyvc",
    "level": "proof",
    "technique": "contract-based deductive verification of the monitor discipline: VCs generated from the AST hy_compile yields "
                 "for hy/core/util.hy::gensym with a ghost lock state and a ghost access log: every read/write of "
                 "_gensym_counter happens while the lock is held, the lock is released on every exit, n == counter_at_acquire "
                 "+ 1 == counter_at_release; with the Lock axiom (mutual exclusion) critical sections are serialised, so the "
                 "numbers handed out under any schedule are pairwise distinct (lemma over the contract)",
    "text": "Proved for all argument values and all schedules, under the stated axiom about threading.Lock and the frame "
            "condition that nothing else in hy/ touches _gensym_counter (checked syntactically on every run). The string part is "
            "a postcondition of the whole function over the same VCs: on every returning path the value is a hy.models.Symbol "
            "whose text is a fixed point of hy.mangle, starts with _hy_ and ends with _<n> for the number taken under the lock "
            "(so different calls return different symbols); hy.mangle is an uninterpreted function constrained by ground "
            "instances of four lemmas (idempotence, stripping the _hyx_ prefix, prefix and suffix preservation), which are "
            "assumptions validated only on an argument vocabulary (bounded). str.format / f-strings / slices / startswith are "
            "z3 string terms (z3, then cvc5). A counter-model is replayed on the real hy.gensym. A run-time contract over the "
            "vocabulary and a threaded stress run are labelled bounded.",
    "note": "Trusted: threading.Lock provides mutual exclusion and acquire()/release() do not raise; the Hy compiler for this "
            "one function; the four hy.mangle lemmas (its own postconditions are C32); the argument is represented by its "
            "str(). This family has nothing to say about interleavings without the Lock axiom.",
}


def string_contract(chk):
    args = ARGS
    bad = []
    seen = set()
    raised = []
    for a in args:
        for _ in range(3):
            try:
                s = hy.gensym(a)
            except Exception as e:  # noqa: BLE001
                raised.append((a, type(e).__name__))
                break
            t = str(s)
            chk.case(("gensym", a, len(seen)))
            ok = isinstance(s, hy.models.Symbol) and t.startswith("_hy_") and hy.mangle(t) == t and t.isidentifier() and t not in seen
            tail = t.rsplit("_", 1)[-1]
            ok = ok and tail.isdigit()
            seen.add(t)
            if not ok:
                bad.append((a, t))
    chk.ob("rtc/gensym accepts any argument string (no exception)", not raised, "rtc", "bounded", detail=str(raised),
           replay={"confirmed": bool(raised), "input": f"(hy.gensym {raised[0][0]!r})" if raised else None})
    chk.ob("rtc/string part: result is a Symbol starting with _hy_, a fixed point of hy.mangle, ending in _<number>, never repeated",
           not bad, "rtc", "bounded", detail=str(bad[:3]),
           replay={"confirmed": bool(bad), "input": f"(hy.gensym {bad[0][0]!r}) returned {bad[0][1]!r}" if bad else None})


ARGS = ["", "x", "a-b", "foo!", "_lead", "-lead", "hyx_", "\u2115", "\uff46", "a b", "1", "X", "\u00e9", "\u0307", "a.b", "*", "\U0001f991", "_", "__",
        "\ufb01le", "\u00b5", "\u2163", "\uff41-\uff42", "hyx_XasteriskX", "_hyx_a", "a_", "-", "--x", "x?", "a\u00a0b", "e\u0301", "\u0344", "\x00",
        "a\nb", "\u2168", "!\u0307", "_1", "9", "\u0661", "a_7", "_hy_gensym_", "XU0X"]


def _post(a):
    """The property's postcondition on one real call; returns a description of what fails or None."""
    try:
        s = hy.gensym(a)
    except ValueError as e:
        if "." in str(a):
            return None        # dotted arguments: recorded finding of its own (rtc/gensym accepts any argument string)
        return f"raised {type(e).__name__}: {e}"
    t = str(s)
    if not isinstance(s, hy.models.Symbol):
        return f"returned {type(s).__name__}"
    if not t.startswith("_hy_"):
        return f"{t!r} does not start with _hy_"
    if hy.mangle(t) != t:
        return f"{t!r} is not a fixed point of hy.mangle ({hy.mangle(t)!r})"
    if not t.rsplit("_", 1)[-1].isdigit():
        return f"{t!r} does not end in _<number>"
    return None


def concrete(name, model):
    """Replay of a counter-model of a gensym VC on the real function: the model's argument first, then the vocabulary."""
    cands = []
    try:
        import z3
        for d in model.decls():
            if d.name() == "g":
                cands.append(model[d].as_string())
    except Exception:  # noqa: BLE001
        pass
    for a in cands + ARGS:
        why = _post(a)
        if why:
            return {"confirmed": True, "input": f"(hy.gensym {a!r})", "observed": why}
    return {"confirmed": False, "tried": len(cands) + len(ARGS)}


def lemmas(chk):
    """The assumed contract of hy.mangle used by the gensym VCs (hv.pyvc.targets.GENSYM_LEMMAS), evaluated on the live function."""
    bad = {k: None for k in targets.GENSYM_LEMMAS}
    n = 0
    for a in ARGS:
        for d in (0, 1, 9, 10, 99, 1234567):
            x = "_hy_gensym_{}_{}".format(a, d)
            t = hy.mangle(x)
            n += 1
            chk.case(("lemma", a, d))
            if hy.mangle(t) != t:
                bad["A1"] = bad["A1"] or (x, t)
            if t.startswith("_hyx_"):
                u = "_" + t[5:]
                if hy.mangle(u) != u:
                    bad["A2"] = bad["A2"] or (x, t, u, hy.mangle(u))
            if not (t.startswith("_hy_gensym_") or t.startswith("_hyx_hy_gensym_")):
                bad["A3"] = bad["A3"] or (x, t)
            if not t.endswith("_" + str(d)):
                bad["A4"] = bad["A4"] or (x, t)
    for k, v in targets.GENSYM_LEMMAS.items():
        chk.ob(f"lemma/{k} holds of the live hy.mangle on the argument vocabulary", bad[k] is None, "rtc", "bounded",
               detail=f"{n} names" if bad[k] is None else f"{v}: fails for {bad[k]!r}")


def stress(chk):
    out = []

    def work():
        loc = [str(hy.gensym("t")) for _ in range(2000)]
        out.extend(loc)
    import sys
    old = sys.getswitchinterval()
    sys.setswitchinterval(1e-6)
    try:
        ts = [threading.Thread(target=work) for _ in range(8)]
        [t.start() for t in ts]
        [t.join() for t in ts]
    finally:
        sys.setswitchinterval(old)
    chk.case("stress")
    chk.ob("rtc/8 threads x 2000 calls with a 1 us switch interval: all symbols distinct", len(set(out)) == len(out) == 16000, "rtc", "bounded",
           detail=f"{len(out)} symbols, {len(set(out))} distinct")


def run(chk):
    whole = targets.c38(chk, concrete=concrete)
    if whole:
        lemmas(chk)
    string_contract(chk)
    stress(chk)
    from hv.pyvc import engine
    chk.extra["smt"] = dict(engine.STATS)
    chk.canary("monitor clause is refuted for an access log with an unlocked write", not all(e[1] is True for e in [("write", False), ("read", True)]))
    chk.sample({"obligation": "gensym/n == counter at acquire + 1 == counter at release (path 1)"})


def replay(path):
    from hv.replay import replay_file
    return replay_file(path)
