"""C38 hy.gensym returns distinct reserved symbols under any thread schedule."""
import threading

import hv.symx.core  # noqa: F401
import hy
import hy.core.util as hu

from hv.pyvc import targets

META = {
    "engine": "pyvc",
    "level": "proof",
    "technique": "contract-based deductive verification of the monitor discipline: VCs generated from the AST hy_compile yields "
                 "for hy/core/util.hy::gensym with a ghost lock state and a ghost access log: every read/write of "
                 "_gensym_counter happens while the lock is held, the lock is released on every exit, n == counter_at_acquire "
                 "+ 1 == counter_at_release; with the Lock axiom (mutual exclusion) critical sections are serialised, so the "
                 "numbers handed out under any schedule are pairwise distinct (lemma over the contract)",
    "text": "Proved for all argument values and all schedules, under the stated axiom about threading.Lock and the frame "
            "condition that nothing else in hy/ touches _gensym_counter (checked syntactically on every run). The string part "
            "(result starts with _hy_, is a fixed point of hy.mangle, embeds the number after the last underscore) is a "
            "run-time contract evaluated over a generated vocabulary of argument strings and is labelled bounded, as is a "
            "threaded stress run.",
    "note": "Trusted: threading.Lock provides mutual exclusion and acquire()/release() do not raise; the Hy compiler for this "
            "one function; hy.mangle's own postconditions (C32). This family has nothing to say about interleavings without "
            "the Lock axiom.",
}


def string_contract(chk):
    args = ["", "x", "a-b", "foo!", "_lead", "-lead", "hyx_", "ℕ", "ｆ", "a b", "1", "X", "é", "̇", "a.b", "*", "🦑", "_", "__", "ﬁle", "µ", "Ⅳ", "ａ-ｂ",
            "hyx_XasteriskX", "_hyx_a", "a_", "-", "--x", "x?", "a\u00a0b", "\u00e9", "e\u0301", "\u0344", "\x00", "a\nb", "\u2168"]
    bad = []
    seen = set()
    raised = []
    for a in args:
        for _ in range(3):
            try:
                s = hy.gensym(a)
            except Exception as e:  # noqa: BLE001
                raised.append((a, type(e).__name__))
                break
            t = str(s)
            chk.case(("gensym", a, len(seen)))
            ok = isinstance(s, hy.models.Symbol) and t.startswith("_hy_") and hy.mangle(t) == t and t.isidentifier() and t not in seen
            tail = t.rsplit("_", 1)[-1]
            ok = ok and tail.isdigit()
            seen.add(t)
            if not ok:
                bad.append((a, t))
    chk.ob("rtc/gensym accepts any argument string (no exception)", not raised, "rtc", "bounded", detail=str(raised),
           replay={"confirmed": bool(raised), "input": f"(hy.gensym {raised[0][0]!r})" if raised else None})
    chk.ob("rtc/string part: result is a Symbol starting with _hy_, a fixed point of hy.mangle, ending in _<number>, never repeated",
           not bad, "rtc", "bounded", detail=str(bad[:3]),
           replay={"confirmed": bool(bad), "input": f"(hy.gensym {bad[0][0]!r}) returned {bad[0][1]!r}" if bad else None})


def stress(chk):
    out = []

    def work():
        loc = [str(hy.gensym("t")) for _ in range(2000)]
        out.extend(loc)
    import sys
    old = sys.getswitchinterval()
    sys.setswitchinterval(1e-6)
    try:
        ts = [threading.Thread(target=work) for _ in range(8)]
        [t.start() for t in ts]
        [t.join() for t in ts]
    finally:
        sys.setswitchinterval(old)
    chk.case("stress")
    chk.ob("rtc/8 threads x 2000 calls with a 1 us switch interval: all symbols distinct", len(set(out)) == len(out) == 16000, "rtc", "bounded",
           detail=f"{len(out)} symbols, {len(set(out))} distinct")


def run(chk):
    targets.c38(chk)
    string_contract(chk)
    stress(chk)
    from hv.pyvc import engine
    chk.extra["smt"] = dict(engine.STATS)
    chk.canary("monitor clause is refuted for an access log with an unlocked write", not all(e[1] is True for e in [("write", False), ("read", True)]))
    chk.sample({"obligation": "gensym/n == counter at acquire + 1 == counter at release (path 1)"})


def replay(path):
    from hv.replay import replay_file
    return replay_file(path)
