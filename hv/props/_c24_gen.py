"""C24 helper: f-string *structures*, their renderings and an independent denotation.

A structure is a list of parts, each a `Lit` (literal text made of chunks, every chunk with the string it denotes and
its spelling) or a `Field` (expression, blanks, `=` debugging, conversion, format spec whose parts are again literal
chunks or fields).  From one structure this module renders

  hy_src(st, form)   the Hy source: form "quoted" f"...", "raw" rf"..." or "bracket" #[f[...]f] (raw text)
  py_src(st)         the equivalent Python f-string source (escape spellings kept in the quoted form, so that CPython is
                     also the oracle of the escape decoding); `=` is written as Python's `=` when the expression is spelled
                     identically in both languages, otherwise as its documented expansion (text + `!r` default)
  denote(st, ns)     the string by the reference semantics of the Python language reference (section 2.4.3 /
                     "f-strings"): literal text, then for each field  format(conv(value), spec)  with `=` prefixing the
                     expression text as written, including the blanks around it

and the expected reader output (components), written from docs/syntax.rst.  Nothing here imports hy.
"""
import itertools
import random


# ------------------------------------------------------------------------------------------------
# structures
# ------------------------------------------------------------------------------------------------
class Chunk:
    """value: the text denoted; q: spelling inside a Hy f"..." (escapes processed); py: spelling inside a Python f"..." ;
    cls: the literal-text class used in obligation names"""
    __slots__ = ("value", "q", "py", "cls")

    def __init__(self, value, q=None, py=None, cls="plain"):
        self.value, self.q, self.cls = value, value if q is None else q, cls
        self.py = self.q if py is None else py

    def __repr__(self):
        return f"Chunk({self.value!r},{self.q!r})"


class Lit:
    __slots__ = ("chunks",)

    def __init__(self, chunks):
        self.chunks = list(chunks)

    @property
    def value(self):
        return "".join(c.value for c in self.chunks)

    def __repr__(self):
        return f"Lit({self.chunks})"


class Expr:
    """hy / py spelling of one expression; same: the two spellings are character-identical"""
    __slots__ = ("hy", "py", "kind", "tight", "v")

    def __init__(self, hy, py=None, kind="name", v=False):
        self.hy, self.py, self.kind = hy, hy if py is None else py, kind
        # v: the value is a V object, whose __format__ accepts (and records) any format spec
        self.v = v
        # tight: the Hy form ends with a closing delimiter, so `=`, `!` or `:` may follow without a blank
        self.tight = hy[-1] in ')]"}'

    @property
    def same(self):
        return self.hy == self.py


class Field:
    __slots__ = ("expr", "sb", "sm", "dbg", "conv", "sc", "spec")

    def __init__(self, expr, sb="", sm="", dbg=None, conv=None, sc="", spec=None):
        # sb blanks before the expression, sm blanks after it, dbg None or the blanks after `=`, conv None/s/r/a,
        # sc blanks after the conversion, spec None or a list of Chunk / Field
        self.expr, self.sb, self.sm, self.dbg, self.conv, self.sc, self.spec = expr, sb, sm, dbg, conv, sc, spec

    def __repr__(self):
        return (f"Field({self.expr.hy!r}, sb={self.sb!r}, sm={self.sm!r}, dbg={self.dbg!r}, conv={self.conv!r}, "
                f"sc={self.sc!r}, spec={self.spec!r})")


def depth(f):
    """nesting depth of fields inside the format spec of f (0: no nested field)"""
    if not f.spec:
        return 0
    return max([1 + depth(p) for p in f.spec if isinstance(p, Field)] or [0])


def spec_kind(f):
    if f.spec is None:
        return "none"
    if not f.spec:
        return "empty"
    nf = [p for p in f.spec if isinstance(p, Field)]
    if not nf:
        return "literal"
    d = depth(f)
    if d >= 2:
        return "nested-2"
    if len(f.spec) == 1:
        return "nested-1"
    return "mixed"


SPEC_KINDS = ("none", "empty", "literal", "nested-1", "mixed", "nested-2")
CONVS = (None, "s", "r", "a")
FORMS = ("quoted", "raw", "bracket")


def fields_of(st):
    for p in st:
        if isinstance(p, Field):
            yield p


def all_fields(st):
    for p in st:
        if isinstance(p, Field):
            yield p
            yield from all_fields(p.spec or [])


def has_nested_debug(st):
    return any(g.dbg is not None for f in fields_of(st) for g in all_fields(f.spec or []))


def has_spec_named(st):
    return any(isinstance(c, Chunk) and c.cls == "named-escape" for f in all_fields(st) for c in (f.spec or []))


# ------------------------------------------------------------------------------------------------
# vocabulary
# ------------------------------------------------------------------------------------------------
def literal_chunks():
    P = lambda v: Chunk(v, cls="plain")
    out = {
        "plain": [P("a"), P("text "), P(" "), P("Zq"), P("0"), P("N")],
        "unicode": [Chunk("é", cls="unicode"), Chunk("😀", cls="unicode"), Chunk("λx", cls="unicode"), Chunk("\u2028", "\\u2028", cls="unicode")],
        "punctuation": [Chunk(c, cls="punctuation") for c in ("'", "#", ";", "[", "]", "(", ")", ":", "!", "=", "!r", " :>5", "~@", "#[")],
        "left-brace": [Chunk("{", "{{", cls="left-brace")],
        "right-brace": [Chunk("}", "}}", cls="right-brace")],
        "named-escape": [Chunk("•", "\\N{BULLET}", cls="named-escape"),
                         Chunk("é", "\\N{LATIN SMALL LETTER E WITH ACUTE}", cls="named-escape"),
                         Chunk("—", "\\N{EM DASH}", cls="named-escape"),
                         Chunk("•", "\\N{bullet}", cls="named-escape"),
                         Chunk("\n", "\\N{LF}", cls="named-escape")],
        "escape": [Chunk("\n", "\\n", cls="escape"), Chunk("\t", "\\t", cls="escape"), Chunk("\\", "\\\\", cls="escape"),
                   Chunk('"', '\\"', cls="escape"), Chunk("'", "\\'", cls="escape"), Chunk("A", "\\x41", cls="escape"),
                   Chunk("é", "\\u00e9", cls="escape"), Chunk("😀", "\\U0001F600", cls="escape"), Chunk("A", "\\101", cls="escape"),
                   Chunk("\0", "\\000", cls="escape"), Chunk("\a", "\\a", cls="escape"), Chunk("", "\\\n", cls="escape"),
                   Chunk("\r", "\\r", cls="escape"), Chunk("\x7f", "\\x7f", cls="escape")],
        # an escaped backslash followed by N: what follows is a replacement field, not a named escape
        "escaped-backslash-N": [Chunk("\\N", "\\\\N", cls="escaped-backslash-N"), Chunk("\\\\N", "\\\\\\\\N", cls="escaped-backslash-N")],
        "newline": [Chunk("\n", "\n", "\\n", cls="newline"), Chunk("\n\n", "\n\n", "\\n\\n", cls="newline")],
    }
    return out


LIT = literal_chunks()
LIT_CLASSES = tuple(LIT)


def spec_chunks():
    S = lambda v, q=None, cls="spec-plain": Chunk(v, q, cls=cls)
    return {
        "str-ok": [S(">14"), S("^20"), S("<9"), S("*>16"), S(".3"), S("12.4")],     # valid for str (after a conversion)
        "free": [S("abc"), S("%Y:%m"), S(" >5 "), S("a:b"), S("!r"), S("="), S("x=!s:"), S("é"), S("#"), S(";c"), S("'"), S("(")],
        "escape": [S("\n", "\\n"), S("A", "\\x41"), S("é", "\\u00e9"), S("\\", "\\\\"), S("\t>8", "\\t>8")],
        "named": [Chunk("•", "\\N{BULLET}", cls="named-escape")],
    }


SPEC = spec_chunks()


def expressions():
    E = Expr
    return [
        E("x", v=True), E("y", v=True), E("w", kind="name"), E("x.n", kind="attribute", v=True), E("x.inner.n", kind="attribute", v=True),
        E("(f x)", "f(x)", "call", v=True), E("(f w p)", "f(w, p)", "call", v=True), E("(x.m w)", "x.m(w)", "call", v=True),
        E("(.m x p)", "x.m(p)", "call", v=True), E("(f :k w)", "f(k=w)", "call", v=True), E("(f)", "f()", "call", v=True),
        E("42", kind="number"), E("3.5", kind="number"), E("0x1F", kind="number"), E("1_000", kind="number"), E("-7", kind="number"),
        E("1e3", kind="number"), E("2j", kind="number"),
        E('"lit"', kind="string"), E('"a}b{c"', kind="string"), E('"k:!=v"', kind="string"), E('""', kind="string"),
        E("foo-bar", "foo_bar", "mangled", v=True), E("is-ok?", "hyx_is_okXquestion_markX", "mangled", v=True), E("λ", kind="name", v=True),
        E("foo_bar", kind="name", v=True), E("None", kind="name"), E("True", kind="name"),
        E("(+ w 1)", "(w + 1)", "operator"), E("(* w p)", "w * p", "operator"), E("(< 1 w 9)", "(1 < w < 9)", "operator"),
        E("[w p]", "[w, p]", "display"), E("#(w x)", "(w, x)", "display"), E('{"k" w}', '({"k": w})', "display"), E("[]", kind="display"),
        E('(get d "k")', 'd["k"]', "subscript", v=True), E("(if w x y)", "(x if w else y)", "conditional", v=True),
        E("(lfor i (range p) (* i w))", "[i * w for i in range(p)]", "comprehension"),
        E("(do (f 1) x)", "(f(1), x)[1]", "do", v=True), E("(setx z w)", "(z := w)", "walrus"),
        # an f-string inside a field: the `=` text of the outer field must contain the inner field's source text
        # (Python 3.12 reads the same spelling: PEP 701)
        E('f"<{w}>"', kind="nested-fstring"), E('f"{w !r :>{p}}|{x}"', 'f"{w !r:>{p}}|{x}"', "nested-fstring"),
        E('(+ "n" f"{w}")', '("n" + f"{w}")', "nested-fstring"),
        E("(fn [] x)", None, "hy-only"),
    ]


EXPRS = [e for e in expressions() if e.py is not None and e.kind != "hy-only"]
# expressions used inside format specs: integers (usable as width/precision) and strings
NEST_INT = [Expr("w"), Expr("p"), Expr("(+ w p)", "(w + p)", "operator"), Expr("12", kind="number"), Expr("(g w)", "g(w)", "call"),
            # statement-producing forms inside a spec: their statements run after those of the field's own value, as in Python
            Expr("(do (g 1) w)", "(g(1), w)[1]", "do"), Expr("(do (setv z2 (g p)) z2)", "(z2 := g(p))", "do")]
NEST_STR = [Expr('">"', kind="string"), Expr("fill", kind="name"), Expr('(+ "" fill)', '("" + fill)', "operator"),
            Expr("(do (g 2) fill)", "(g(2), fill)[1]", "do")]

BLANKS = ["", " ", "  ", "\t", "\n", " \t ", "\n  "]


# ------------------------------------------------------------------------------------------------
# namespace of values with distinguishable __str__/__repr__/__format__ (the spec received is recorded)
# ------------------------------------------------------------------------------------------------
class V:
    def __init__(self, name, log):
        self._n, self._log = name, log

    def __str__(self):
        self._log.append(("str", self._n))
        return f"<S:{self._n}>"

    def __repr__(self):
        self._log.append(("repr", self._n))
        return f"<R:{self._n}:é•>"

    def __format__(self, spec):
        self._log.append(("format", self._n, spec))
        return f"<F:{self._n}:[{spec}]>"

    @property
    def n(self):
        self._log.append(("attr", self._n, "n"))
        return V(self._n + ".n", self._log)

    @property
    def inner(self):
        return V(self._n + ".inner", self._log)

    def m(self, a):
        self._log.append(("call", self._n + ".m", repr(a) if isinstance(a, int) else "obj"))
        return V(f"{self._n}.m({a if isinstance(a, int) else 'obj'})", self._log)

    def __bool__(self):
        return True


def make_ns():
    log = []

    def f(*a, **k):
        log.append(("call", "f", len(a), sorted(k)))
        return V(f"f/{len(a)}/{len(k)}", log)

    def g(n):
        log.append(("call", "g", n))
        return n + 2

    ns = {"x": V("x", log), "y": V("y", log), "w": 7, "p": 3, "f": f, "g": g, "d": {"k": V("dk", log)}, "fill": "*",
          "foo_bar": V("foo-bar", log), "hyx_is_okXquestion_markX": V("is-ok?", log), "λ": V("lambda", log), "range": range,
          "__name__": "hv_c24_ns"}
    return ns, log


# ------------------------------------------------------------------------------------------------
# renderings
# ------------------------------------------------------------------------------------------------
class Unrenderable(Exception):
    pass


def _raw_text(value):
    return value.replace("{", "{{").replace("}", "}}")


def _chunk_hy(c, form):
    if form == "quoted":
        return c.q
    if "\r" in c.value or "\0" in c.value:
        raise Unrenderable("raw text cannot hold this character")
    if form == "raw" and '"' in c.value:
        raise Unrenderable("a raw quoted string cannot hold a double quote")
    return _raw_text(c.value)


def _field_hy(f, form):
    e = f.expr
    out = "{" + effective_sb(f) + e.hy + effective_sm(f)
    if f.dbg is not None:
        out += "=" + f.dbg
    if f.conv is not None:
        out += "!" + f.conv + f.sc
    if f.spec is not None:
        out += ":" + "".join(_field_hy(p, form) if isinstance(p, Field) else _chunk_hy(p, form) for p in f.spec)
    return out + "}"


def effective_sm(f):
    """docs/syntax.rst: whitespace may be necessary to terminate the form (`=`, `!` and `:` are identifier characters)"""
    follows = f.dbg is not None or f.conv is not None or f.spec is not None
    return " " if (follows and not f.expr.tight and not f.sm) else f.sm


def effective_sb(f):
    """`{{` is an escaped brace, so a form that starts with a brace needs a blank before it (as in Python)"""
    return " " if (f.expr.hy.startswith("{") and not f.sb) else f.sb


def body_hy(st, form):
    out = []
    for p in st:
        if isinstance(p, Lit):
            out.append("".join(_chunk_hy(c, form) for c in p.chunks))
        else:
            out.append(_field_hy(p, form))
    return "".join(out)


def hy_src(st, form, delim="f", lead_newline=False):
    body = body_hy(st, form)
    if form == "quoted":
        return 'f"' + body + '"'
    if form == "raw":
        # a backslash before the closing quote (or before a quote) would escape it
        if body.endswith("\\") or '\\"' in body:
            raise Unrenderable("backslash before a quote in a raw string")
        return ('rf"' if not lead_newline else 'fr"') + body + '"'
    close = "]" + delim + "]"
    if close in body + close[:-1] or (body.startswith("\n") and not lead_newline):
        raise Unrenderable("bracket string content closes early / starts with a newline")
    return "#[" + delim + "[" + ("\n" if lead_newline else "") + body + close


def _py_escape(text):
    """Python spelling, inside f"...", of literal text"""
    out = []
    for ch in text:
        if ch == "{":
            out.append("{{")
        elif ch == "}":
            out.append("}}")
        elif ch == "\\":
            out.append("\\\\")
        elif ch == '"':
            out.append('\\"')
        elif ch == "\n":
            out.append("\\n")
        elif ch == "\t":
            out.append("\\t")
        elif ch == "\r":
            out.append("\\r")
        elif ord(ch) < 32 or ord(ch) == 127:
            out.append("\\x%02x" % ord(ch))
        else:
            out.append(ch)
    return "".join(out)


def _chunk_py(c, form, in_spec=False):
    if form == "quoted":
        return c.py
    return _py_escape(c.value) if not in_spec else _py_escape(c.value).replace("{{", "{'{'}").replace("}}", "{'}'}")


def debug_text(f):
    return effective_sb(f) + f.expr.hy + effective_sm(f) + "=" + f.dbg


def _field_py(f, form, nested=False):
    e = f.expr
    pre = ""
    native_dbg = f.dbg is not None and e.same and not nested
    if native_dbg:
        out = "{" + effective_sb(f) + e.py + effective_sm(f) + "=" + f.dbg
        conv = f.conv
    else:
        out = "{" + e.py
        conv = f.conv
        if f.dbg is not None:
            pre = _py_escape(debug_text(f))
            if nested:
                # inside a format spec literal braces cannot be escaped in Python; no generated debug text holds any
                assert "{" not in debug_text(f) and "}" not in debug_text(f)
            if conv is None and f.spec is None:
                conv = "r"
    if conv is not None:
        out += "!" + conv
    if f.spec is not None:
        out += ":" + "".join(_field_py(p, form, True) if isinstance(p, Field) else _chunk_py(p, form, True) for p in f.spec)
    return pre + out + "}"


def py_src(st, form="quoted"):
    out = []
    for p in st:
        if isinstance(p, Lit):
            out.append("".join(_chunk_py(c, form) for c in p.chunks))
        else:
            out.append(_field_py(p, form))
    return 'f"' + "".join(out) + '"'


def py_expressible(st):
    """Python (3.12) limits the nesting of replacement fields to two levels inside a format spec"""
    return all(depth(f) <= 2 for f in fields_of(st))


# ------------------------------------------------------------------------------------------------
# reference denotation
# ------------------------------------------------------------------------------------------------
def _conv(v, c):
    return {None: lambda v: v, "s": str, "r": repr, "a": ascii}[c](v)


def _den_field(f, ns):
    v = eval(f.expr.py, ns)                    # noqa: S307 - the vocabulary above
    spec = None
    if f.spec is not None:
        spec = "".join(_den_field(p, ns) if isinstance(p, Field) else p.value for p in f.spec)
    conv = f.conv
    pre = ""
    if f.dbg is not None:
        pre = debug_text(f)
        if conv is None and spec is None:
            conv = "r"
    return pre + format(_conv(v, conv), spec or "")


def denote(st, ns):
    return "".join(p.value if isinstance(p, Lit) else _den_field(p, ns) for p in st)


# ------------------------------------------------------------------------------------------------
# expected reader output (docs/syntax.rst + FComponent docstring)
# ------------------------------------------------------------------------------------------------
def expected_field_components(f):
    """what read_fcomponent returns for the field: [("S", debug text)]? + [("F", expr text, conversion, spec components)]"""
    out = []
    conv = f.conv
    if f.dbg is not None:
        out.append(("S", debug_text(f)))
        if conv is None and f.spec is None:
            conv = "r"
    # (FComponent joins the adjacent strings of its format spec - the literal before a nested debug field and that field's verbatim
    # text - just as FString joins its own: the model is then equal to the one read back from its printed form, C25)
    out.append(("F", f.expr.hy, conv, expected_components(f.spec or [], join=True)))
    return out


def expected_components(parts, join=False):
    """the component list of read_fcomponents_until: one String per maximal run of literal text between fields (none when
    the run denotes the empty string), the components of every field in order; join=True additionally joins adjacent
    strings (FString.__new__)"""
    out, run = [], None

    def flush():
        nonlocal run
        if run:
            out.append(("S", run))
        run = None

    for p in parts:
        if isinstance(p, Field):
            flush()
            out.extend(expected_field_components(p))
        else:
            v = p.value
            run = (run or "") + v
    flush()
    if join:
        j = []
        for c in out:
            if c[0] == "S" and j and j[-1][0] == "S":
                j[-1] = ("S", j[-1][1] + c[1])
            else:
                j.append(c)
        out = j
    return out


# ------------------------------------------------------------------------------------------------
# generators
# ------------------------------------------------------------------------------------------------
def spec_mode(e, conv):
    """which specs the formatted value accepts: after a conversion it is a str; a V object accepts (and records) any
    text; for other values only fill/align/width are used (lists, None etc. reject every non-empty spec with a TypeError,
    which must then be raised by both sides)"""
    return "str" if conv is not None else "free" if e.v else "num"


def make_spec(kind, i, mode):
    """a format spec of the given kind; i selects variants deterministically"""
    r = random.Random(i * 7919 + SPEC_KINDS.index(kind))
    strict = mode != "free"
    lit_pool = {"str": SPEC["str-ok"], "num": SPEC["str-ok"][:4], "free": SPEC["str-ok"] + SPEC["free"] + SPEC["escape"]}[mode]

    def width():
        e = NEST_INT[r.randrange(len(NEST_INT))]
        return Field(e, sb=r.choice(["", " "]), sm=r.choice(["", " "]))

    if kind == "none":
        return None
    if kind == "empty":
        return []
    if kind == "literal":
        return [lit_pool[i % len(lit_pool)]]
    if kind == "nested-1":
        return [width()]
    if kind == "mixed":
        v = i % 4
        if v == 0:
            return [Chunk(">"), width()]
        if v == 1:
            return [Chunk("^"), width(), Chunk("."), width()] if mode != "num" else [Chunk("^"), width()]
        if v == 2:
            return [Field(NEST_STR[i // 4 % len(NEST_STR)]), Chunk("<"), width()]
        if mode == "num":
            return [Chunk("0"), Field(Expr("p"), conv=r.choice([None, "s", "r"]))]
        return [width(), Chunk("."), Field(Expr("p"), conv=r.choice([None, "s", "r"]))]
    if kind == "nested-2":
        v = i % 3
        inner = Field(NEST_INT[r.randrange(2)], sb=r.choice(["", " "]))
        if v == 0 and not strict:        # {w :{p}} : format(7, "3") -> "  7" reaches V.__format__
            return [Field(Expr("w"), spec=[inner])]
        if v == 1 or v == 0:             # ">" + format(9, "07") -> ">0000009"
            return [Chunk(">"), Field(Expr("(g w)", "g(w)", "call"), conv=None, spec=[Chunk("0"), inner])]
        return [Chunk("^"), Field(Expr("w"), conv="s", spec=[Chunk("0>"), inner])] + ([Chunk(".9")] if mode != "num" else [])
    raise ValueError(kind)


def systematic_fields(full):
    """a Field for every conversion x debug x spec kind x expression; blank layouts rotate: 1 of 54 (quick) or 27 of 54
    (thorough) per combination"""
    k = 0
    layouts = [(sb, sm, sa, sc) for sb in ("", " ", "\n") for sm in ("", " ", "\t ") for sa in ("", " ", "  \n") for sc in ("", " ")]
    for conv, dbg, kind in itertools.product(CONVS, (False, True), SPEC_KINDS):
        for ei, e in enumerate(EXPRS):
            ls = layouts[(ei + k) % 2::2] if full else [layouts[(k * 5) % len(layouts)]]
            for (sb, sm, sa, sc) in ls:
                k += 1
                spec = make_spec(kind, k, spec_mode(e, conv))
                yield Field(e, sb=sb, sm=sm, dbg=sa if dbg else None, conv=conv, sc=sc if conv else "", spec=spec)


def statement_order_fields():
    """a field whose value AND whose nested spec fields are statement-producing forms (do with several forms, setx): the statements of
    the value run first, then those of the spec fields from left to right, as the Python f-string evaluates them"""
    stm_vals = [e for e in EXPRS if e.kind in ("do", "walrus")] + [Expr("(do (setv z3 (f w)) z3)", "(z3 := f(w))", "do", v=True)]
    stm_int = [e for e in NEST_INT if e.kind == "do"]
    stm_str = [e for e in NEST_STR if e.kind == "do"]
    for e in stm_vals:
        for conv in (None, "r"):
            for n1 in stm_int:
                yield Field(e, conv=conv, sc=" " if conv else "", spec=[Chunk(">"), Field(n1)])
                for n2 in stm_str:
                    yield Field(e, conv=conv, sc=" " if conv else "", spec=[Field(n2), Chunk("<"), Field(n1)])
            if conv is None and e.v:
                yield Field(e, spec=[Field(stm_int[0]), Chunk("."), Field(stm_int[-1])])


def contexts(f, i):
    """structures placing field f: alone, between literal text, next to brace escapes, next to another field"""
    a = LIT["plain"][i % len(LIT["plain"])]
    yield "alone", [f]
    yield "between-literals", [Lit([a]), f, Lit([Chunk("é"), Chunk("}", "}}", cls="right-brace")])]
    yield "after-left-brace", [Lit([Chunk("{", "{{", cls="left-brace")]), f, Lit([Chunk("}", "}}", cls="right-brace")])]
    yield "two-fields", [f, Field(Expr("y"), conv=("r", None, "s")[i % 3]), Lit([Chunk("!")])]


def literal_structures(full):
    """structures exercising every literal chunk, alone, doubled, around a field and in pairs"""
    fx = lambda: Field(Expr("x"))
    allc = [c for cl in LIT_CLASSES for c in LIT[cl]]
    for c in allc:
        yield [Lit([c])]
        yield [Lit([c, c])]
        yield [Lit([c]), fx()]
        yield [fx(), Lit([c])]
        yield [fx(), Lit([c]), Field(Expr("y"), conv="r")]
    pairs = list(itertools.product(allc, repeat=2))
    if not full:
        pairs = pairs[::13]
    for a, b in pairs:
        yield [Lit([a, b])]
        yield [Lit([a]), fx(), Lit([b])]
    yield []


def random_structure(r, max_parts=5):
    n = r.randint(1, max_parts)
    st = []
    allc = [c for cl in LIT_CLASSES for c in LIT[cl]]
    for _ in range(n):
        if r.random() < 0.45:
            st.append(Lit([r.choice(allc) for _ in range(r.randint(1, 3))]))
        else:
            conv = r.choice(CONVS)
            kind = r.choice(SPEC_KINDS)
            dbg = r.choice(BLANKS) if r.random() < 0.4 else None
            e = r.choice(EXPRS)
            f = Field(e, sb=r.choice(BLANKS), sm=r.choice(BLANKS), dbg=dbg, conv=conv, sc=r.choice(["", " ", "\n"]) if conv else "",
                      spec=make_spec(kind, r.randrange(10 ** 6), spec_mode(e, conv)))
            if f.spec and r.random() < 0.25:
                # `=` debugging inside a nested field
                for g in f.spec:
                    if isinstance(g, Field) and g.spec is None and g.conv is None:
                        g.dbg, g.sm = r.choice(["", " "]), " "
                        g.conv = "s" if g.expr.kind == "string" or g.expr.hy == "fill" else None
                        break
            st.append(f)
    # merge adjacent Lits (a structure never has two adjacent literal parts)
    out = []
    for p in st:
        if isinstance(p, Lit) and out and isinstance(out[-1], Lit):
            out[-1] = Lit(out[-1].chunks + p.chunks)
        else:
            out.append(p)
    return out


def signature(f):
    return f"conv={f.conv or 'none'}/debug={'yes' if f.dbg is not None else 'no'}/spec={spec_kind(f)}"


ALL_SIGNATURES = [f"conv={c or 'none'}/debug={d}/spec={k}" for c in CONVS for d in ("no", "yes") for k in SPEC_KINDS]


def lit_classes(st):
    return sorted({c.cls for p in st if isinstance(p, Lit) for c in p.chunks})


# ------------------------------------------------------------------------------------------------
# malformed fields (Hy spellings).  Each entry: (class, variant name, field text incl. braces, needs_eof)
# ------------------------------------------------------------------------------------------------
def malformed_fields():
    M = []
    add = lambda cls, name, text: M.append((cls, name, text))
    for b in ("", " ", "\t", "\n", "  "):
        add("empty-field", f"blanks={b!r}", "{" + b + "}")
    add("empty-field", "only a discarded form", "{#_ x}")
    add("empty-field", "only a comment", "{; c\n}")
    add("empty-field", "closing bracket instead of a form", "{)}")
    for c in ("z", "R", "S", "A", "1", "x", "é", "!", ":", "=", "-", "_", "?", "•", "ſ", "ｒ"):
        add("bad-conversion-character", f"!{c}", "{x !" + c + "}")
        add("bad-conversion-character", f"!{c} with a spec", "{x !" + c + " :>9}")
        add("bad-conversion-character", f"!{c} after =", "{x = !" + c + "}")
    add("bad-conversion-character", "blank", "{x ! }")
    add("bad-conversion-character", "blank then r", "{x ! r}")
    add("bad-conversion-character", "closing brace taken as the character", "{x !}}")
    add("bad-conversion-character", "newline", "{x !\n}")
    for c in ("rr", "rs", "ra", "r!s", "sx", "r1", "a_"):
        add("conversion-longer-than-one-character", f"!{c}", "{x !" + c + "}")
        add("conversion-longer-than-one-character", f"!{c} with a spec", "{x !" + c + ":>9}")
    add("bang-without-character", "!}", "{x !}")
    add("bang-without-character", "(f x)!}", "{(f x)!}")
    add("bang-without-character", "! before a spec", "{x !:>9}")
    add("bang-without-character", "! after =", "{x = !}")
    for t in ("{x y}", "{x 1}", '{x "s"}', "{x (f)}", "{x !r y}", "{x !r !s}", "{x = y}", "{x = = }", "{x !r =}", "{x , }", "{x ]}",
              "{x )}", "{(f x) y}", "{x ; c\n y}", "{x #_ y z}", "{x = !r = }", "{1 2 3}", "{x\ny}",
              # junk of one character before an escaped closing brace: dropping the junk would leave a well-formed string
              "{x y}}", "{x !r y}}", "{x = y}}", "{x 1}}}", "{(f x) y}}", "{x !s :>9}y}", "{x y}}{y}"):
        add("trailing-junk", t.replace("\n", "\\n"), t)
    return M


def malformed_unclosed():
    """fields whose closing brace is missing: the string's own closing delimiter (or the end of input) comes first"""
    return [("missing-closing-brace", n, t) for n, t in [
        ("after the expression and a blank", "{x "), ("after a parenthesised expression", "{(f x)"), ("after a conversion", "{x !r"),
        ("after = ", "{x = "), ("inside a format spec", "{x :>9"), ("after a nested field", "{x :{w}"), ("inside a nested field", "{x :{w "),
        ("after a nested conversion", "{x :{w !r"), ("after conversion and blanks", "{x !s  ")]]


def malformed_single_close():
    """literal text with a single closing brace"""
    return [("single-closing-brace", n, t) for n, t in [
        ("alone", "}"), ("in text", "a}b"), ("after a field", "{x}}"), ("after an escaped pair", "}}}"), ("after an escaped opener", "{{}"),
        ("before a field", "}{x}"), ("after a field's spec", "{x :>9}}"), ("after a nested field", "{x :{w}}}"), ("at the end after text", "ab}"),
        ("after a named escape", "\\N{BULLET}}")]]
