"""C16 compile-time staging: eval-and-compile, eval-when-compile, do-mac."""
import ast
import contextlib
import types

import hy
from hy.errors import HyEvalError, HyInternalError, HySyntaxError
from hy.models import Expression, Integer, List, String, Symbol

from hv import equiv, rules
from hv.symx import core as sx
from hv.symx.core import E, S, Tok

META = {
    "engine": "symx+pysem",
    "level": "proof",
    "technique": "contract-based: compile_eval_foo_compile and compile_macro_def are executed symbolically with "
                 "HyASTCompiler.eval replaced by its contract (a counting, scripted callee) and opaque body forms; "
                 "postconditions: eval called exactly once with (do body...), emission empty / == do body / == compile of the "
                 "promoted value, error classification",
    "text": "For the three staging heads, every body-shape vector (<=3 forms) and every outcome of the compile-time "
            "evaluation (value, Hy error, other exception, internal error) the real rule is run with compiler.eval cut at its "
            "contract: it is called exactly once, with (do body...); eval-when-compile emits nothing (hence nothing runs from "
            "bytecode), eval-and-compile emits code trace-equivalent to (do body...) with the last value as result, do-mac "
            "emits exactly the compilation of the promoted value; ordinary exceptions surface as HyEvalError and internal "
            "errors propagate. defmacro: module-level definitions go through eval-and-compile, local ones register the "
            "evaluated function under mangle(name) and emit the local binding.",
    "note": "Trusted: HyASTCompiler.eval evaluates its argument once in the module namespace (its body is a call of hy_eval: "
            "C39); pysem/hysem; a bounded end-to-end run (compile once, execute the code object twice) cross-checks the "
            "composition and is labelled bounded.",
}

B = ("E", "SE", "S")
CALLS = []


VALUES = {
    "list": [1, "two"], "zero": 0, "float-zero": 0.0, "false": False, "true": True, "empty-string": "", "empty-bytes": b"",
    "empty-list": [], "empty-tuple": (), "empty-dict": {}, "none": None, "symbol": Symbol("u_sym"), "int-model": Integer(0),
    "string-model": String(""), "quoted-call": Expression([Symbol("u_f"), Integer(1)]),
}


EVAL_AT = []


def _replay_do_mac(vname, val):
    """Through the whole pipeline: (do-mac 'VALUE) evaluated by hy.eval must give what evaluating the promoted value gives."""
    import types
    try:
        form = Expression([Symbol("do-mac"), Expression([Symbol("quote"), hy.as_model(val)])])
        ns = {"u_sym": "S", "u_f": lambda x: ("called", x)}
        got = hy.eval(form, dict(ns), module=types.ModuleType("hv_c16r"))
        want = hy.eval(hy.as_model(val), dict(ns), module=types.ModuleType("hv_c16r"))
        same = type(got) is type(want) and (got == want or (got != got and want != want))
        return {"confirmed": not same, "input": hy.repr(form).lstrip("'"), "observed": repr(got), "expected": repr(want)}
    except Exception as e:  # noqa: BLE001
        return {"confirmed": False, "error": f"{type(e).__name__}: {e}"[:200]}


def stub_eval(outcome, value=None):
    def ctx(comp):
        @contextlib.contextmanager
        def cm():
            del CALLS[:]
            del EVAL_AT[:]

            def ev(model):
                CALLS.append(model)
                EVAL_AT.append(len(sx.TOK_COMPILE_LOG))      # how many body forms had been compiled for run time by then
                if outcome == "value":
                    return [1, "two"] if value is None else VALUES[value]
                if outcome == "hy-error":
                    raise HySyntaxError("scripted", None, None, None)
                if outcome == "other":
                    raise ZeroDivisionError("scripted")
                raise HyInternalError("scripted")
            comp.eval = ev
            yield
        return cm()
    return ctx


def staged_in_lambda_lists(chk):
    """eval-and-compile whose run-time half needs statements, written where the compiler has to hoist them out of a lambda list:
    the default of a parameter of each kind, an annotation, a decorator.  The body runs once at compile time and once when the
    definition executes; the value is the last form's."""
    import types
    places = {
        "default of a positional-only parameter": ('(defn g [[p (eval-and-compile (.append log "x") 5)] /] p)', "(g)"),
        "default of an ordinary parameter": ('(defn g [[p (eval-and-compile (.append log "x") 5)]] p)', "(g)"),
        "default of a keyword-only parameter": ('(defn g [* [p (eval-and-compile (.append log "x") 5)]] p)', "(g)"),
        "default of a keyword-only parameter after #*": ('(defn g [#* r [p (eval-and-compile (.append log "x") 5)]] p)', "(g)"),
        "default of a keyword-only parameter of fn": ('(setv g (fn [a * [p (eval-and-compile (.append log "x") 5)]] p))', "(g 1)"),
        "default that needs a temporary": ('(defn g [* [p (eval-and-compile (.append log "x") (if log (do (setv q 5) q) 0))]] p)', "(g)"),
        "annotation of a keyword-only parameter": ('(defn g [* #^ (eval-and-compile (.append log "x") int) [p 5]] p)', "(g)"),
        "annotation of an ordinary parameter": ('(defn g [#^ (eval-and-compile (.append log "x") int) [p 5]] p)', "(g)"),
        "return annotation": ('(defn #^ (eval-and-compile (.append log "x") int) g [] 5)', "(g)"),
        "decorator": ('(defn [(eval-and-compile (.append log "x") (fn [f] f))] g [] 5)', "(g)"),
        "class body": ('(defclass C [] (setv p (eval-and-compile (.append log "x") 5))) (setv g (fn [] C.p))', "(g)"),
    }
    for what, (defn, call) in places.items():
        src = f'(eval-and-compile (setv log [])) {defn} [(list log) {call}]'
        ct = []
        mod = types.ModuleType("hv_c16s")
        try:
            # compile first (compile-time half), look at the log, then run
            import hy.compiler as hc
            tree = hc.hy_compile(hy.read_many(src), mod, root=ast.Module)
            ct = list(getattr(mod, "log", ["<no log>"]))
            ns = mod.__dict__
            body, last = tree.body[:-1], tree.body[-1]
            exec(compile(ast.Module(body=body, type_ignores=[]), "<c16s>", "exec"), ns)
            got = eval(compile(ast.Expression(body=last.value), "<c16s>", "eval"), ns)
        except Exception as e:  # noqa: BLE001
            got = f"{type(e).__name__}: {e}"[:200]
        want = [["x"], 5]
        ok = ct == ["x"] and got == want
        chk.case(("staged", what))
        chk.ob(f"staged/eval-and-compile as {what}: once at compile time, once at run time, value of the last form", ok, "cpython-oracle", "proved",
               detail=f"compile-time log {ct}, run-time [log, value] {got!r}",
               replay=None if ok else {"confirmed": True, "input": src, "observed": f"compile-time log {ct}, run-time [log, value] {got!r}",
                                       "expected": f"compile-time log ['x'], run-time [log, value] {want!r}"})


def staged_in_assert(chk):
    """The run-time half of a staging form runs as often as the construct evaluates the sub-form: the message of an `assert` is
    evaluated only when the assertion fails (and not at all under -O), so an eval-and-compile / do-mac written there runs once at
    compile time and, at run time, once per *failing* assertion."""
    import types
    import hy.compiler as hc
    cases = {
        "eval-and-compile as message of a passing assert": ('(assert True (eval-and-compile (.append log "x") "m"))', [], None),
        "eval-and-compile as message of a failing assert": ('(try (assert False (eval-and-compile (.append log "x") "m")) (except [e AssertionError] (.append log (str e))))', ["x", "m"], None),
        "do-mac as message of a passing assert": ("(assert (= 1 1) (do-mac '(do (.append log \"r\") \"m\")))", [], None),
        "eval-and-compile as test of an assert": ('(assert (eval-and-compile (.append log "x") True) "m")', ["x"], None),
        "eval-and-compile with a statement body as message, test needs statements": ('(assert (do (setv q 1) q) (eval-and-compile (setv z 1) (.append log "x") "m"))', [], None),
    }
    for what, (form, want, _) in cases.items():
        src = f'(eval-and-compile (setv log [])) {form} (list log)'
        mod = types.ModuleType("hv_c16a")
        ct = None
        try:
            tree = hc.hy_compile(hy.read_many(src), mod, root=ast.Module)
            ct = list(getattr(mod, "log", ["<no log>"]))
            ns = mod.__dict__
            exec(compile(ast.Module(body=tree.body[:-1], type_ignores=[]), "<c16a>", "exec"), ns)
            got = eval(compile(ast.Expression(body=tree.body[-1].value), "<c16a>", "eval"), ns)
        except Exception as e:  # noqa: BLE001
            got = f"{type(e).__name__}: {e}"[:200]
        want_ct = ["x"] if "eval-and-compile (.append" in form or "(setv z 1)" in form else []
        ok = got == want and ct == want_ct
        chk.case(("staged-assert", what))
        chk.ob(f"staged/{what}: run-time half runs exactly when the sub-form is evaluated", ok, "cpython-oracle", "proved",
               detail=f"compile-time log {ct}, run-time log {got!r}; expected {want_ct} and {want!r}",
               replay=None if ok else {"confirmed": True, "input": src, "observed": f"compile-time log {ct}, run-time log {got!r}",
                                       "expected": f"compile-time log {want_ct}, run-time log {want!r}"})


def run(chk):
    C = rules.Case
    f = "hy/core/result_macros.py::compile_eval_foo_compile"
    names = []
    for n in range(0, 4):
        nm = f"eval-and-compile/{n}"
        C(nm, lambda *b: E(S("eval-and-compile"), *b), n, B, kind="arity_bounded", fn=f, scope=stub_eval("value"), wrap=False)
        names.append(nm)
        nm = f"eval-when-compile/{n}"
        C(nm, lambda *b: E(S("eval-when-compile"), *b), n, B, kind="arity_bounded", fn=f, scope=stub_eval("value"), wrap=False)
        names.append(nm)
    rules.run_cases(chk, names)
    # structural contracts with the eval stub
    for head in ("eval-and-compile", "eval-when-compile", "do-mac"):
        for n in range(0, 4):
            for outcome in ("value", "hy-error", "other", "internal"):
                toks = sx.tokens(("SE",) * n)
                form = E(S(head), *toks)
                out = sx.run_rule(form, scope_ctx=stub_eval(outcome))
                name = f"staging/{head}/{n}/{outcome}"
                chk.case((head, n, outcome))
                once = len(CALLS) == 1
                arg_ok = once and isinstance(CALLS[0], Expression) and CALLS[0][0] == Symbol("do") and \
                    len(CALLS[0]) == n + 1 and all(a is b for a, b in zip(CALLS[0][1:], toks))
                chk.ob(name + "/eval called exactly once with (do body...)", once and arg_ok, "structural", "arity_bounded",
                       detail=f"calls={len(CALLS)}")
                if outcome == "value":
                    if not out.ok:
                        chk.ob(name + "/emission", False, "structural", "arity_bounded", detail=repr(out.exc))
                        continue
                    r = out.result
                    if head == "eval-when-compile":
                        ok = not r.stmts and r._expr is None and not out.compiled
                        chk.ob(name + "/emits nothing and compiles no body form", ok, "structural", "arity_bounded", detail=sx.show(r))
                    elif head == "eval-and-compile":
                        ok = [t for t in out.compiled] == toks
                        chk.ob(name + "/each body form compiled exactly once, in order", ok, "structural", "arity_bounded",
                               detail=str(out.compiled))
                        # staging order: nested staging forms are expanded while the body is compiled for run time, so they
                        # must see the state the compile-time evaluation of the whole body has left behind
                        chk.ob(name + "/the compile-time evaluation happens before any body form is compiled for run time",
                               EVAL_AT == [0], "structural", "arity_bounded", detail=f"body forms compiled before the evaluation: {EVAL_AT}")
                    else:
                        # value [1, "two"] is promoted by as_model and compiled: a List display of the two constants
                        ok = (not r.stmts and isinstance(r._expr, ast.List) and [getattr(e, "value", None) for e in r._expr.elts] == [1, "two"]
                              and not out.compiled)
                        chk.ob(name + "/emits the compilation of the promoted value, body forms are not compiled", ok,
                               "structural", "arity_bounded", detail=sx.show(r))
                elif outcome in ("hy-error", "other"):
                    chk.ob(name + "/surfaces as HyEvalError", (not out.ok) and isinstance(out.exc, HyEvalError), "structural",
                           "arity_bounded", detail=repr(out.exc))
                else:
                    # an internal error of the nested compilation is not passed off as an evaluation error of user code
                    chk.ob(name + "/HyInternalError is not reclassified as HyEvalError",
                           (not out.ok) and not isinstance(out.exc, HyEvalError) and "HyInternalError" in repr(out.exc),
                           "structural", "arity_bounded", detail=repr(out.exc))
    # do-mac compiles the promoted value whatever it is (falsy values included)
    for vname, val in VALUES.items():
        toks = sx.tokens(("SE",))
        out = sx.run_rule(E(S("do-mac"), *toks), scope_ctx=stub_eval("value", vname))
        want = sx.run_rule(hy.as_model(val))
        ok = out.ok and want.ok and not out.compiled and ast.dump(ast.Module(body=out.result.stmts + [ast.Expr(out.result.force_expr)], type_ignores=[])) == \
            ast.dump(ast.Module(body=want.result.stmts + [ast.Expr(want.result.force_expr)], type_ignores=[])) and \
            (out.result._expr is None) == (want.result._expr is None)
        chk.case(("do-mac-value", vname))
        chk.ob(f"staging/do-mac/value {vname}: emission == compilation of as_model(value)", ok, "structural", "proved",
               detail=(sx.show(out.result) if out.ok else repr(out.exc)) + " vs " + (sx.show(want.result) if want.ok else repr(want.exc)),
               replay=None if ok else _replay_do_mac(vname, val))
    # "runs once at compile time" for a staging form wherever it stands: every rule compiles each of its sub-forms at most once (a rule
    # that compiles a sub-form twice - and throws one result away - runs the compile-time half of any staging form inside it twice),
    # over the whole rule catalogue and every shape vector
    from hv import structural

    def compiled_once(entry, sv):
        toks, form, out = structural.emit(entry, sv)
        counts = {}
        for t in out.compiled:
            counts[t.name] = counts.get(t.name, 0) + 1
        twice = sorted(n for n, k in counts.items() if k > 1)
        if twice:
            return ("violated", f"compiled more than once: {', '.join(twice)}" + ("\n" + sx.show(out.result) if out.ok else ""), None)
        if not out.ok and sx.is_hy_user_error(out.exc):
            return ("hy-error", None, None)
        # ... and at least once: a sub-form in an evaluated position is compiled whatever stands before it (a `return`, `raise`,
        # `break` earlier in the body makes it unreachable at run time, but its compile-time half still has to run)
        if out.ok and entry.name.startswith("c16/"):
            never = sorted(t.name for t in toks if isinstance(t, Tok) and t.name not in counts)
            if never:
                return ("violated", f"never compiled: {', '.join(never)}\n" + sx.show(out.result), None)
        # ... and what was compiled is part of the result: the run-time half of a sub-form (its statements) runs as often as the
        # construct evaluates the sub-form - never zero times because the rule dropped the statements on the way
        if out.ok:
            import ast as _ast
            roots = list(out.result.stmts) + ([out.result._expr] if out.result._expr is not None else [])
            present = {getattr(n.tok, "name", None) for r in roots for n in _ast.walk(r) if isinstance(n, sx.AbsStmt)}
            lost = sorted(t.name for t, shp in zip(toks, sv) if isinstance(t, Tok) and shp in ("S", "SE") and t.name in counts
                          and t.name not in present)
            if lost:
                return ("violated", f"compiled, but its statements are not in the result: {', '.join(lost)}\n" + sx.show(out.result), None)
        return ("ok", None, None)
    from hv.catalog import Entry
    from hv.catalog import B as CB
    from hy.models import List as L_
    U = lambda n: S("u_" + n)
    for nm, b in {
        "c16/fn-body-after-return": lambda a, x: E(S("fn"), L_([]), E(S("return"), a), x),
        "c16/defn-body-after-return": lambda a, x, y: E(S("defn"), U("f"), L_([]), E(S("return"), a), x, y),
        "c16/fn-body-after-return-in-when": lambda c, a, x, y: E(S("fn"), L_([]), E(S("when"), c, E(S("return"), a), x), y),
        "c16/do-after-return": lambda a, x: E(S("fn"), L_([]), E(S("do"), E(S("return"), a), x)),
        "c16/body-after-raise": lambda a, x: E(S("do"), E(S("raise"), a), x),
        "c16/while-body-after-break": lambda c, x: E(S("while"), c, E(S("break")), x),
        "c16/for-body-after-continue": lambda xs, x: E(S("for"), L_([U("i"), xs]), E(S("continue")), x),
        "c16/if-branches-after-constant-test": lambda x, y: E(S("if"), S("True"), x, y),
        "c16/try-body-after-return": lambda a, x, h: E(S("fn"), L_([]), E(S("try"), E(S("return"), a), x, E(S("finally"), h))),
    }.items():
        import inspect
        Entry(nm, b, [CB] * len(inspect.signature(b).parameters), "hy/compiler.py::HyASTCompiler._compile_branch")
    structural.run(chk, "compile-once", compiled_once, prefix="compile-once")
    staged_in_lambda_lists(chk)
    staged_in_assert(chk)
    # defmacro
    from hy.reader import mangle
    import hy.macros as hmac
    body = Tok("b0", "E")
    form = E(S("defmacro"), S("my-mac!"), List([S("a")]), body)
    comp = sx.new_compiler()
    seen = []
    real_compile = comp.compile

    def spy(tree):
        seen.append(tree)
        if isinstance(tree, Expression) and tree and tree[0] == Symbol("eval-and-compile"):
            return hy.compiler.Result()
        return real_compile(tree)
    comp.compile = spy
    with comp.scope:
        r = hy.core.result_macros._hy_macros["defmacro"](comp, *form[1:]) if False else None
    # run through the real macro wrapper (needs compiler.this)
    comp.this = form
    with comp.scope:
        r = hy.core.result_macros._hy_macros["defmacro"](comp, *form[1:])
    eac = [t for t in seen if isinstance(t, Expression) and t and t[0] == Symbol("eval-and-compile")]
    ok = len(eac) == 1 and len(eac[0]) == 2 and eac[0][1][0][0] == Expression(map(Symbol, [".", "hy", "macros", "macro"])) \
        and str(eac[0][1][0][1]) == "my-mac!" and eac[0][1][1][0] == Symbol("fn") and eac[0][1][1][-1] is body
    chk.ob("defmacro/module level: one (eval-and-compile ((hy.macros.macro NAME) (fn PARAMS BODY...)))", ok, "structural", "proved",
           detail=hy.repr(eac[0]) if eac else "no eval-and-compile")
    # local defmacro
    comp = sx.new_compiler()
    evals = []
    comp.eval = lambda m: (evals.append(m), (lambda *a: 7))[1]
    with comp.scope, comp.local_state():
        comp.this = form
        r = hy.core.result_macros._hy_macros["defmacro"](comp, *form[1:])
        st = dict(comp.local_state_stack[-1]["macros"])
    lname = hmac.local_macro_name("my-mac!")
    stores = [n.id for s in r.stmts for n in ast.walk(s) if isinstance(n, ast.Name) and isinstance(n.ctx, ast.Store)]
    defs = [s.name for s in r.stmts if isinstance(s, ast.FunctionDef)]
    ok = list(st) == [mangle("my-mac!")] and len(evals) == 1 and evals[0][0] == Symbol("fn") and (lname in stores or lname in defs)
    chk.ob("defmacro/local: function evaluated once, registered under mangle(name) in the innermost local state, bound to the reserved local name",
           ok, "structural", "proved", detail=f"registered={list(st)} evals={len(evals)} stores={stores} defs={defs}")
    chk.ob("defmacro/local: local state is popped when the scope ends", len(comp.local_state_stack) == 1, "structural", "proved")

    # bounded end-to-end: compile once, run the code object twice (stands for "loading from bytecode")
    src = ('(setv log (getattr hy "_hv_log"))\n'
           '(eval-when-compile (.append hy._hv_log "ewc"))\n'
           '(setv v (eval-and-compile (.append hy._hv_log "eac") 5))\n'
           '(setv w (do-mac (.append hy._hv_log "dm") `(+ 1 ~2)))\n'
           '(defn f [] (eval-and-compile (.append hy._hv_log "eac-in-fn") 6))\n'
           '(setv z (f))\n'
           '(eval-and-compile (setv stage 0))\n'
           '(eval-and-compile (setv stage (+ stage 1)) (setv seen (do-mac stage)))\n')
    hy._hv_log = []
    mod = types.ModuleType("hv_c16_e2e")
    tree = hy.compiler.hy_compile(hy.read_many(src), mod)
    at_compile = list(hy._hv_log)
    code = compile(tree, "<c16>", "exec")
    runs = []
    for _ in range(2):
        del hy._hv_log[:]
        ns = {"__name__": "hv_c16_e2e2", "hy": hy}
        exec(code, ns)
        runs.append((list(hy._hv_log), ns["v"], ns["w"], ns["z"], ns["seen"]))
    del hy._hv_log
    ok = at_compile == ["ewc", "eac", "dm", "eac-in-fn"] and all(r == (["eac", "eac-in-fn"], 5, 3, 6, 1) for r in runs)
    chk.ob("e2e/compile once, execute twice: compile-time parts ran once at compile time, run-time parts once per execution",
           ok, "cpython-oracle", "bounded", detail=f"compile={at_compile} runs={runs}")
    chk.fn(f, "hy/core/result_macros.py::compile_macro_def", "hy/compiler.py::HyASTCompiler.eval (as contract)",
           "hy/compiler.py::HyASTCompiler._compile_branch")
    chk.trust("HyASTCompiler.eval contract: evaluates the model once (C39)", "pysem/hysem for the eval-and-compile emission",
              "executing a code object again stands for loading it from a .pyc (CPython)")
    chk.bounds["body forms"] = "0..3"
    # canary: a stub rule that emits its body for eval-when-compile must be refuted by the emptiness clause
    out = sx.run_rule(E(S("eval-and-compile"), *sx.tokens(("SE",))), scope_ctx=stub_eval("value"))
    chk.canary("emptiness clause applied to eval-and-compile's emission", bool(out.result.stmts or out.result._expr is not None))


def replay(path):
    from hv.replay import replay_file
    return replay_file(path)
