"""C25 hy.repr of any readable model reads back to the same model."""
import ast
import contextlib
import itertools
import math
import multiprocessing
import re

import hv.symx.core  # noqa: F401
import hy
import hy.core.hy_repr as HR
import hy.models as hm
from hy.models import (Bytes, Complex, Dict, Expression, FComponent, Float, FString, Integer, Keyword, List, Set, String,
                       Symbol, Tuple)
from hy.reader import HyReader

from hv.props import _c25_lib as L

META = {
    "engine": "rtc",
    "level": "other",
    "technique": "contract-based: (1) a structural output contract on every printer registered in hy.core.hy_repr._registry "
                 "for a model type, checked by calling the real registered function on models whose children are distinct "
                 "marker models (0..4 children, every combination of brackets / is_tstring / conversion / expression): each "
                 "child's text occurs exactly once, in order, inside the documented delimiters or sugar, and the real reader "
                 "(for quoted strings also CPython's own parser) maps the text back to the model; (2) the round-trip clause "
                 "hy.eval(hy.read(hy.repr(m))) run on the real functions over models read from generated Hy texts (deterministic "
                 "small-scope enumeration of every syntax form nested to depth 3, and hypothesis strategies over the same "
                 "grammar): node-wise same model type, same brackets/conversion/is_tstring, equality (NaN by isnan), identical "
                 "second print",
    "text": "Printer contracts: Tuple/List/Set/Dict/Expression print delimiter + children separated by whitespace; two-element "
            "expressions headed by quote/quasiquote/unquote/unquote-splice/unpack-iterable/unpack-mapping may use the "
            "documented sugar, all-symbol expressions headed by dots the dotted-identifier form, both only if the reader "
            "maps that text back; String/Bytes print a literal CPython evaluates to the same content, or #[d[...]d] whose "
            "content after removal of one leading newline is the string; FComponent prints value, conversion and ALL format-spec "
            "components; FString prints prefix/brackets and doubles literal braces.  Round trip: for every generated model m "
            "the re-read model has the same type at every node, the same attributes, is equal to m, and prints to the same text.",
    "note": "Level other: the per-printer contracts are complete in child shapes and attribute combinations but bounded in arity "
            "(<= 4 children / spec components); leaf printers (symbols, numbers, string contents) and the round trip are bounded "
            "stand-ins (vocabulary enumeration and hypothesis sampling).  Trusted: hy.read and hy.eval of quoted models (C30), "
            "CPython's parser as oracle for quoted literals.  Failing inputs are reduced to the smallest sub-form that fails on "
            "its own and grouped by the class of that sub-form.",
}

REG = HR._registry
CONTRACTED = {Tuple, Dict, Expression, Symbol, Keyword, String, Bytes, Float, Complex, FComponent, FString, List, Set}


@contextlib.contextmanager
def quoting():
    """the printers are called the way hy-repr calls them for a sub-model: the quote prefix was already emitted"""
    old = HR._quoting
    HR._quoting = True
    try:
        yield
    finally:
        HR._quoting = old


def printer(m):
    """the real registered function; an exception becomes a text no contract accepts (never a checker crash)"""
    f = REG[type(m)][0]
    try:
        with quoting():
            r = f(m)
        return r if isinstance(r, str) else f"\x00printer returned {type(r).__name__}\x00"
    except Exception as e:  # noqa: BLE001
        return f"\x00printer raised {type(e).__name__}: {str(e)[:80]}\x00"


def child_text(c):
    try:
        with quoting():
            r = HR.hy_repr(c)
        return r if isinstance(r, str) else f"\x00hy-repr returned {type(r).__name__}\x00"
    except Exception as e:  # noqa: BLE001
        return f"\x00hy-repr raised {type(e).__name__}: {str(e)[:80]}\x00"


class Opq(hm.Object):
    """opaque child: a model the printers know nothing about; prints as a unique token"""

    def __init__(self, i):
        self.token = f"<<O{i}>>"

    def __eq__(self, o):
        return self is o

    def __hash__(self):
        return id(self)


def sym(i):
    return Symbol(f"M{i}")


def mk(kind, i):
    return sym(i) if kind == "sym" else Opq(i)


def occurrences(text, toks):
    """every token exactly once and in the given order -> None or a message"""
    pos = 0
    for t in toks:
        if text.count(t) != 1:
            return f"token {t!r} occurs {text.count(t)} times in {text!r}"
        p = text.find(t, pos)
        if p < 0:
            return f"token {t!r} out of order in {text!r}"
        pos = p + len(t)
    return None


def residue(text, toks, mark="\x01"):
    for t in toks:
        text = text.replace(t, mark, 1)
    return text


def norm_ws(s):
    s = re.sub(r"\s+", " ", s)
    return s


class Group:
    """collects the cases of one obligation; first failing case goes to the detail"""

    def __init__(self):
        self.g = {}

    def add(self, name, ok, detail="", inp=None, observed=None, expected=None, kind="arity_bounded", backend="structural"):
        e = self.g.setdefault(name, {"n": 0, "bad": 0, "detail": None, "replay": None, "kind": kind, "backend": backend})
        e["n"] += 1
        if not ok:
            e["bad"] += 1
            if e["detail"] is None:
                e["detail"] = f"{detail} [input {inp}]"
                e["replay"] = {"confirmed": True, "input": str(inp), "observed": str(observed if observed is not None else detail),
                               "expected": str(expected)}

    def flush(self, chk):
        for name, e in self.g.items():
            chk.ob(name, e["bad"] == 0, e["backend"], e["kind"],
                   detail=(f"{e['bad']} of {e['n']} cases fail; first: {e['detail']}" if e["bad"] else f"{e['n']} cases"),
                   replay=e["replay"])


# ---------------------------------------------------------------------------------------------
# (1) per-printer structural contracts
# ---------------------------------------------------------------------------------------------
DELIMS = {List: ("[", "]"), Tuple: ("#(", ")"), Set: ("#{", "}"), Dict: ("{", "}")}


def reads_back(m, text, reader=None):
    try:
        forms = list(hy.read_many(text, reader=reader) if reader else hy.read_many(text))
    except Exception as e:  # noqa: BLE001
        return f"{text!r} does not read: {type(e).__name__}: {str(e)[:80]}"
    if len(forms) != 1:
        return f"{text!r} reads as {len(forms)} forms"
    d = L.diff(m, forms[0])
    return None if d is None else f"{text!r} reads as a different model: {d[0]} at {d[1]}: {d[2]}"


def seq_contracts(chk, G, maxn):
    for T, (o, c) in DELIMS.items():
        for n in range(maxn + 1):
            for kind in ("sym", "opaque"):
                kids = [mk(kind, i) for i in range(n)]
                m = T(kids)
                text = printer(m)
                toks = [child_text(k) for k in kids]
                chk.case(("seq", T.__name__, n, kind))
                base = f"printer/{T.__name__}/children={n}"
                msg = occurrences(text, toks)
                G.add(f"{base}/every child once and in order", msg is None, msg, inp=repr(m), observed=text)
                want = norm_ws(o + " ".join("\x01" * n) + c)
                got = norm_ws(residue(text, toks)).replace(o + " ", o).replace(" " + c, c)
                G.add(f"{base}/documented delimiters", got == want, f"printed {text!r}", inp=repr(m), observed=text, expected=want)
                if kind == "sym":
                    msg = reads_back(m, text)
                    G.add(f"{base}/reader maps the text back", msg is None, msg, inp=repr(m), observed=text)


def expression_contracts(chk, G, maxn):
    heads = [("marker", lambda: sym(0)), ("opaque", lambda: Opq(0))]
    heads += [(h, (lambda h=h: Symbol(h))) for h in [".", "..", "..."] + list(L.SUGAR)]
    # heads that are *not* symbols but whose text is empty or all dots (the dotted-identifier and sugar forms are for symbols only)
    heads += [("string-empty", lambda: String("")), ("string-dots", lambda: String("..")), ("string-dot", lambda: String(".")),
              ("bracket-string-dot", lambda: String(".", brackets="")), ("string-quote-sugar-name", lambda: String("quote")),
              ("keyword-head", lambda: hy.models.Keyword("k")), ("integer-head", lambda: hy.models.Integer(0))]
    seconds = [("marker", lambda k: mk(k, 1)), ("None", lambda k: Symbol("None")), (".", lambda k: Symbol(".")),
               ("...", lambda k: Symbol("...")), ("@-symbol", lambda k: Symbol("@M1")), ("list", lambda k: List([mk(k, 1)])),
               ("dotted-@", lambda k: Expression([Symbol("."), Symbol("@M1"), Symbol("M7")]))]
    lasts = [("marker", None), (".", lambda: Symbol("."))]
    for (hname, hmk), n, kind in itertools.product(heads, range(maxn + 1), ("sym", "opaque")):
        for (sname, smk), (lname, lmk) in itertools.product(seconds, lasts):
            if n == 0 and (sname != "marker" or lname != "marker"):
                continue
            if n == 1 and lname != "marker":
                continue
            kids = [hmk()] + ([smk(kind)] if n else []) + [mk(kind, i) for i in range(2, n + 1)]
            if lmk and n >= 2:
                kids[-1] = lmk()
            m = Expression(kids)
            cls = L.node_class(m)
            text = printer(m)
            toks = [child_text(k) for k in kids]
            chk.case(("expr", hname, sname, lname, n, kind))
            base = f"printer/{cls}/children={len(kids)}"
            # which documented form was used?
            paren = norm_ws("(" + " ".join("\x01" * len(kids)) + ")")
            form = None
            if norm_ws(text).replace("( ", "(").replace(" )", ")") == "(" + " ".join(toks) + ")":
                form = "paren"
                msg = None
            elif len(kids) == 2 and type(kids[0]) is Symbol and str(kids[0]) in L.SUGAR:
                form = "sugar"
                pre = L.SUGAR[str(kids[0])].strip()
                ok = text.startswith(pre) and text[len(pre):].strip() == toks[1] and text.count(toks[1]) >= 1
                msg = None if ok else f"printed {text!r}: neither (head child) nor {pre}child"
            elif len(kids) >= 3 and all(type(k) is Symbol for k in kids) and L._alldots(kids[0]):
                form = "dotted"
                cands = [".".join(toks[1:])] if str(kids[0]) == "." else []
                if str(kids[1]) == "None":
                    cands.append(str(kids[0]) + ".".join(toks[2:]))
                msg = None if text in cands else f"printed {text!r}: neither (head children...) nor one of {cands}"
            else:
                msg = f"printed {text!r}: not (head children...) and no sugar is documented for this shape"
            G.add(f"{base}/every child once and in order inside documented delimiters or sugar", msg is None, msg, inp=repr(m),
                  observed=text, expected=paren)
            if kind == "sym" and all(not isinstance(k, Opq) for k in L.walk(m)):
                msg = reads_back(m, text)
                G.add(f"{base}/reader maps the text back", msg is None, msg, inp=L._src(m), observed=text,
                      expected="a text that reads as the printed model")


STR_ALPHA = ["a", '"', "'", "\\", "\n", "\r", "\t", "\0", "{", "}", "[", "]", "é", "😀", "\x7f", " ", " ", "\x85",
             "\ud800", "#", ";", "n", "N"]
BYTE_ALPHA = [0, 10, 13, 34, 39, 92, 97, 127, 128, 255, 123, 110]


def strip_one_leading_newline(body):
    """docs/syntax.rst, bracket strings: 'if it begins with [a newline], the newline is removed' (all three styles)"""
    if body.startswith("\r\n"):
        return body[2:]
    if body.startswith("\n") or body.startswith("\r"):
        return body[1:]
    return body


def string_contracts(chk, G, maxlen):
    # quoted strings: CPython evaluates the printed literal to the same content; the reader maps it back
    for n in range(maxlen + 1):
        for cs in itertools.product(STR_ALPHA, repeat=n):
            s = "".join(cs)
            m = String(s)
            text = printer(m)
            chk.case(("str", s))
            cls = L.node_class(m)
            try:
                v = ast.literal_eval(text) if text.startswith('"') and "\n" not in text else None
            except Exception:  # noqa: BLE001
                v = None
            G.add(f"printer/{cls}/CPython evaluates the double-quoted literal to the content", v == s, f"printed {text!r}",
                  inp=repr(m), observed=text, expected=s, kind="bounded", backend="cpython-oracle")
            msg = reads_back(m, text)
            G.add(f"printer/{cls}/reader maps the text back", msg is None, msg, inp=repr(m), observed=text, kind="bounded")
    for n in range(maxlen + 1):
        for cs in itertools.product(BYTE_ALPHA, repeat=n):
            b = bytes(cs)
            m = Bytes(b)
            text = printer(m)
            chk.case(("bytes", b))
            try:
                v = ast.literal_eval(text) if text.startswith('b"') and "\n" not in text else None
            except Exception:  # noqa: BLE001
                v = None
            G.add("printer/Bytes/CPython evaluates the b\"...\" literal to the content", v == b, f"printed {text!r}", inp=repr(m),
                  observed=text, expected=b, kind="bounded", backend="cpython-oracle")
            msg = reads_back(m, text)
            G.add("printer/Bytes/reader maps the text back", msg is None, msg, inp=repr(m), observed=text, kind="bounded")
    # bracket strings: every (delimiter, content) pair the reader can produce
    alpha = [c for c in STR_ALPHA if c not in ("\r", "\ud800")] + ["x", "="]
    nprod = 0
    for d in ["", "x", "==", "a b", "t", "ff", '"']:
        for n in range(maxlen + 1):
            for cs in itertools.product(alpha, repeat=n):
                s = "".join(cs)
                src = f"#[{d}[\n{s}]{d}]"
                got = L.read_source(src)
                if not (type(got) is String and str(got) == s and got.brackets == d):
                    continue            # not producible by the reader (e.g. content ending in "]")
                nprod += 1
                m = String(s, brackets=d)
                text = printer(m)
                chk.case(("brstr", d, s))
                cls = L.node_class(m)
                o, c = f"#[{d}[", f"]{d}]"
                ok = text.startswith(o) and text.endswith(c) and len(text) >= len(o) + len(c)
                body = text[len(o):len(text) - len(c)] if ok else None
                ok = ok and strip_one_leading_newline(body) == s and c not in body + c[:-1]
                G.add(f"printer/{cls}/#[d[ content ]d] whose content minus one leading newline is the string", ok,
                      f"printed {text!r}", inp=repr(m), observed=text, expected=f"{o}\\n{s}{c}" if s.startswith("\n") else o + s + c,
                      kind="bounded")
                msg = reads_back(m, text)
                G.add(f"printer/{cls}/reader maps the text back", msg is None, msg, inp=repr(m), observed=text, kind="bounded")
    chk.extra["bracket_strings_producible_by_reader"] = nprod


def leaf_contracts(chk, G, maxlen):
    # symbols and keywords: the text is the name, and the reader maps it back
    names = set()
    for t in L.SYMBOLS + L.KEYWORDS:
        m = L.read_source(t)
        if type(m) in (Symbol, Keyword):
            names.add(t)
    alpha = "a1-_.:+@?!*/<=>&%$^λ,#j"
    for n in range(1, maxlen + 1):
        for cs in itertools.product(alpha, repeat=n):
            names.add("".join(cs))
    ns = nk = 0
    for t in sorted(names):
        for src in (t, ":" + t):
            m = L.read_source(src)
            if type(m) is Symbol and str(m) == src:
                ns += 1
            elif type(m) is Keyword and ":" + m.name == src:
                nk += 1
            else:
                continue
            text = printer(m)
            chk.case(("name", src))
            cls = L.node_class(m)
            G.add(f"printer/{cls}/the text is the name", text == src, f"printed {text!r}", inp=src, observed=text, expected=src,
                  kind="bounded")
            msg = reads_back(m, text)
            G.add(f"printer/{cls}/reader maps the text back", msg is None, msg, inp=src, observed=text, kind="bounded")
    chk.extra["symbol_names"], chk.extra["keyword_names"] = ns, nk
    # floats, complex numbers: CPython parses the text (Inf/NaN spelled the Hy way) to the same value incl. zero signs
    fl = [0.0, -0.0, 1.0, -1.5, 0.1, 1e16, 1e22, 1e-5, 1e-7, 5e-324, 1.7976931348623157e308, 123456789.123456789, 1 / 3,
          float("inf"), float("-inf"), float("nan"), 2.5e-300, 1e100, 9007199254740993.0]
    same = lambda a, b: (math.isnan(a) and math.isnan(b)) or (a == b and math.copysign(1, a) == math.copysign(1, b))
    py = lambda s: s.replace("Inf", "inf").replace("NaN", "nan")
    for x in fl:
        m = Float(x)
        text = printer(m)
        chk.case(("float", repr(x)))
        cls = L.node_class(m)
        try:
            ok = same(float(py(text)), x)
        except ValueError:
            ok = False
        G.add(f"printer/{cls}/CPython parses the text to the same float", ok, f"printed {text!r}", inp=repr(x), observed=text,
              expected=repr(x), kind="bounded", backend="cpython-oracle")
        got = L.read_source(text)
        ok = type(got) is Float and same(float(got), x)
        G.add(f"printer/{cls}/reader maps the text back", ok, f"{text!r} reads as {got!r}", inp=repr(x), observed=text, kind="bounded")
    for re_, im in itertools.product(fl[:6] + fl[13:16], repeat=2):
        z = complex(re_, im)
        m = Complex(re_, im)
        assert same(complex(m).real, re_) and same(complex(m).imag, im)
        text = printer(m)
        chk.case(("complex", repr(z)))
        cls = L.node_class(m)
        try:
            w = complex(py(text))
            ok = same(w.real, re_) and same(w.imag, im)
        except ValueError:
            ok = False
        G.add(f"printer/{cls}/CPython parses the text to the same complex number", ok, f"printed {text!r}", inp=repr(z), observed=text,
              expected=repr(z), kind="bounded", backend="cpython-oracle")
        got = L.read_source(text)
        ok = type(got) is Complex and same(complex(got).real, re_) and same(complex(got).imag, im)
        G.add(f"printer/{cls}/reader maps the text back", ok, f"{text!r} reads as {got!r}", inp=repr(z), observed=text, kind="bounded")


def spec_shapes(maxn):
    """format-spec shapes: S plain literal, B literal with a brace, F nested field, N nested field with its own spec"""
    out = [""]
    for n in range(1, maxn + 1):
        for sh in itertools.product("SF", repeat=n):
            s = "".join(sh)
            if "SS" not in s:
                out.append(s)
    out += ["B", "BF", "FB", "N", "SN", "NS", "NF", "FBF"]
    return out


def build_spec(shape, kind):
    parts, toks = [], []
    for i, ch in enumerate(shape):
        j = i + 1
        if ch == "S":
            parts.append(String(f">S{j}."))
            toks.append(f">S{j}.")
        elif ch == "B":
            parts.append(String(f"b{j}{{x"))
            toks.append(f"b{j}{{{{x")
        elif ch == "F":
            parts.append(FComponent([mk(kind, 10 + j)]))
            toks.append(None)
        else:
            parts.append(FComponent([mk(kind, 10 + j), String(f"w{j}")], conversion="q"))
            toks.append(None)
    return parts, toks


def fcomponent_contracts(chk, G, maxn):
    for shape in spec_shapes(maxn):
        for kind, conv, expr, ists in itertools.product(("sym", "opaque", "string"), (None, "r", "s", "a", "z"), (None, "M0"), (False, True)):
            value = String("v0") if kind == "string" else mk(kind, 0)
            ck = "sym" if kind == "string" else kind
            parts, toks = build_spec(shape, ck)
            m = FComponent([value] + parts, conversion=conv, expression=expr, is_tstring=ists)
            text = printer(m)
            chk.case(("fcomp", shape, kind, conv, expr, ists))
            spec_toks = [t if t is not None else child_text(p) for t, p in zip(toks, parts)]
            vt = child_text(value)
            want = [vt] + ([f"!{conv}"] if conv else []) + spec_toks
            base = f"printer/FComponent/spec={shape or '-'}"
            msg = occurrences(text, want)
            G.add(f"{base}/value, conversion and every spec component once and in order", msg is None, msg, inp=L._src(m), observed=text,
                  expected=" ".join(want))
            rx = r"^\{\s*" + re.escape(vt) + (r"\s*!" + re.escape(conv) if conv else "") + \
                 ((r"\s*:" + re.escape("".join(spec_toks))) if parts else r"\s*") + r"\}$"
            G.add(f"{base}/documented field syntax {{value !conversion :spec}}", re.match(rx, text, re.S) is not None,
                  f"printed {text!r}", inp=L._src(m), observed=text, expected="{" + " ".join(want[:1] + want[1:2]) + " :" + "".join(spec_toks) + "}")
            if kind != "opaque":
                fs = FString([m], is_tstring=ists)
                msg = reads_back(fs, ("t" if ists else "f") + '"' + text + '"')
                G.add(f"{base}/reader maps the field back", msg is None, msg, inp=L._src(m), observed=text)


def _cpython_fstring(text):
    """CPython's parser on an f"..." text whose fields are plain names -> [str | ('field', name)]"""
    node = ast.parse(text, mode="eval").body
    if isinstance(node, ast.Constant):
        return [node.value] if node.value else []
    out = []
    for v in node.values:
        if isinstance(v, ast.Constant):
            out.append(v.value)
        else:
            out.append(("field", v.value.id))
    return out


def _bracket_body(body):
    """spec of a bracket f-string body: one leading newline removed; {{ }} are literal braces; {NAME} a field"""
    body = strip_one_leading_newline(body)
    body = body.replace("\r\n", "\n").replace("\r", "\n")     # docs: literal newlines of any style are read as "\n"
    out, cur, i = [], "", 0
    while i < len(body):
        if body.startswith("{{", i) or body.startswith("}}", i):
            cur += body[i]
            i += 2
        elif body[i] == "{":
            j = body.index("}", i)
            if cur:
                out.append(cur)
            cur = ""
            out.append(("field", body[i + 1:j]))
            i = j + 1
        elif body[i] == "}":
            raise ValueError("single }")
        else:
            cur += body[i]
            i += 1
    if cur:
        out.append(cur)
    return out


FS_LITS = {"S": ["S@", "lit @"], "B": ["a{b@", "}@{", "{@}"], "Q": ['q"@', "q\\@", "q\n@", "'@\"", "\t@\r"],
           "N": ["\n@", "\n\n@", "\n"], "E": ["e\\N{@", "\\N{}@", "\\N"], "R": ["r\r@", "\r\n@", "@\r"]}


def fstring_contracts(chk, G, maxn):
    shapes = [""]
    for n in range(1, maxn + 1):
        for sh in itertools.product("SF", repeat=n):
            s = "".join(sh)
            if "SS" not in s:
                shapes.append(s)
    shapes += ["B", "BF", "FB", "Q", "QF", "FQ", "N", "NF", "FN", "FNF", "E", "EF", "FE", "R", "RF", "FR"]
    attrs = [(None, False), (None, True), ("f", False), ("f-x", False), ("f-", False), ("t", True), ("t-x", True), ("f", True),
             ("t", False), ("x", False)]
    treader = lambda: HyReader(bracketed_templates=True)
    for shape in shapes:
        for (br, ists), variant in itertools.product(attrs, range(5)):
            special = [c for c in shape if c in "BQNER"]
            if not special and variant > 1:
                continue
            parts, lits = [], []
            for i, ch in enumerate(shape):
                if ch == "F":
                    parts.append(FComponent([sym(i)], is_tstring=ists))
                    lits.append(None)
                else:
                    pool = FS_LITS[ch]
                    s = pool[variant % len(pool)].replace("@", str(i))
                    if br is not None and ch != "R":
                        s = s.replace("\r", "")
                    parts.append(String(s))
                    lits.append(s)
            try:
                m = FString(parts, brackets=br, is_tstring=ists)
            except ValueError:
                continue
            text = printer(m)
            chk.case(("fstr", shape, br, ists, variant))
            kind = ("quoted-t" if ists else "quoted-f") if br is None else \
                   ("bracket-f" if (br == "f" or br.startswith("f-")) and not ists else
                    "bracket-t" if (br == "t" or br.startswith("t-")) and ists else "bracket with attributes no reader produces")
            lname = "parts=" + str(len(shape)) if not special else \
                    {"B": "literal with braces", "Q": "literal needing escapes", "N": "literal starting with a newline",
                     "E": "literal with backslash-N-brace", "R": "literal with a carriage return"}[special[0]]
            base = f"printer/FString/{kind}/{lname}"
            o, c = (("t" if ists else "f") + '"', '"') if br is None else (f"#[{br}[", f"]{br}]")
            toks = [child_text(p) if l is None else l for p, l in zip(parts, lits)]
            if not special:
                msg = occurrences(text, toks)
                if msg is None and residue(text, toks, "") != o + c:
                    msg = f"printed {text!r}: something besides {o!r} parts {c!r}"
                G.add(f"{base}/every part once and in order inside the documented delimiters", msg is None, msg, inp=L._src(m),
                      observed=text, expected=o + "".join(toks) + c)
            # content oracle: CPython's parser for the quoted form, the documented body syntax for the bracket form
            want = [l if l is not None else ("field", str(p[0])) for p, l in zip(parts, lits)]
            try:
                if br is None:
                    assert text.startswith(o) and text.endswith(c)
                    got = _cpython_fstring("f" + text[1:])
                    orc = "cpython-oracle"
                else:
                    assert text.startswith(o) and text.endswith(c) and c not in text[len(o):-1]
                    got = _bracket_body(text[len(o):len(text) - len(c)])
                    orc = "structural"
                ok, why = got == want, f"printed {text!r} means {got!r}"
            except Exception as e:  # noqa: BLE001
                ok, why, orc = False, f"printed {text!r}: {type(e).__name__}: {e}", "structural"
            G.add(f"{base}/the printed body denotes the same literal parts and fields", ok, why, inp=L._src(m), observed=text,
                  expected=want, backend=orc)
            if "no reader" not in kind:
                # only parts the reader can produce: bracket content must not contain a carriage return
                msg = reads_back(m, text, reader=treader() if kind == "bracket-t" else None)
                G.add(f"{base}/reader maps the text back", msg is None, msg, inp=L._src(m), observed=text)


def structural_part(chk, tier):
    G = Group()
    model_types = {t for t in REG if isinstance(t, type) and issubclass(t, hm.Object)}
    chk.ob("registry/every printer registered for a model type has a contract here", model_types == CONTRACTED, "structural",
           "exhaustive_finite", detail=f"registered {sorted(t.__name__ for t in model_types)}; under contract "
                                       f"{sorted(t.__name__ for t in CONTRACTED)}")
    chk.ob("registry/Integer has no registered printer and falls back to int.__repr__",
           Integer not in REG and HR.hy_repr(Integer(-12)) == "'-12" and HR._base_repr(Integer(7)) == "7", "structural",
           "exhaustive_finite")
    REG[Opq] = ((lambda x: x.token), None)
    try:
        maxn = 4
        seq_contracts(chk, G, maxn)
        expression_contracts(chk, G, maxn)
        fcomponent_contracts(chk, G, maxn)
        fstring_contracts(chk, G, maxn)
        string_contracts(chk, G, 3 if tier == "thorough" else 2)
        leaf_contracts(chk, G, 3 if tier == "thorough" else 2)
    finally:
        del REG[Opq]
    G.flush(chk)
    chk.bounds["children per sequence / parts per f-string / format-spec components"] = maxn
    chk.bounds["string contents"] = f"all strings of length <= {3 if tier == 'thorough' else 2} over {len(STR_ALPHA)} characters"


# ---------------------------------------------------------------------------------------------
# (2) round trip over generated texts
# ---------------------------------------------------------------------------------------------
class Acc:
    def __init__(self):
        self.seen = {}
        self.fails = {}
        self.n = self.unread = 0
        self.fam = {}

    def feed(self, fam, text):
        m = L.read_source(text)
        if m is None:
            self.unread += 1
            return
        self.n += 1
        self.fam[fam] = self.fam.get(fam, 0) + 1
        classes, f = L.run_case(m)
        for c in classes:
            self.seen[c] = self.seen.get(c, 0) + 1
        if f:
            cls, clause, detail, printed, msrc = f
            e = self.fails.setdefault((cls, clause), {"n": 0, "best": None})
            e["n"] += 1
            if e["best"] is None or len(text) < len(e["best"][0]):
                e["best"] = (text, detail, printed, msrc)

    def result(self):
        return {"seen": self.seen, "fails": self.fails, "n": self.n, "unread": self.unread, "fam": self.fam}


_ENUM = None


def enum_worker(args):
    lo, hi = args
    acc = Acc()
    for fam, text in _ENUM[lo:hi]:
        acc.feed(fam, text)
    return acc.result()


def hyp_worker(args):
    seed, n = args
    from hypothesis import HealthCheck, Phase, given, settings
    from hypothesis import seed as hseed
    acc = Acc()

    @hseed(seed)
    @settings(max_examples=n, database=None, deadline=None, suppress_health_check=list(HealthCheck), phases=[Phase.generate])
    @given(L.text_strategy())
    def t(text):
        acc.feed("hypothesis", text)
    t()
    return acc.result()


def merge(results):
    tot = {"seen": {}, "fails": {}, "n": 0, "unread": 0, "fam": {}}
    for r in results:
        tot["n"] += r["n"]
        tot["unread"] += r["unread"]
        for k, v in r["seen"].items():
            tot["seen"][k] = tot["seen"].get(k, 0) + v
        for k, v in r["fam"].items():
            tot["fam"][k] = tot["fam"].get(k, 0) + v
        for k, e in r["fails"].items():
            t = tot["fails"].setdefault(k, {"n": 0, "best": None})
            t["n"] += e["n"]
            if t["best"] is None or len(e["best"][0]) < len(t["best"][0]):
                t["best"] = e["best"]
    return tot


def roundtrip_part(chk, tier):
    global _ENUM
    _ENUM = L.enumeration(tier)
    n = len(_ENUM)
    # page faults after fork are expensive here, so the quick tier uses few processes with large chunks
    procs = min(chk.jobs, 4) if tier == "quick" else chk.jobs
    step = max(50, -(-n // procs) if tier == "quick" else n // (procs * 3))
    chunks = [(i, min(n, i + step)) for i in range(0, n, step)]
    nseeds, per = (procs, 150) if tier == "quick" else (chk.jobs * 2, 1500)
    seeds = [(chk.seed * 1000 + i, per) for i in range(nseeds)]
    import gc
    gc.collect()
    gc.freeze()          # keeps the inherited heap out of the children's collections (copy-on-write traffic)
    with multiprocessing.get_context("fork").Pool(procs) as pool:
        r_enum = pool.map_async(enum_worker, chunks, chunksize=1)
        r_hyp = pool.map_async(hyp_worker, seeds, chunksize=1)
        E, H = merge(r_enum.get()), merge(r_hyp.get())
    gc.unfreeze()
    chk.extra["roundtrip_cases"] = {"enumeration": E["n"], "hypothesis": H["n"], "texts outside the reader's language":
                                    E["unread"] + H["unread"], "by family": {**E["fam"], **H["fam"]}}
    chk.bounds["round trip"] = (f"deterministic enumeration of {n} texts (every atom, every wrapper x atom, sequences of 0..4 forms, "
                                f"all wrapper triples to depth 3, f-string and bracket-string products) and {nseeds} x {per} hypothesis "
                                "examples (recursive strategy, <= 8 leaves)")
    T = merge([E, H])
    chk.evaluations += T["n"]
    CL = {"same model (node types, equality)": ("equal", "types"), "same brackets, conversion and is_tstring": ("attrs",),
          "second print is identical": ("reprint",)}
    stray = sorted((set(T["seen"]) | {k[0] for k in T["fails"]}) - set(L.ALL_CLASSES))
    chk.ob("coverage/every generated node belongs to a declared class", not stray, "structural", "exhaustive_finite", detail=str(stray))
    for cls in list(L.ALL_CLASSES) + stray:
        for clause, keys in CL.items():
            bad = [(k, T["fails"][(cls, k)]) for k in keys if (cls, k) in T["fails"]]
            name = f"roundtrip/{cls}/{clause}"
            if bad:
                k, e = min(bad, key=lambda ke: len(ke[1]["best"][0]))
                text, detail, printed, msrc = e["best"]
                nbad = sum(e["n"] for _, e in bad)
                chk.ob(name, False, "rtc", "bounded",
                       detail=f"{nbad} failing texts; shortest {text!r}; smallest failing sub-form {msrc}: {detail}",
                       replay={"confirmed": True, "input": text, "observed": detail, "expected":
                               "hy.eval(hy.read(hy.repr(m))) is the same model and prints the same", "minimal_model": msrc})
            else:
                chk.ob(name, True, "rtc", "bounded", detail=f"{T['seen'].get(cls, 0)} nodes of this class in the generated models")
    missing = [c for c in L.ALL_CLASSES if c not in E["seen"]]
    chk.ob("coverage/the deterministic enumeration exercises every declared class", not missing, "structural", "exhaustive_finite",
           detail=f"classes never generated: {missing}")
    for cls, cnt in sorted(E["seen"].items())[:6]:
        chk.sample({"class": cls, "nodes": cnt})
    return E, H


# ---------------------------------------------------------------------------------------------
def canaries(chk):
    # a list printer that drops the last child must be refuted by the token clause
    real = REG[List]
    REG[List] = ((lambda x: "[" + " ".join(HR.hy_repr(e) for e in list(x)[:-1]) + "]"), real[1])
    try:
        G = Group()
        m = List([sym(0), sym(1), sym(2)])
        G.add("c", occurrences(printer(m), [child_text(k) for k in m]) is None)
        dropped = G.g["c"]["bad"] == 1
        rt = L.roundtrip(hy.read("[a b c]")) is not None
    finally:
        REG[List] = real
    chk.canary("a List printer that drops its last child is refuted by the token clause and by the round trip", dropped and rt)
    # a String printer that ignores brackets must be refuted by the attribute clause
    real = REG[String]
    REG[String] = ((lambda x: '"' + str(x) + '"'), real[1])
    try:
        r = L.roundtrip(hy.read("#[[abc]]"))
    finally:
        REG[String] = real
    chk.canary("a String printer that ignores `brackets` is refuted by the attribute clause", r is not None)
    # an FComponent printer that drops the conversion
    real = REG[FComponent]
    REG[FComponent] = ((lambda x: "{" + HR.hy_repr(x[0]) + "}"), real[1])
    try:
        r = L.roundtrip(hy.read('f"{x !r}"'))
    finally:
        REG[FComponent] = real
    chk.canary("an FComponent printer that drops the conversion is refuted", r is not None)


def after_failed_prints(chk):
    """The round trip holds for every model *whenever* it is printed - also after hy.repr calls that raised part-way through a model
    (an integer literal beyond CPython's int-to-str digit limit, an object inside a model whose printer raises)."""
    import types
    samples = ['[1 2.5 "s"]', "#(a b)", '{"k" v}', "42", '"text"', "sym", ":kw", "(f x [y])", 'f"{x !r :>{w}}"', "#{1}", 'b"by"']
    models = [hy.read(t) for t in samples]
    before = [hy.repr(m) for m in models]

    class Unprintable:
        def __repr__(self):
            raise ZeroDivisionError("no repr")
    huge = hy.models.Integer(int("f" * 4000, 16))
    failing = [huge, hy.models.List([hy.models.Symbol("a"), huge]), hy.models.Expression([hy.models.Symbol("f"), Unprintable()]),
               hy.models.List([hy.models.Tuple([Unprintable()])]), hy.models.Dict([hy.models.String("k"), Unprintable()])]
    bad = None
    raised = 0
    for f in failing:
        try:
            hy.repr(f)
        except Exception:  # noqa: BLE001
            raised += 1
        for t, m, b in zip(samples, models, before):
            now = hy.repr(m)
            chk.case(("after-failed-print", t, raised))
            if now != b and bad is None:
                bad = (t, b, now)
            elif bad is None:
                try:
                    back = hy.eval(hy.read(now), module=types.ModuleType("hv_c25_after"))
                    if type(back) is not type(m) or back != m:
                        bad = (t, b, f"{now!r} reads back as {back!r}")
                except Exception as e:  # noqa: BLE001
                    bad = (t, b, f"{now!r}: {type(e).__name__}")
    chk.ob("roundtrip/after hy.repr calls that raised inside a model, every model still prints the text that reads back to it",
           bad is None and raised >= 3, "rtc", "bounded",
           detail=f"{raised} failing prints, {len(samples)} models re-checked after each" if bad is None else
           f"{bad[0]}: printed {bad[1]!r} before and {bad[2]} after a failed hy.repr",
           replay=None if bad is None else {"confirmed": True, "input": f"hy.repr of a model containing an unprintable object, then hy.repr of {bad[0]}",
                                            "observed": str(bad[2]), "expected": bad[1]})


def run(chk):
    chk.level = "other"
    chk.explanation = ("Per-printer output contracts are decided completely for all child shapes and attribute combinations up to 4 "
                       "children / parts / spec components (arity_bounded); leaf printers over vocabularies and the end-to-end round "
                       "trip over generated texts are bounded stand-ins.  No unbounded proof: the printers are compiled Hy code "
                       "outside the deductive subset and the quantifier ranges over all readable texts.")
    structural_part(chk, chk.tier)
    roundtrip_part(chk, chk.tier)
    after_failed_prints(chk)
    canaries(chk)
    chk.fn("hy/core/hy_repr.hy::hy-repr", "hy/core/hy_repr.hy::_cat", "hy/core/hy_repr.hy::_base-repr",
           "hy/core/hy_repr.hy::printers registered for Tuple, List, Set, Dict, Expression, Symbol, Keyword, String, Bytes, Float, "
           "Complex, FComponent, FString", "hy/models.py::Complex.__new__, String.__new__, FString.__new__, FComponent.__new__",
           "hy/reader/hy_reader.py::HyReader.bracketed_string, read_fcomponent, read_chars_until, as_identifier")
    chk.trust("hy.read / hy.eval of quoted models rebuild exactly the model written (C30)",
              "CPython's parser as oracle for double-quoted literals", "the marker children stand for arbitrary children of their kind "
              "(symbol, other model, string): printers inspect children only through type tests and the symbol names enumerated")


def replay(path):
    from hv.replay import replay_file
    return replay_file(path)
