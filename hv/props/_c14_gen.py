"""C14 helper: generated Hy programs (texts).  Nothing here imports hy.

  catalogue()        construct -> hand-written program schemas covering the constructs of properties C01-C09 (several
                     variants each; holes filled from small vocabularies)
  precedence()       (outer context group, inner kind, program) for every outer context x inner expression kind
  mincing()          (position, keyword, program): every Python keyword in every identifier-bearing position Hy can express
  literals()         (class, program): numeric / string / bytes / docstring constants
  random_program(r)  a seeded random composition of statements and expressions over int / list valued variables

Every program runs in the namespace of hv/props/_c14_rt.py (log, boom, E1.., CM, Pt, ident, kw, deco).
"""
import keyword

PRELUDE = '(setv a 3 b 5 xs [1 2 3] d {"k" 1 "j" 2} pt (Pt 1 2) w 0)\n'


def guarded(body):
    """the form, with an escaping Exception logged (type only) so that later forms still run"""
    return f"(try {body} (except [e Exception] (log \"exc\" (. (type e) __name__))))"


# ------------------------------------------------------------------------------------------------
# catalogue
# ------------------------------------------------------------------------------------------------
def catalogue():
    C = {}
    P = PRELUDE
    C["do"] = [P + '(log "r" (do (log "1") (log "2" a)))', P + "(do)", P + '(setv r (do (setv q 1) (+ q 1)))', P + '(log "r" (do))']
    C["if"] = [P + '(log "r" (if a (log "t" 1) (log "f" 2)))', P + '(if (log "c" 0) (log "t") (log "f"))',
               P + '(log "r" (if (do (setv q a) q) (do (setv z 1) z) (do (setv z 2) z)))', P + '(log "r" (if a 1 (if b 2 3)) (if (if a 0 1) 2 3))']
    C["cond-when-unless"] = [P + '(log "r" (cond (> a 5) "big" (> a 2) (do (log "mid") "mid") True "small"))', P + '(log "r" (cond))',
                             P + '(log "r" (when a (log "w") 1) (when 0 2) (when (not a) 4))', P + '(when a (setv q 1) (log "q" q))']
    C["and-or-not"] = [P + '(log "r" (and a b) (and a 0 (boom "no")) (or 0 a (boom "no")) (or 0 [] None) (and) (or) (not a) (not (and a (or 0 b))))',
                       P + '(log "r" (and (do (setv q 1) q) (do (setv z 0) z) (log "no")))', P + '(log "r" (or (when 0 1) (do (setv z 7) z)))',
                       P + '(log "r" (not (not a)) (and (or a b) (or b a)) (or (and 0 a) (and a b)))']
    C["setv-setx"] = [P + '(setv q 1 z (+ q 1)) (log "r" q z)', P + "(setv)", P + '(log "r" (setx q (+ a 1)) q)', P + '(setv q (setx z 4)) (log "r" q z)',
                      P + '(setv [p #* q] xs [m [n o]] [1 [2 3]]) (log "r" p q m n o)', P + '(setv (get d "n") 9 pt.x 10 (. pt y) 11 (get xs 0) 12) (log "r" d pt xs)',
                      P + '(setv #(p q) #(1 2)) (log "r" p q)', P + '(setv q (if a (do (setv z 1) z) 2))', P + '(setv #^ int q 1) #^ str z (log "r" q __annotations__)',
                      P + '(log "r" (lfor x xs :if (setx q (- x 1)) q))']
    C["augmented-assignment"] = [P + f'(setv q 7) ({op}= q 2) (log "r" q)' for op in ("+", "-", "*", "/", "//", "%", "**", "<<", ">>", "&", "|", "^")] + \
        [P + '(setv q 1) (+= q 1 2 3) (-= q 1 1) (*= q 2 3) (log "r" q)', P + '(+= pt.x 5) (+= (get d "k") 1) (+= (get xs 0) (do (setv z 1) z)) (log "r" pt d xs)',
         P + "(setv q [1]) (+= q [2] [3]) (*= q 2) (log \"r\" q)", P + '(setv q 2) (**= q 2 3) (/= q 2 4) (log "r" q)']
    C["while"] = [P + '(setv i 3) (while (> i 0) (-= i 1) (log "i" i))', P + '(setv i 3) (while (> i 0) (-= i 1) (when (= i 1) (break)) (log "i" i) (else (log "else")))',
                  P + '(setv i 3) (while (> i 0) (-= i 1) (when (= i 1) (continue)) (log "i" i) (else (log "else")))',
                  P + '(setv i 2) (log "r" (while (do (log "test") (> i 0)) (-= i 1)))', P + '(setv i 2) (while (do (setv t (> i 0)) t) (-= i 1) (else (log "e" i)))',
                  P + '(setv i 0) (while True (+= i 1) (when (> i 2) (break))) (log "r" i)']
    C["for"] = [P + '(for [x xs] (log "x" x))', P + '(for [x xs] (when (= x 2) (break)) (log "x" x) (else (log "else")))',
                P + '(for [x xs] (when (= x 2) (continue)) (log "x" x) (else (log "else")))', P + '(for [x xs y [10 20]] (log "xy" x y))',
                P + '(for [[k v] (.items d)] (log "kv" k v))', P + '(for [x xs :if (> x 1) y (range x)] (log "xy" x y))', P + '(for [x xs :setv y (* x 2)] (log "y" y)) (log "leak" x y)',
                P + '(for [#(i x) (enumerate xs)] (setv (get xs i) (* x x))) (log "r" xs)', P + '(log "r" (for [x xs] x))', P + '(for [x (do (setv q xs) q)] (log "x" x))',
                P + '(for [x xs :do (log "do" x)] (log "x" x))', P + '(for [[p #* q] [[1 2 3] [4]]] (log "pq" p q))']
    C["try"] = [P + '(log "r" (try (log "b" 1) (except [E1] 2)))', P + '(log "r" (try (boom "x") (except [e E1] (log "h" (str e)) 2) (else (log "else") 3) (finally (log "fin"))))',
                P + '(log "r" (try (log "b" 1) (except [e E1] 2) (else (log "else") 3) (finally (log "fin"))))', P + '(try (boom "x" E3) (except [[E1 E2]] (log "h1")) (except [] (log "bare")))',
                P + '(try (boom "x" E2) (except [e [E3 E1]] (log "h" (. (type e) __name__))))', P + '(try (try (boom "in") (finally (log "fin"))) (except [e E1] (log "outer" (str e))))',
                P + '(try (try (boom "in") (except [e E1] (raise (E3 "re") :from e))) (except [e E3] (log "outer" (str e) (str e.__cause__))))',
                P + '(try (try (boom "in") (except [E1] (raise))) (except [e E1] (log "reraised" (str e))))', P + '(setv e 5) (try (boom "x") (except [e E1] (log "h"))) (log "e" e)',
                P + '(try (boom "x" E3) (except [E1] (log "no")) (finally (log "fin")))', P + '(defn f [] (try (return 1) (finally (log "fin")))) (log "r" (f))',
                P + '(log "r" (try 1 (except [E1] 2) (else (do (setv z 3) z))))', P + '(try (raise (E1 "a" "b")) (except [e E1] (log "args" e.args)))',
                P + '(try (boom "x") (except [e E1] (try (boom "y" E3) (except [e E3] (log "in" (str e)))) (log "h" (str e))))',
                P + '(try (raise (ExceptionGroup "g" [(E1 "a") (E3 "b")])) (except* [E1] (log "e1")) (except* [e E3] (log "e3" (len e.exceptions))))']
    C["with"] = [P + '(with [c (CM "a")] (log "b" c))', P + '(log "r" (with [c (CM "a") e (CM "b" :value 7)] (+ e 1)))', P + '(with [(CM "a")] (log "b"))',
                 P + '(with [_ (CM "a") c (CM "b")] (log "b" c))', P + '(log "r" (with [(CM "a" :suppress True)] (boom "x") 1))', P + '(with [c (CM "a")] (boom "x"))',
                 P + '(with [c (do (setv q (CM "a")) q)] (log "b"))', P + '(with [[p q] (CM "a" :value [1 2])] (log "pq" p q))', P + '(with [pt.x (CM "a" :value 9)] (log "b")) (log "r" pt)',
                 P + '(defn f [] (with [c (CM "a")] (return 5))) (log "r" (f))']
    C["match"] = [P + '(log "r" (match a 1 "one" 3 "three" _ "other"))', P + '(log "r" (match xs [] 0 [x] x [x #* r] #(x r)))', P + '(log "r" (match d {"k" v #** r} #(v r)))',
                  P + '(log "r" (match pt (Pt 1 y) y))', P + '(log "r" (match pt (Pt :x 1 :y yy) yy) (match pt (Pt x) x))', P + '(log "r" (match a (| 1 2 3) "small" _ "big"))',
                  P + '(log "r" (match xs [1 (| 2 5) :as m #* _] m))', P + '(log "r" (match a x :if (> x 5) "big" x :if (do (setv q x) (> q 2)) "mid" _ "small"))',
                  P + '(log "r" (match a 99 1))', P + '(log "r" (match "s" "s" 1) (match 1.5 1.5 2) (match None None 5) (match True True 6) (match b"x" b"x" 7))',
                  P + '(log "r" (match pt.x 1 "v") (match a pt.x "no" b.real "no2" _ "other"))', P + '(match a 3 (log "s" 1) _ (log "s" 2))', P + '(log "r" (match xs [#* _] "any") (match xs [_ _ z] z))',
                  P + '(log "r" (match [pt d] [(Pt :x 1) {"j" 2}] "deep"))', P + '(log "r" (match #(1 2) #(p q) (+ p q)))', P + '(log "r" (match d {"k" 1 "j" jj} jj {} "empty"))',
                  P + '(log "r" (match xs [p q r] :as whole [whole p]))']
    params = ["[]", "[p]", "[p q]", "[p [q 2]]", "[p / q]", "[p * q]", "[p #* r]", "[p #** k]", "[p [q 1] / [z 2] * [u 3] v #** k]", "[#* r #** k]", "[* [q 5]]",
              "[#^ int p #^ str [q \"s\"]]", "[p / [q 2] #* r]", "[[p 1] [q (+ a 1)]]"]
    calls = {"[]": ["(f)"], "[p]": ["(f 1)", "(f :p 1)", "(f #* [1])", "(f #** {\"p\" 1})", "(f)"], "[p q]": ["(f 1 2)", "(f 1 :q 2)", "(f :q 2 :p 1)", "(f :q 2 1)", "(f #* [1 2])", "(f 1 #** {\"q\" 2})"],
             "[p [q 2]]": ["(f 1)", "(f 1 3)", "(f 1 :q 4)"], "[p / q]": ["(f 1 2)", "(f 1 :q 2)", "(f :p 1 :q 2)"], "[p * q]": ["(f 1 :q 2)", "(f 1 2)"],
             "[p #* r]": ["(f 1)", "(f 1 2 3)", "(f #* xs #* xs)"], "[p #** k]": ["(f 1)", "(f 1 :z 2 :y 3)", "(f :p 1 #** d)"],
             "[p [q 1] / [z 2] * [u 3] v #** k]": ["(f 1 2 3 :v 4)", "(f 1 :z 3 :v 4 :extra 5)", "(f 1 2 3 4 :v 5)"], "[#* r #** k]": ["(f)", "(f 1 :k 2)", "(f #* xs #** d)"],
             "[* [q 5]]": ["(f)", "(f :q 6)"], "[#^ int p #^ str [q \"s\"]]": ["(f 1)", "(f 1 \"t\")"], "[p / [q 2] #* r]": ["(f 1)", "(f 1 2 3 4)"], "[[p 1] [q (+ a 1)]]": ["(f)", "(f 2)", "(f :q 9)"]}
    C["defn-parameters-and-calls"] = []
    for ps in params:
        names = [n for n in ("p", "q", "z", "u", "v", "r", "k") if f" {n}" in " " + ps.replace("[", " ").replace("]", " ")]
        body = '(log "args" ' + " ".join(names) + ")" if names else '(log "args")'
        for call in calls[ps]:
            C["defn-parameters-and-calls"].append(P + f"(defn f {ps} {body})\n" + guarded(f'(log "r" {call})'))
        C["defn-parameters-and-calls"].append(P + f'(setv f (fn {ps} {body}))\n' + guarded(f'(log "r" {calls[ps][0]})'))
    C["defn-forms"] = [P + '(defn f [p] "doc string" (+ p 1)) (log "r" (f 1) f.__doc__)', P + '(defn f [] "only a string") (log "r" (f) f.__doc__)',
                       P + '(defn #^ int f [#^ int p] p) (log "r" f.__annotations__)', P + '(defn [(deco "d1") (deco "d2")] f [] 1) (log "r" (f))', P + '(defn f []) (log "r" (f))',
                       P + '(defn f [p] (when p (return "early")) (log "late") "end") (log "r" (f 1) (f 0))', P + '(defn f [] (return)) (log "r" (f))',
                       P + '(defn f [] (setv q (do (setv z 1) z)) (if q (do (setv y 1) y) 2)) (log "r" (f))', P + '(defn f [p] (defn g [q] (+ p q)) g) (log "r" ((f 1) 2))',
                       P + '(defn :tp [T] f [#^ T p] p) (log "r" (f 1) f.__type_params__)', P + '(setv f (fn [p] (setv q p) (+ q 1))) (log "r" (f 1))', P + '(log "r" ((fn [] 5)) ((fn [p [q 2]] (+ p q)) 1))',
                       P + '(defn f [p] (if p (f (- p 1)) "done")) (log "r" (f 3))', P + '(import asyncio) (defn :async f [p] (await (asyncio.sleep 0)) (+ p 1)) (log "r" (asyncio.run (f 1)))',
                       P + '(import asyncio) (defn :async g [] (yield 1) (yield 2)) (defn :async f [] (lfor :async x (g) x)) (log "r" (asyncio.run (f)))',
                       P + '(import asyncio) (defn :async f [] (with [:async c (ACM)] (for [:async x (ag)] (log "x" x)))) (log "r" f.__name__)']
    C["return-yield"] = [P + '(defn g [] (yield 1) (yield 2)) (log "r" (list (g)))', P + '(defn g [] (yield :from xs) (yield :from (gfor x xs (* x 2)))) (log "r" (list (g)))',
                         P + '(defn g [] (setv q (yield 1)) (log "sent" q) (yield (+ q 1))) (setv it (g)) (log "r" (next it) (.send it 10))', P + '(defn g [] (yield)) (log "r" (list (g)))',
                         P + '(defn g [] (yield 1) (return 5)) (defn h [] (setv q (yield :from (g))) (log "ret" q)) (log "r" (list (h)))',
                         P + '(defn g [] (for [x xs] (when (= x 2) (continue)) (yield x))) (log "r" (list (g)))', P + '(log "r" (list ((fn [] (yield 1) (yield 2)))))',
                         P + '(defn g [] (log "r" (yield 1) (yield 2))) (log "r" (list (g)))']
    C["comprehensions"] = [P + '(log "r" (lfor x xs (* x 2)))', P + '(log "r" (lfor x xs :if (> x 1) y (range x) #(x y)))', P + '(log "r" (lfor x xs :setv y (* x x) :if (> y 1) y))',
                           P + '(log "r" (sfor x xs (% x 2)) (dfor x xs x (* x x)) (list (gfor x xs (+ x 1))))', P + '(log "r" (lfor x xs :do (log "do" x) x))',
                           P + '(log "r" (lfor x xs (do (setv q (* x 2)) q)))', P + '(log "r" (lfor x xs #* [x x]) (dfor x xs #** {x 1}))', P + '(log "r" (lfor x xs (lfor y (range x) (+ x y))))',
                           P + '(setv x "outer") (log "r" (lfor x xs x) x)', P + '(log "r" (lfor [p q] [[1 2] [3 4]] (+ p q)) (lfor #(i x) (enumerate xs) (* i x)))',
                           P + '(setv g (gfor x xs (log "lazy" x))) (log "before") (log "r" (list g))', P + '(log "r" (lfor x xs :if (do (setv t (> x 1)) t) x))', P + '(log "r" (sum (gfor x xs :if (% x 2) x)))',
                           P + '(log "r" (lfor x (if a xs []) (if x 1 0)) (lfor x xs (fn [] x)))', P + '(log "r" (dfor [k v] (.items d) v k) (sfor x xs :if (> x 1) :setv y (+ x 1) y))']
    C["let"] = [P + '(log "r" (let [a 10 q (+ a 1)] (+ a q)) a)', P + '(let [a 1] (let [a 2] (log "in" a)) (log "out" a))', P + '(let [q 1] (setv q 2) (log "q" q)) (log "r" (in "q" (globals)))',
                P + '(setv fs (let [c 0] [(fn [] (nonlocal c) (+= c 1) c) (fn [] c)])) (log "r" ((get fs 0)) ((get fs 0)) ((get fs 1)))', P + '(log "r" (let [[p q] [1 2]] (+ p q)))',
                P + '(let [x 5] (log "r" (lfor x xs x) x))', P + '(let [q 1] (defn f [] q) (setv q 2)) (log "r" (f))', P + '(defn f [p] (let [p (+ p 1) q (* p 2)] #(p q))) (log "r" (f 1))',
                P + '(log "r" (let [] 1) (let [q 1]))']
    C["defclass"] = [P + '(defclass A [] "doc" (setv v 1) (defn __init__ [self p] (setv self.p p)) (defn m [self] (+ self.p self.v))) (log "r" (.m (A 2)) A.__doc__)',
                     P + '(defclass A []) (defclass B [A] (defn m [self] "b")) (log "r" (.m (B)) (issubclass B A))', P + '(defclass [(deco "c")] A [] (setv v (+ a 1))) (log "r" A.v)',
                     P + '(defclass A [] (defn m [self] 1)) (defclass B [A] (defn m [self] (+ (.m (super)) 1))) (log "r" (.m (B)))', P + '(defclass M [type]) (defclass A [:metaclass M]) (log "r" (type A))',
                     P + '(defclass A [] (setv [p q] [1 2]) (for [i xs] (log "i" i)) (if a (setv z 1) (setv z 2))) (log "r" A.p A.q A.z A.i)',
                     P + '(defclass A [] (defn [staticmethod] s [p] p) (defn [classmethod] c [cls] cls.__name__) (defn [property] pr [self] 7)) (log "r" (A.s 1) (A.c) (. (A) pr))',
                     P + '(defclass :tp [T] A [] (setv v 1)) (log "r" A.__type_params__)', P + '(defclass A [] (defn __getattr__ [self n] n)) (log "r" (. (A) foo-bar) (. (A) def))', P + '(log "r" (defclass A []))']
    C["global-nonlocal"] = [P + '(defn f [] (global w) (setv w 5)) (f) (log "r" w)', P + '(defn f [] (setv q 1) (defn g [] (nonlocal q) (+= q 1)) (g) q) (log "r" (f))',
                            P + '(defn f [] (global newg z) (setv newg 1 z 2)) (f) (log "r" newg z)', P + '(defn f [] (setv p 1 q 2) (defn g [] (nonlocal p q) (setv p 3 q 4)) (g) [p q]) (log "r" (f))',
                            P + '(defn f [] (nonlocal w) (setv w 9)) (f) (log "r" w)']
    C["chained-comparison-and-operators"] = [P + '(log "r" (< 1 a 5) (< 1 a 2 (boom "no")) (<= 3 a 3) (= a 3 3) (!= a 4) (> 9 a 1) (>= a b))', P + '(log "r" (chainc 1 < a <= 3 != b))',
                                             P + '(log "r" (is a a) (is-not a None) (in a xs) (not-in a xs) (in 1 xs [xs]))', P + '(log "r" (+ 1 2 3) (- 10 1 2) (* 2 3 4) (/ 8 2 2) (** 2 3 2) (// 9 2) (% 9 4) (+) (*) (- 5) (/ 4) (+ a))',
                                             P + '(log "r" (& 7 3) (| 1 2 4) (^ 5 1) (<< 1 3) (>> 16 2) (bnot 5) (bnot (bnot 5)))', P + '(log "r" (+ "a" "b") (* [1] 2) (+ [1] [2] [3]) (% "%s-%s" #(1 2)))',
                                             P + '(log "r" (- (- a)) (- (+ a)) (bnot (bnot a)) (not (- a)) (- (not a)))', P + '(log "r" (< (+ a 1) (* b 2)) (+ (< a b) 1) (= (= a a) True))',
                                             P + '(log "r" (+ #* xs) (* #* xs) (< #* xs))', P + '(import operator) (log "r" (@ (Mat) (Mat)))']
    C["unpacking-and-keyword-arguments"] = [P + '(log "r" (kw 1 #* xs 2 #* [3]) (kw :p 1 #** d :q 2) (kw #* xs #** d))', P + '(log "r" [#* xs 0 #* xs] #(#* xs) #{#* xs} {#** d "z" 0 #** {"y" 1}})',
                                            P + '(kw :if 1 :class 2 :foo-bar 3 :ok? 4 :λ 5)', P + '(kw 1 :p 2 3 :q 4 5)', P + '(log "r" (kw #* (lfor x xs (* x 2)) #** (dfor x xs (str x) x)))',
                                            P + '(setv [p #* q] xs [#* m n] xs [o #* _ r] [1 2 3 4]) (log "r" p q m n o r)', P + '(log "r" (kw (do (setv q 1) q) :k (do (setv z 2) z)))',
                                            P + '(log "r" (print "x" :sep "" :end "!\\n") (dict :p 1 :q 2))']
    C["attributes-subscripts-calls"] = [P + '(log "r" pt.x (. pt y) (. pt x real) (.bit-length a) (. d (get "k")) (. xs [0]) (. "abc" (upper) [1]))', P + '(log "r" (get d "k") (get xs 0) (get [[1 2] [3 4]] 1 0) (cut xs 1) (cut xs 0 2) (cut xs None None -1) (cut xs))',
                                        P + '(log "r" (.upper "ab") (.join "-" ["a" "b"]) ((. "x" upper)) (.format "{}-{k}" 1 :k 2))', P + '(del (get d "k") (get xs 0) pt.x) (log "r" d xs (hasattr pt "x"))',
                                        P + '(setv q 1) (del q) (log "r" (in "q" (globals)))', P + '(log "r" (get d (if a "k" "j")) (get (if a xs []) (- a 3)) (. (if a pt None) x))',
                                        P + '(log "r" (get xs (slice 1 None)) (get {#(1 2) 3} #(1 2)) (get [[1]] 0 0))', P + '(log "r" ((get [len] 0) xs) ((. pt __class__) 5 6) ((fn [x] x) 1))']
    C["fstrings"] = [P + '(log "r" f"a{a}b{b !r}c{xs !s :>12}d")', P + '(log "r" f"{a = } {(+ a 1) = !s} {a = :>4}")', P + '(log "r" f"{a :{b}} {a :>{b}.{a}} {1.5 :{a}.{(- b 4)}f}")',
                     P + '(log "r" f"{{}}{a}{{{b}}}" f"" f"{"q"}{\'s}" f"\\N{BULLET}\\n\\t\\"\'{a}")', P + '(log "r" f"{(if a "y" "n")} {(lfor x xs x)} {(fn [] 1)} { {1 2} } {#{1}}")'.replace("{(fn [] 1)}", "{((fn [] 1))}"),
                     P + '(log "r" f"{"\\n" !r} {"\'" !r} {"\\"" !r} {"\\\\" !r}")', P + '(log "r" #[f[{a}\\n"q" \'s\' {b !r :>3}]f])', P + '(log "r" f"{(do (setv q 1) q)} {(setx z 2)}" q z)',
                     P + '(log "r" f"{a !a :^7}|{"é" !a}|{"é" !r}|{"é"}")', P + '(log "r" f"x{f"y{a}z" :>8}w")', P + '(log "r" f"{d ["k"]}")'.replace('{d ["k"]}', '{(get d "k")}'), P + '(log "r" f"{a :\\t>4}|{a :\\x41>4}")']
    C["mangled-and-unicode-names"] = [P + '(setv foo-bar 1 ok? 2 *glob* 3 -lead 4 λ 5 naïve 6 foo! 7 a->b 8 <tag> 9 _under 10 __dunder__ 11 日本 12) (log "r" foo-bar ok? *glob* -lead λ naïve foo! a->b <tag> _under __dunder__ 日本)',
                                      P + '(defn valid? [x-y] (+ x-y 1)) (log "r" (valid? 1) (valid? :x-y 2))', P + '(defclass My-Class [] (setv class-attr 1) (defn do-it! [self] "done")) (log "r" My-Class.class-attr (.do-it! (My-Class)))',
                                      P + '(setv ℂ 1 ﬁ 2 𝔘 3) (log "r" ℂ ﬁ 𝔘 (sorted (gfor k (globals) :if (not (in k ["log"])) :if (< (len k) 3) k)))', P + '(import math [floor :as my-floor]) (log "r" (my-floor 1.5))',
                                      P + '(setv hyx_XasteriskX 1) (log "r" hyx_XasteriskX *)'.replace(" *)", ")"), P + '(kw :a-b 1 :c? 2) (log "r" (dict :a-b 1))']
    C["keywords-as-identifiers"] = [P + '(setv def 1 class 2 if 3 lambda 4 import 5 return 6 pass 7 yield 8) (log "r" def class if lambda import return pass yield)', P + '(defn def [class] (+ class 1)) (log "r" (def 1) (def :class 2))', P + '(defn while [if] (+ if 1)) (log "r" ((do while) 1) ((do while) :if 2))',
                                    P + '(kw :if 1 :else 2 :for 3 :in 4 :is 5 :not 6 :and 7 :or 8)', P + '(setv pt.def 1 pt.class 2) (log "r" pt.def (. pt class) (getattr pt "def"))', P + '(for [in xs] (log "in" in))',
                                    P + '(log "r" (lfor for xs :if for (* for 2)))', P + '(try (boom "x") (except [except E1] (log "h" (str except))))', P + '(with [with (CM "a")] (log "w" with))',
                                    P + '(import math :as from) (log "r" (from.floor 1.5))', P + '(import math [floor :as del]) (log "r" ((do del) 1.5))', P + '(log "r" (match a else else))', P + '(defclass while [] (setv try 1)) (log "r" while.try)',
                                    P + '(defn f [#* global #** nonlocal] #(global nonlocal)) (log "r" (f 1 :assert 2))', P + '(log "r" ((fn [await async] (+ await async)) 1 2))', P + '(log "r" (let [raise 1 with 2] (+ raise with)))',
                                    P + '(setv match 1 case 2 type 3 _ 4) (log "r" match case type _)', P + '(log "r" f"{def}")'.replace("(log", "(setv def 1) (log"), P + '(log "r" (setx finally 3) finally)', P + '(setv 𝐝ef 1) (log "r" def)']
    C["import-require-macros"] = [P + '(import math) (import math [floor ceil :as c]) (import os.path) (import os.path :as p) (import math *) (log "r" (math.floor 1.5) (floor 2.5) (c 1.2) (os.path.basename "a/b") (p.basename "c/d") (sqrt 4))',
                                  P + '(import math [floor] os [getcwd :as cwd]) (log "r" (floor 1.5) (callable cwd))', P + '(defmacro m [x] `(+ ~x 1)) (log "r" (m 2))', P + '(defmacro m [#* xs] `(do ~@xs)) (log "r" (m 1 2 3))',
                                  P + '(require hy.core.macros [when :as w]) (log "r" (w a 1))', P + '(log "r" (hy.I.math.floor 1.5))', P + '(eval-when-compile (setv ct 1)) (eval-and-compile (setv both 2)) (log "r" both)',
                                  P + '(defreader r (.parse-one-form &reader) 5) (log "r" #r 0)'.replace("(.parse-one-form &reader) 5", "(.parse-one-form &reader) 5"), P + '(defmacro m [] (quote (setv via-macro 1))) (m) (log "r" via-macro)',
                                  P + "(defn f [] (import math [floor]) (floor 1.5)) (log \"r\" (f))"]
    C["quote"] = [P + "(log \"r\" 'a '(a b) '[1 \"s\" :k 1.5 2j b\"x\"] '#{x} '{a 1} '#(t) 'f\"x{y}\")", P + '(log "r" `(a ~a ~@xs) `[~@xs ~(+ a 1)] `(~@[]))', P + '(log "r" `(a `(b ~(c ~a))))', P + "(log \"r\" (hy.eval '(+ 1 2)) (hy.eval `(+ ~a 1)))",
                  P + "(log \"r\" (hy.repr '(a b)) (hy.repr [1 \"a\"]))", P + "(log \"r\" ':k :k (hy.models.Keyword \"z\"))"]
    C["assert-raise"] = [P + '(assert a)', P + '(assert (= a 4) "msg")', P + '(assert (= a 4) (log "m" "lazy"))', P + '(assert (do (setv q 1) q) (do (setv z "m") z))', P + '(raise (E1 "x"))', P + '(raise E3)',
                         P + '(try (raise (E1 "x") :from (E3 "c")) (except [e E1] (log "c" (str e.__cause__))))', P + '(try (raise (E1 "x") :from None) (except [e E1] (log "c" e.__suppress_context__)))', P + '(assert 0 (+ "a" "b"))']
    # anonymous functions with an annotation on each kind of parameter (and on nothing else) and a pure-expression body: the annotation
    # forces a def, because a lambda cannot carry it (compile() ignores it, ast.unparse prints text that does not parse)
    C["fn-annotated-parameters"] = [
        P + f'(setv f (fn [{params}] {body})) (log "r" {call})' for params, body, call in (
            ("#^ int p", "(+ p 1)", "(f 1)"), ("#^ int [p 2]", "(+ p 1)", "(f)"), ("#^ int p /", "(+ p 1)", "(f 1)"), ("* #^ int p", "(+ p 1)", "(f :p 1)"),
            ("#^ int #* r", "(sum r)", "(f 1 2)"), ("#^ int #** k", "(sorted k)", "(f :a 1)"), ("p #^ int #* r", "(+ p (sum r))", "(f 1 2 3)"),
            ("p #^ str #** k", "[p (sorted k)]", "(f 1 :z 2)"), ("* [q 1] #^ int #** k", "[q (sorted k)]", "(f :y 2)"))
    ] + [P + '(log "r" (len #{(fn [#^ int #* r] 0)}) (type #{(fn [#^ int #** k] 0)}))', P + '(setv f (fn #^ int [p] p)) (log "r" (f 1))']
    C["py-pys-annotations"] = [P + '(log "r" (py "a + 1") (py "[x for x in xs]") (py "(lambda: 1)()"))', P + '(pys "q = 1\\nfor i in xs:\\n    log(\'i\', i)") (log "r" q)', P + '(setv #^ int q 1) (setv #^ (get list int) z []) #^ str nv (log "r" __annotations__)',
                               P + '(defn f [#^ int p #^ (| int None) [q None] #^ int #* r #^ str #** k] p) (log "r" f.__annotations__)', P + '(log "r" (annotate q int))'.replace('(log "r" (annotate q int))', '(annotate q int) (log "r" __annotations__)'),
                               P + '(defclass A [] #^ int x (setv #^ str y "s")) (log "r" A.__annotations__)', P + '(deftype :tp [T] Alias (get list T)) (log "r" Alias.__name__)']
    C["deftype-without-type-parameters"] = [P + '(deftype Alias int) (log "r" Alias.__name__ Alias.__value__)', P + '(deftype Alias (get dict str int)) (log "r" Alias.__name__)',
                                            P + '(defn f [] (deftype Local (| int None)) Local) (log "r" (. (f) __name__))']
    C["statements-in-expression-position"] = [P + '(log "r" (+ (do (setv q 1) q) (if a (do (setv z 2) z) 3) (try (boom "x") (except [E1] 4)) (with [c (CM "m" :value 5)] c) (match a 3 6)))',
                                              P + '(log "r" [(while False) (for [x []] x) (setv q 1) (del q) (defn f []) (defclass A []) (import math) (assert True) (global g)])'.replace(" (global g)", ""),
                                              P + '(log "r" (kw (try 1 (finally (log "fin"))) :k (with [c (CM "m")] c)))', P + '(log "r" (if (try (boom "x") (except [E1] 0)) "t" "f"))', P + '(log "r" (lfor x xs (try (/ 1 (- x 2)) (except [ZeroDivisionError] "z"))))',
                                              P + '(defn f [] (+ 1 (try (return "early") (finally (log "fin"))))) (log "r" (f))', P + '(log "r" ((fn [] (setv q 1) (for [x xs] (+= q x)) q)))', P + '(log "r" (get xs (do (setv i 0) i)) (. (do (setv o pt) o) x))']
    return C


# ------------------------------------------------------------------------------------------------
# precedence matrix
# ------------------------------------------------------------------------------------------------
INNER = {
    "lambda": "(fn [] 1)", "ternary": "(if a 2 0)", "walrus": "(setx w 4)", "or": "(or 0 a)", "and": "(and a 2)", "not": "(not a)", "compare": "(< a 9)",
    "chained-compare": "(< 0 a 9)", "is": "(is a None)", "in": "(in a xs)", "bitor": "(| a 8)", "bitxor": "(^ a 1)", "bitand": "(& a 7)", "shift": "(<< a 1)", "add": "(+ a 1)", "sub": "(- a 1)",
    "mul": "(* a 2)", "div": "(/ a 2)", "floordiv": "(// a 2)", "mod": "(% a 2)", "unary-minus": "(- a)", "unary-plus": "(+ a)", "invert": "(bnot a)", "pow": "(** a 2)",
    "call": "(ident a)", "method-call": "(.bit-length a)", "subscript": "(get xs 0)", "slice": "(cut xs 1)", "attribute": "pt.x", "name": "a", "int": "7", "float": "1.5", "complex": "2j",
    "string": '"s"', "bytes": 'b"s"', "none": "None", "true": "True", "ellipsis": "...", "tuple": "#(a 1)", "empty-tuple": "#()", "list": "[a]", "dict": '{"k" a}', "set": "#{a}",
    "listcomp": "(lfor x xs x)", "genexp": "(gfor x xs x)", "dictcomp": "(dfor x xs x x)", "fstring": 'f"{a}"', "statement-do": "(do (setv q 2) q)", "try-expr": "(try a (except [E1] 0))",
    "quoted-symbol": "'sym", "quoted-form": "'(f x)",
    # operators applied to literals: nothing may be folded into a constant that prints with other binding strength
    "unary-minus-of-int": "(- 7)", "unary-plus-of-int": "(+ 7)", "unary-minus-of-float": "(- 1.5)", "invert-of-int": "(bnot 7)", "minus-of-minus-literal": "(- (- 7))",
    "sum-of-literals": "(+ 1 2)", "product-of-literals": "(* 2 3)", "power-of-literals": "(** 2 3)", "difference-of-literals": "(- 1 8)",
}
# one representative per Python precedence level / atom kind (quick tier); the thorough tier takes all of INNER
INNER_CORE = ("lambda", "ternary", "walrus", "or", "and", "not", "compare", "bitor", "bitxor", "bitand", "shift", "add", "mul", "unary-minus", "invert", "pow",
              "call", "subscript", "attribute", "name", "int", "float", "string", "tuple", "list", "dict", "listcomp", "genexp", "fstring", "statement-do",
              "unary-minus-of-int", "unary-plus-of-int", "unary-minus-of-float", "invert-of-int", "difference-of-literals", "power-of-literals")
NEGATIVE_SENSITIVE = ("pow-base", "pow-both", "attribute-base", "method-base", "await")
NEGATIVE = {"negative-int": "-7", "negative-float": "-1.5", "negative-zero": "-0.0", "negative-complex": "-2j", "complex-sum": "1+2j", "negative-complex-sum": "-1-2j"}

OUTER = {
    "unary-and-power": {"pow-base": "(** H 2)", "pow-exponent": "(** 2 H)", "unary-minus": "(- H)", "unary-plus": "(+ H)", "invert": "(bnot H)", "not": "(not H)", "pow-both": "(** H H)"},
    "arithmetic": {"add-left": "(+ H 1)", "add-right": "(+ 1 H)", "sub-left": "(- H 1)", "sub-right": "(- 9 H)", "mul-left": "(* H 3)", "mul-right": "(* 3 H)", "div-left": "(/ H 2)", "div-right": "(/ 8 H)",
                   "floordiv-right": "(// 8 H)", "mod-left": "(% H 2)", "mod-right": "(% 9 H)", "sub-fold": "(- H H H)", "div-fold": "(/ H H H)"},
    "bitwise-and-shift": {"bitor": "(| H 1)", "bitor-right": "(| 1 H)", "bitxor": "(^ 1 H)", "bitand": "(& H 3)", "shift-left": "(<< H 1)", "shift-right-operand": "(>> 64 H)"},
    "comparison": {"compare-left": "(< H 5)", "compare-right": "(< 5 H)", "chained-middle": "(< 0 H 5)", "equals": "(= H H)", "is-left": "(is H None)", "in-right": "(in 1 H)", "in-left": "(in H xs)",
                   "not-in": "(not-in H [1])", "chainc": "(chainc 0 < H <= 9)"},
    "boolean": {"and-left": "(and H 1)", "and-right": "(and 1 H)", "or-left": "(or H 0)", "or-right": "(or 0 H)", "and-in-or": "(or (and H 1) H)", "or-in-and": "(and (or H 0) H)"},
    "conditional-and-walrus": {"ternary-test": "(if H 1 2)", "ternary-body": "(if a H 2)", "ternary-else": "(if 0 1 H)", "walrus-value": "(setx w2 H)", "lambda-body": "((fn [] H))", "lambda-default": "((fn [[p H]] p))"},
    "call-attribute-subscript": {"call-function": "(H)", "call-function-with-arg": "(H 1)", "call-argument": "(ident H)", "keyword-argument": "(kw :k H)", "star-argument": "(kw #* H)", "double-star-argument": "(kw #** H)",
                                 "attribute-base": "(. H __class__ __name__)", "method-base": "(.__repr__ H)", "subscript-base": "(get H 0)", "subscript-index": "(get xs H)", "slice-bound": "(cut xs H)",
                                 "slice-base": "(cut H 1)", "dict-subscript": "(get {1 2 7 8} H)"},
    "displays": {"tuple-element": "#(H 1)", "single-tuple": "#(H)", "list-element": "[H H]", "set-element": "#{H}", "dict-key": "{H 1}", "dict-value": '{"k" H}', "star-in-list": "[#* H]", "double-star-in-dict": "{#** H}"},
    "comprehensions": {"element": "(lfor x xs H)", "iterable": "(lfor x H x)", "condition": "(lfor x xs :if H x)", "genexp-element": "(list (gfor x xs H))", "dict-key-value": "(dfor x xs H H)",
                       "setv-clause": "(lfor x xs :setv y H y)", "nested-iterable": "(lfor x xs y H #(x y))"},
    "fstring": {"field": 'f"{ H }"', "field-conversion": 'f"{ H !r}"', "field-spec": 'f"{ H :>8}"', "nested-spec-field": 'f"{a :{ H }}"', "debug": 'f"{ H = }"'},
    "statements": {"assign": "(do (setv q H) q)", "augmented": "(do (setv q 1) (+= q H) q)", "return": "((fn [] (return H)))", "yield": "(list ((fn [] (yield H))))", "yield-from": "(list ((fn [] (yield :from H))))",
                   "assert-test": "(do (assert H) 1)", "assert-message": '(do (assert 1 H) 1)', "for-iterable": "(do (for [x H] (log \"x\" x)) 1)", "while-test": "(do (setv i 0) (while (and (< i 1) H) (+= i 1)) i)",
                   "if-statement-test": "(do (if H (log \"t\") (log \"f\")) 1)", "with-item": "(with [c H] 1)", "match-subject": "(match H 3 \"three\" _ \"other\")", "decorator": "(do (defn [H] f [] 1) 1)",
                   "annotation": "(do (setv #^ H q 1) q)", "raise": "(raise H)", "delete-subscript": "(do (setv t [1 2 3 4 5 6 7 8]) (del (get t H)) t)", "expression-statement": "(do H 1)",
                   "default-argument": "(do (defn f [[p H]] p) (f))", "class-base": "(do (defclass A [H]) 1)", "await": "(do (import asyncio) (defn :async f [] (await H)) (asyncio.run (f)))"},
}


def precedence(inner=None):
    inner = INNER if inner is None else inner
    for group, ctxs in OUTER.items():
        for cname, pat in ctxs.items():
            for iname, text in inner.items():
                body = pat.replace("H", text) if "H" in pat else pat
                yield group, cname, iname, PRELUDE + guarded(f'(log "r" {body})')


# ------------------------------------------------------------------------------------------------
# keyword mincing
# ------------------------------------------------------------------------------------------------
KEYWORDS = [k for k in keyword.kwlist if k not in ("True", "False", "None")]
CONSTANT_NAMES = ["None", "True", "False"]

POSITIONS = {
    "variable": '(setv K 1) (log "r" K)',
    "attribute": '(setv pt.K 1) (log "r" pt.K (. pt K))',
    "method-call": '(defclass A [] (defn K [self] 1)) (log "r" (.K (A)) ((. (A) K)))',
    "function-name": '(defn K [] 1) (log "r" ((do K)) K.__name__)',
    "class-name": '(defclass K []) (log "r" K.__name__)',
    "parameter": '(defn f [K] K) (log "r" (f 1) (f :K 2))',
    "positional-only-parameter": '(defn f [K /] K) (log "r" (f 1))',
    "keyword-only-parameter": '(defn f [* K] K) (log "r" (f :K 2))',
    "parameter-with-default": '(defn f [[K 5]] K) (log "r" (f) (f :K 2))',
    "star-parameter": '(defn f [#* K] K) (log "r" (f 1 2))',
    "double-star-parameter": '(defn f [#** K] K) (log "r" (f :z 1))',
    "lambda-parameter": '(log "r" ((fn [K] K) 1))',
    "keyword-argument": '(kw :K 1)',
    "import-name": '(import sys) (setv (get sys.modules "K") (hy.I.types.ModuleType "K")) (import K) (log "r" K.__name__)',
    "import-as": '(import math :as K) (log "r" (K.floor 1.5))',
    "from-import-name": '(import sys) (setv m (hy.I.types.ModuleType "c14m") m.K 7 (get sys.modules "c14m") m) (import c14m [K]) (log "r" K)',
    "from-import-as": '(import math [floor :as K]) (log "r" ((do K) 1.5))',
    "dotted-import-last-part": '(import sys) (setv m (hy.I.types.ModuleType "c14p") s (hy.I.types.ModuleType "c14p.K") s.v 3 m.K s (get sys.modules "c14p") m (get sys.modules "c14p.K") s) (import c14p.K) (log "r" (. c14p K v))',
    "dotted-import-first-part": '(import sys) (setv m (hy.I.types.ModuleType "K") s (hy.I.types.ModuleType "K.sub") s.v 3 m.sub s (get sys.modules "K") m (get sys.modules "K.sub") s) (import K.sub) (log "r" K.sub.v)',
    "dotted-from-import-module": '(import sys) (setv m (hy.I.types.ModuleType "c14q") s (hy.I.types.ModuleType "c14q.K") s.v 3 m.K s (get sys.modules "c14q") m (get sys.modules "c14q.K") s) (import c14q.K [v]) (log "r" v)',
    "dotted-import-as": '(import sys) (setv m (hy.I.types.ModuleType "c14r") s (hy.I.types.ModuleType "c14r.K") s.v 3 m.K s (get sys.modules "c14r") m (get sys.modules "c14r.K") s) (import c14r.K :as alias) (log "r" alias.v)',
    "except-name": '(try (boom "x") (except [K E1] (log "h" (str K))))',
    "with-target": '(with [K (CM "a")] (log "w" K))',
    "for-target": '(for [K xs] (log "x" K))',
    "comprehension-target": '(log "r" (lfor K xs (* K 2)))',
    "walrus-target": '(log "r" (setx K 3) K)',
    "global-declaration": '(defn f [] (global K) (setv K 1)) (f) (log "r" K)',
    "nonlocal-declaration": '(defn f [] (setv K 1) (defn g [] (nonlocal K) (setv K 2)) (g) K) (log "r" (f))',
    "delete-target": '(setv K 1) (del K) (log "r" (in "K" (globals)))',
    "augmented-target": '(setv K 1) (+= K 2) (log "r" K)',
    "annotated-target": '(setv #^ int K 1) (log "r" K)',
    "annotation-expression": '(setv K int) (setv #^ K q 1) (log "r" __annotations__)',
    "decorator": '(setv K (deco "d")) (defn [K] f [] 1) (log "r" (f))',
    "match-capture": '(log "r" (match a K (+ K 1)))',
    "match-as": '(log "r" (match a 3 :as K K))',
    "match-star": '(log "r" (match xs [1 #* K] K))',
    "match-mapping-rest": '(log "r" (match d {"k" 1 #** K} K))',
    "match-value-attribute": '(setv pt.K 3) (log "r" (match a pt.K "hit" _ "miss"))',
    "match-class-name": '(setv K Pt) (log "r" (match pt (K 1 y) y))',
    "match-class-keyword-attribute": '(setv pt.K 3) (log "r" (match pt (Pt :K v) v))',
    "fstring-field": '(setv K 1) (log "r" f"{K} {K !r :>{K}}")',
    "type-parameter": '(defn :tp [K] f [] 1) (log "r" (f))',
    "let-binding": '(log "r" (let [K 1] (+ K 1)))',
    "call-function": '(setv K ident) (log "r" ((do K) 1))',
    "starred-assignment-target": '(setv [p #* K] xs) (log "r" K)',
    "class-attribute": '(defclass A [] (setv K 1)) (log "r" A.K)',
    "class-keyword-argument": '(defclass M [type] (defn __new__ [cls n b d #** k] (log "k" k) (.__new__ type cls n b d))) (defclass A [:metaclass M :K 1])',
    "quoted-symbol": "(log \"r\" 'K)",
    "string-constant": '(log "r" "K" b"K")',
}


def _subst(pat, k):
    """replace the placeholder K (a whole token, not the K inside "K.sub" module strings excepted: those are meant too)"""
    return pat.replace("K", k)


# names that only become Python identifiers through hy.mangle: the compiled tree must carry the mangled spelling in every
# identifier position, otherwise the unparsed text does not parse (or names another variable)
MANGLED_NAMES = ["a-b", "ok?", "*v*", "-lead", "caf\u00e9-x"]
MANGLED_POSITIONS = {k: v for k, v in POSITIONS.items()
                     if '"K' not in v and 'K"' not in v and "K." not in v and ".K" not in v and k not in ("keyword-argument", "class-keyword-argument", "quoted-symbol")}


def mincing(names=None, positions=None):
    for pos, pat in (POSITIONS if positions is None else positions).items():
        for k in (KEYWORDS if names is None else names):
            yield pos, k, PRELUDE + _subst(pat, k)


# ------------------------------------------------------------------------------------------------
# literals
# ------------------------------------------------------------------------------------------------
def literals():
    out = []
    nums = ["0", "1", "255", "10000000000000000000000000000", "0x1F", "0o17", "0b101", "1_000_000", "1.5", "0.1", "1e10", "1e-7", "1e22", "1e16", "5e-324", "1.7976931348623157e308", "1e400", "Inf", "NaN",
            "2j", "1.5j", "0j", "1e400j", "Infj", "NaNj", "123456789.123456789", "1/3"]
    for n in nums:
        cls = "number with a NaN imaginary part" if n == "NaNj" else "number"
        out.append((cls, PRELUDE + f'(log "r" {n} [{n}] (type {n}))'))
    for n in ["-7", "-1.5", "-0.0", "-Inf", "-1e400", "-1/3", "-0", "-0x10", "-1_0"]:
        out.append(("negative real number", PRELUDE + f'(log "r" {n} [{n}] #({n}) (type {n}) (str {n}))'))
    for n in ["1+2j", "1-2j", "1.5+0j", "0+2j", "Inf+2j", "1e400-Infj"]:
        out.append(("complex number with a positive real part", PRELUDE + f'(log "r" {n} [{n}] #({n}) (type {n}) (str {n}))'))
    for n in ["-2j", "-0j", "-1-2j", "-1+2j", "-0.0-0j", "-Infj", "-0.0+1j"]:
        out.append(("complex number with a negative real part or a lone negative imaginary part", PRELUDE + f'(log "r" {n} [{n}] #({n}) (type {n}) (str {n}))'))
    for n in ["NaN+Infj", "1+NaNj", "NaN+NaNj"]:
        out.append(("complex number with a NaN part", PRELUDE + f'(log "r" {n} [{n}] (type {n}) (str {n}))'))
    strs = ['""', '"a"', '"\'"', '"\\""', '"\'\\""', '"\\\\"', '"\\n"', '"a\nb"', '"\\t\\r\\x00\\x7f"', '"é😀\\u2028"', '"\\ud800"', '"{}"', '"\'\'\'"', '"\\"\\"\\""', '"\'\'\'\\"\\"\\""', '"ends with \\\\"',
            '"\\N{BULLET}"', 'r"\\d+\\n"', '#[[bracket "string" \'q\']]', '#[==[a]]b]==]', '"""']
    strs = [s for s in strs if s != '"""']
    for s in strs:
        out.append(("string", PRELUDE + f'(log "r" {s} [{s}] (len {s}))'))
    for b in ['b""', 'b"a"', 'b"\\x00\\xff"', 'b"\'\\""', 'b"\\n\\\\"']:
        out.append(("bytes", PRELUDE + f'(log "r" {b} [{b}])'))
    docs = ['"doc"', '"two\nlines"', '"quote \\" and \' inside"', '"triple \\"\\"\\" inside"', '"triple \'\'\' inside"', '"both \'\'\' and \\"\\"\\" inside"', '"ends with quote\\""', '"ends with backslash\\\\"',
            '"tab\\tnul\\x00bell\\a"', '"unicode é😀\\N{BULLET}\\u2028"', '"  leading and trailing  "', '"\\n starts with newline"', '"{braces} %s"', '""', '"\\\\N{not an escape}"', '"\\r\\n crlf"', 'r"raw \\d"',
            '#[[bracket doc]]']
    for s in docs:
        out.append(("docstring-module", s + "\n" + PRELUDE + '(log "r" __doc__)'))
        out.append(("docstring-function", PRELUDE + f'(defn f [] {s} 1) (log "r" f.__doc__ (f))'))
        out.append(("docstring-class", PRELUDE + f'(defclass A [] {s} (setv v 1)) (log "r" A.__doc__)'))
        out.append(("string-statement", PRELUDE + f'(setv q 1) {s} (defn f [] 1 {s} 2) (log "r" (f) f.__doc__)'))
    for s in ['b"bytes first"', 'f"fstring {a} first"', "1", "None", "'sym", ':kw', '(+ "a" "b")']:
        out.append(("non-docstring-first-form", PRELUDE + f'(defn f [] {s} 1) (defclass A [] {s}) (log "r" f.__doc__ A.__doc__)'))
    return out


def negative_literals():
    yield from precedence(NEGATIVE)


# ------------------------------------------------------------------------------------------------
# constants None / True / False where an identifier is expected
# ------------------------------------------------------------------------------------------------
CONSTANT_POSITIONS = {k: POSITIONS[k] for k in ("attribute", "method-call", "keyword-argument", "import-name", "import-as", "from-import-name", "from-import-as", "global-declaration",
                                               "match-value-attribute", "match-class-keyword-attribute", "class-keyword-argument", "quoted-symbol", "string-constant")}


# ------------------------------------------------------------------------------------------------
# random programs
# ------------------------------------------------------------------------------------------------
# (keyword-named variables are exercised by the mincing matrix and the catalogue; here they would make random programs hit
# the known `global <keyword>` defect through comprehensions that assign at module level)
INT_NAMES = ["a", "b", "n", "foo-bar", "ok?", "λ", "naïve", "match", "_u", "*g*"]
LIST_NAMES = ["xs", "my-list", "type"]


class Gen:
    def __init__(self, r):
        self.r = r
        self.k = 0
        self.fns = []

    def fresh(self, p="t"):
        self.k += 1
        return f"{p}{self.k}"

    def pick(self, seq):
        return seq[self.r.randrange(len(seq))]

    def lit(self):
        return str(self.pick([0, 1, 2, 3, 4, 5, 7, 10, 16, 100, 255]))

    def intvar(self):
        return self.pick(INT_NAMES)

    def listvar(self):
        return self.pick(LIST_NAMES)

    # ---- expressions ----
    def I(self, d):
        r = self.r
        if d <= 0 or r.random() < 0.18:
            return self.lit() if r.random() < 0.5 else self.intvar()
        c = r.randrange(44)
        I, B, L = (lambda: self.I(d - 1)), (lambda: self.B(d - 1)), (lambda: self.L(d - 1))
        if c == 0:
            return f"(+ {I()} {I()})"
        if c == 1:
            return f"(- {I()} {I()})"
        if c == 2:
            return f"(* {I()} (% {I()} 5))"
        if c == 3:
            return f"(- {I()})"
        if c == 4:
            return f"(// {I()} {self.pick(['2', '3', I()])})"
        if c == 5:
            return f"(% {I()} 7)"
        if c == 6:
            return f"(** {self.pick(['2', '(- 2)', '(% ' + I() + ' 4)'])} (% {I()} 4))"
        if c == 7:
            return f"(<< 1 (% {I()} 5))"
        if c == 8:
            return f"({self.pick(['&', '|', '^'])} {I()} {I()})"
        if c == 9:
            return f"(bnot {I()})"
        if c == 10:
            return f"(if {B()} {I()} {I()})"
        if c == 11:
            return f"(cond {B()} {I()} {B()} {I()} True {I()})"
        if c == 12:
            return f"(or (when {B()} {I()}) {I()})"
        if c == 13:
            return f"(and {I()} {I()})"
        if c == 14:
            return f"(or {I()} {I()} {I()})"
        if c == 15:
            return f"(do (log \"d\" {I()}) {I()})"
        if c == 16:
            return f"(setx {self.intvar()} {I()})"
        if c == 17:
            return f"(log \"v\" {I()})"
        if c == 18:
            return f"(get {L()} {self.pick(['0', '-1'])})"
        if c == 19:
            return f"(len {L()})"
        if c == 20:
            return f"({self.pick(['sum', 'max', 'min'])} {L()})"
        if c == 21:
            return f"((fn [x [y 2] #* r #** k] (+ x y (len r) (len k))) {I()} {self.pick(['', I(), I() + ' ' + I(), ':y ' + I(), I() + ' :z ' + I(), '#* ' + L()])})"
        if c == 22:
            v = self.fresh("l")
            return f"(let [{v} {I()}] (+ {v} {I()}))"
        if c == 23:
            return f"(try {I()} (except [E1] {I()}))"
        if c == 24:
            return f"(try (boom \"b\" {self.pick(['E1', 'E2', 'E3'])}) (except [e E1] (log \"caught\" (str e)) {I()}) (except [E3] {I()}) (else {I()}) (finally (log \"fin\")))"
        if c == 25:
            return f"(with [c (CM \"m\" :value {I()})] (+ c {I()}))"
        if c == 26:
            return f"(match {I()} 0 {I()} (| 1 2) {I()} x :if (> x 5) (+ x 1) _ {I()})"
        if c == 27:
            return f"(match {L()} [] 0 [x] x [x #* r] (+ x (len r)))"
        if c == 28:
            return f"(len f\"{self.pick(['', 'a', '{{', '}}', 'é'])}{{{I()}{self.pick(['', ' !r', ' !s', ' :>5', ' :{' + I() + '}', ' = '])}}}{self.pick(['', 'z', chr(92) + 'n'])}\")"
        if c == 29:
            return f"(sum (lfor x {L()} :if {self.pick(['(> x 1)', '(% x 2)', B()])} :setv y {self.pick(['(* x 2)', I()])} (+ x y)))"
        if c == 30:
            return f"(len (sfor x {L()} (% x {self.pick(['2', '3'])})))"
        if c == 31:
            return f"(sum (.values (dfor x {L()} x (+ x {I()}))))"
        if c == 32:
            return f"(sum (gfor x {L()} y (range (% x 3)) (+ x y)))"
        if c == 33:
            return f"(. (Pt {I()} {I()}) {self.pick(['x', 'y'])})"
        if c == 34:
            return f"(get {{\"k\" {I()} \"j\" {I()}}} {self.pick(['\"k\"', '\"j\"', '\"missing\"'])})"
        if c == 35:
            return f"(int {B()})"
        if c == 36 and self.fns:
            name, nargs = self.pick(self.fns)
            return f"({name} {' '.join(I() for _ in range(nargs))})"
        if c == 37:
            return f"(abs {I()})"
        if c == 38:
            return f"(kw {I()} :k {I()} #* {L()})"
        if c == 39:
            return f"(.bit-length {I()})"
        if c == 40:
            return f"(len (str {I()}))"
        if c == 41:
            return f"(next (gfor x {L()} :if (> x {I()}) x) {I()})"
        if c == 42:
            return f"(if {B()} (do (setv {self.intvar()} {I()}) {I()}) (try {I()} (finally (log \"f2\"))))"
        return f"(+ {I()} 1)"

    def B(self, d):
        r = self.r
        if d <= 0:
            return self.pick(["True", "False", self.intvar()])
        c = r.randrange(13)
        I, B, L = (lambda: self.I(d - 1)), (lambda: self.B(d - 1)), (lambda: self.L(d - 1))
        if c == 0:
            return f"({self.pick(['<', '<=', '>', '>=', '=', '!='])} {I()} {I()})"
        if c == 1:
            return f"(< {I()} {I()} {I()})"
        if c == 2:
            return f"(not {B()})"
        if c == 3:
            return f"(and {B()} {B()})"
        if c == 4:
            return f"(or {B()} {B()})"
        if c == 5:
            return f"({self.pick(['in', 'not-in'])} {I()} {L()})"
        if c == 6:
            return f"({self.pick(['is', 'is-not'])} {self.pick([I(), 'None'])} None)"
        if c == 7:
            return f"(chainc {I()} < {I()} <= {I()})"
        if c == 8:
            return f"(bool {L()})"
        if c == 9:
            return I()
        if c == 10:
            return f"(if {B()} {B()} {B()})"
        if c == 11:
            return f"(isinstance {I()} int)"
        return f"(log \"t\" {B()})"

    def L(self, d):
        r = self.r
        if d <= 0 or r.random() < 0.25:
            return self.listvar() if r.random() < 0.6 else f"[{self.lit()} {self.lit()} {self.lit()}]"
        c = r.randrange(11)
        I, B, L = (lambda: self.I(d - 1)), (lambda: self.B(d - 1)), (lambda: self.L(d - 1))
        if c == 0:
            return f"[{I()} {I()}]"
        if c == 1:
            return f"(lfor x {L()} {self.pick(['(* x 2)', '(+ x ' + I() + ')', 'x'])})"
        if c == 2:
            return f"(list (range (% {I()} 5)))"
        if c == 3:
            return f"(cut {L()} {self.pick(['1', '0 2', 'None None -1', '-2 None'])})"
        if c == 4:
            return f"(+ {L()} {L()})"
        if c == 5:
            return f"[#* {L()} {I()}]"
        if c == 6:
            return f"(sorted {L()})"
        if c == 7:
            return f"(list (map (fn [x] (+ x {I()})) {L()}))"
        if c == 8:
            return f"(if {B()} {L()} {L()})"
        if c == 9:
            return f"(list (gfor x {L()} :if (!= x {I()}) x))"
        return f"(list ((fn [] (yield {I()}) (yield :from {L()}))))"

    # ---- statements ----
    def S(self, d, in_loop=False, in_fn=False):
        r = self.r
        c = r.randrange(26 if d > 0 else 8)
        I, B, L = (lambda: self.I(min(d, 2))), (lambda: self.B(min(d, 2))), (lambda: self.L(min(d, 2)))
        S = lambda **k: self.S(d - 1, **{"in_loop": in_loop, "in_fn": in_fn, **k})
        if c == 0:
            return f"(setv {self.intvar()} {I()})"
        if c == 1:
            return f"(setv {self.intvar()} {I()} {self.listvar()} {L()})"
        if c == 2:
            return f"({self.pick(['+=', '-=', '*=', '//=', '%=', '|=', '&=', '^='])} {self.intvar()} {self.pick(['1', '2', '3', I()])})"
        if c == 3:
            return f"(log \"s\" {I()})"
        if c == 4:
            return f"(setv [{self.intvar()} #* {self.listvar()}] (+ [{I()}] {L()}))"
        if c == 5:
            return f"(log \"l\" {L()})"
        if c == 6:
            return f"(setv (get d \"k\") {I()} pt.x {I()})"
        if c == 7:
            if in_loop and r.random() < 0.5:
                return f"(when {B()} ({self.pick(['break', 'continue'])}))"
            if in_fn and r.random() < 0.5:
                return f"(when {B()} (return {I()}))"
            return f"(+= {self.intvar()} 1 {I()})"
        if c == 8:
            return f"(if {B()} {S()} {S()})"
        if c == 9:
            return f"(when {B()} {S()} {S()})"
        if c == 10:
            i = self.fresh("i")
            return f"(do (setv {i} (% {I()} 4)) (while (> {i} 0) (-= {i} 1) {S(in_loop=True)} {S(in_loop=True)}{self.pick(['', ' (else ' + S() + ')'])}))"
        if c == 11:
            x = self.pick(["x", "it", "for-var"])
            return f"(for [{x} {L()}] (log \"it\" {x}) {S(in_loop=True)}{self.pick(['', ' (else ' + S() + ')'])})"
        if c == 12:
            return f"(try {S()} (boom \"tb\" {self.pick(['E1', 'E2', 'E3'])}) (except [e [E1 E3]] (log \"h\" (str e)) {S()}){self.pick(['', ' (finally ' + S() + ')'])})"
        if c == 13:
            return f"(try {S()} (except [E1] {S()}) (else {S()}) (finally (log \"fin\")))"
        if c == 14:
            return f"(with [c (CM \"w\") _ (CM \"w2\")] {S()})"
        if c == 15:
            return f"(match {I()} 0 {S()} x :if (> x 3) (log \"mx\" x) _ {S()})"
        if c == 16 and not in_fn:
            name = self.fresh("f")
            ps, nargs = self.pick([("[p q]", 2), ("[p [q 2]]", 1), ("[p * [q 1]]", 1), ("[p #* r]", 2), ("[p / q #** k]", 2)])
            body = f"{self.S(d - 1, in_fn=True)} (+ p {self.pick(['1', 'q' if 'q' in ps else '2', I()])})"
            self.fns.append((name, nargs))
            return f"(defn {name} {ps} {body})"
        if c == 17 and not in_fn:
            name = self.fresh("K")
            return f"(do (defclass {name} [] (setv v {I()}) (defn m [self p] (+ p self.v {I()}))) (log \"m\" (.m ({name}) {I()})))"
        if c == 18:
            return f"(cond {B()} {S()} {B()} {S()} True {S()})"
        if c == 19:
            return f"(assert {self.pick(['True', B()])} \"assertion\")"
        if c == 20:
            return f"(for [x {L()} :if (> x 1) y [1 2]] (log \"xy\" x y))"
        if c == 21:
            return f"(let [q {I()}] (setv q (+ q 1)) (log \"let\" q) {S()})"
        if c == 22:
            return f"(do {S()} {S()})"
        if c == 23:
            return f"(log \"fs\" f\"{{{I()} = }}|{{{L()} !r :>{{{I()}}}}}\")"
        if c == 24:
            return f"(when (not {B()}) {S()})"
        return f"(log \"e\" {I()})"


def random_program(r):
    g = Gen(r)
    forms = ['(setv a 3 b 5 n 0 foo-bar 2 ok? 1 λ 4 naïve 6 match 7 _u 8 *g* 9 xs [1 2 3] my-list [4 5] type [6] d {"k" 1} pt (Pt 1 2))']
    for _ in range(r.randint(2, 6)):
        s = g.S(r.randint(1, 3))
        forms.append(guarded("(do " + s + ")") if r.random() < 0.7 else s)
    forms.append('(log "end" a b n foo-bar ok? λ naïve match _u *g* xs my-list type d pt)')
    return "\n".join(forms)


def hy2py_samples():
    """programs fed to the real hy2py entry points"""
    C = catalogue()
    picks = ["do", "if", "setv-setx", "while", "for", "try", "with", "match", "defn-forms", "comprehensions", "let", "defclass", "fstrings", "mangled-and-unicode-names", "keywords-as-identifiers", "quote"]
    return [(k, C[k][i]) for k in picks for i in range(min(2, len(C[k])))]
