"""C14 hy2py output is valid Python that behaves like the compiled AST."""
import ast
import contextlib
import gc
import io
import keyword
import multiprocessing as mp
import os
import random
import shutil
import signal
import sys
import tokenize
import types
import unicodedata
import warnings

import hv.symx.core  # noqa: F401
import hy
import hy.cmdline
import hy.compat  # noqa: F401
from hy.compiler import hy_compile

from hv.props import _c14_gen as G
from hv.props import _c14_rt as RT

META = {
    "engine": "rtc+ex",
    "level": "other",
    "technique": "contract-based differential checking of the pipeline hy2py runs (hy.read_many -> hy_compile -> the ast.unparse "
                 "hy.cmdline uses, i.e. hy.compat.rewriting_unparse where installed): for generated Hy programs the unparsed text "
                 "must be accepted by ast.parse and compile(); the unparsed text and the compiled AST are each executed in a fresh "
                 "namespace with a logging runtime (log/boom/context managers/classes) and must give the same effect trace, the "
                 "same bound names and values, the same output and the same escaping exception; an auxiliary structural clause "
                 "compares ast.parse(unparsed) with the compiled tree after position-free normalisation.  Programs: a hand-written "
                 "catalogue of the constructs of C01-C09, a precedence matrix (every outer context x every inner expression kind), "
                 "every Python keyword in every identifier-bearing position (keyword mincing), literal and docstring constants, "
                 "and seeded random compositions.  rewriting_unparse is also called directly on minimal trees for every keyword x "
                 "identifier-valued AST field.  The real entry points hy2py_worker / hy2py_main run on temporary files.",
    "text": "(a) the text hy2py prints parses (ast.parse) and compiles; (b) executing it and executing the compiled AST give the same "
            "trace, final names/values, stdout and escaping exception type and message; (structure, auxiliary) ast.parse(text) "
            "equals the compiled tree up to positions, folded signs of numeric literals, merged f-string constants and absent "
            "vs. empty optional fields; (mincing) for every keyword k in an identifier field the printed name is an identifier, "
            "is not a keyword token and NFKC-normalises to k; (entry) hy2py_worker / hy2py_main print exactly that text.",
    "note": "Level other: all components are bounded stand-ins except the keyword x position and keyword x AST-field matrices and "
            "the outer x inner precedence matrix (finite, enumerated completely).  Domain: programs hy_compile accepts and whose "
            "AST CPython compiles.  Trusted: CPython's compile/exec; ast.parse.  Scratch files live under /root/scratch and are "
            "removed at the end of the run.",
}

UNPARSE = lambda tree: hy.cmdline.ast.unparse(tree)     # the attribute hy2py_worker looks up, at call time
_PROGS = []
TIMEOUT = 30


# ------------------------------------------------------------------------------------------------
# one program
# ------------------------------------------------------------------------------------------------
Timeout = RT.Timeout


def _alarm(*_):
    raise Timeout()


def canon(node):
    """position-free canonical form of a tree; see META['text'] for what is normalised"""
    if isinstance(node, ast.AST):
        if isinstance(node, ast.UnaryOp) and isinstance(node.op, ast.USub):
            v = canon(node.operand)
            if v[0] == "Constant" and v[1] in ("int", "float", "complex") and not v[2].startswith("-"):
                val = ast.literal_eval(node.operand) if not isinstance(node.operand, ast.Constant) else node.operand.value
                return _const(-val)
        if isinstance(node, ast.BinOp) and isinstance(node.op, (ast.Add, ast.Sub)):
            l, r = _fold(node.left), _fold(node.right)
            if l is not None and r is not None and (isinstance(r, complex) or isinstance(l, complex) or (l != l or r != r)
                                                    or (abs(l) == float("inf") and abs(r) == float("inf"))):
                return _const(l + r if isinstance(node.op, ast.Add) else l - r)
        if isinstance(node, ast.Constant):
            return _const(node.value)
        out = [type(node).__name__]
        for f in node._fields:
            v = getattr(node, f, None)
            if v is None or v == []:
                continue
            if isinstance(node, ast.JoinedStr) and f == "values":
                v = _merge(v)
            out.append((f, canon(v)))
        return tuple(out)
    if isinstance(node, list):
        return tuple(canon(x) for x in node)
    return node


def _const(v):
    if isinstance(v, (tuple, frozenset)):
        return ("Constant", type(v).__name__, tuple(_const(x) for x in v))
    return ("Constant", type(v).__name__, repr(v))


def _fold(n):
    if isinstance(n, ast.Constant) and type(n.value) in (int, float, complex):
        return n.value
    if isinstance(n, ast.UnaryOp) and isinstance(n.op, ast.USub):
        v = _fold(n.operand)
        return -v if v is not None else None
    if isinstance(n, ast.BinOp) and isinstance(n.op, (ast.Add, ast.Sub)):
        l, r = _fold(n.left), _fold(n.right)
        if l is not None and r is not None:
            return l + r if isinstance(n.op, ast.Add) else l - r
    return None


def _merge(vals):
    out = []
    for v in vals:
        if isinstance(v, ast.Constant) and isinstance(v.value, str):
            if v.value == "":
                continue
            if out and isinstance(out[-1], ast.Constant):
                out[-1] = ast.Constant(value=out[-1].value + v.value)
                continue
        out.append(v)
    return out


def first_tree_difference(a, b, path="Module"):
    if a == b:
        return None
    if isinstance(a, tuple) and isinstance(b, tuple) and a and b and isinstance(a[0], str) and a[0] == b[0] and a[0] != "Constant":
        da, db = dict(a[1:]), dict(b[1:])
        for k in list(da) + [k for k in db if k not in da]:
            if da.get(k) != db.get(k):
                return first_tree_difference(da.get(k), db.get(k), f"{path}.{a[0]}.{k}")
    if isinstance(a, tuple) and isinstance(b, tuple) and not (a and isinstance(a[0], str)):
        if len(a) != len(b):
            return f"{path}: {len(a)} vs {len(b)} elements"
        for i, (x, y) in enumerate(zip(a, b)):
            if x != y:
                return first_tree_difference(x, y, f"{path}[{i}]")
    return f"{path}: compiled {str(a)[:160]} vs parsed {str(b)[:160]}"


def run_one(src):
    """-> dict: accepted, executable, text, parses, behaviour, structure (each True / False+detail / None not applicable)"""
    out = {"accepted": None, "executable": None, "text": None, "parses": None, "behaviour": None, "structure": None}
    before = set(sys.modules)
    old = signal.signal(signal.SIGALRM, _alarm)
    signal.setitimer(signal.ITIMER_REAL, TIMEOUT, 1.0)      # fires again every second until disarmed
    try:
        try:
            with warnings.catch_warnings():
                warnings.simplefilter("ignore")
                module = types.ModuleType("hv_c14_prog")
                tree = hy_compile(hy.read_many(src, filename="<c14>"), module, filename="<c14>", source=src)
        except Timeout:
            raise
        except BaseException as e:  # noqa: BLE001
            out["accepted"] = (False, f"{type(e).__name__}: {str(getattr(e, 'msg', e))[:120]}")
            return out
        out["accepted"] = (True, None)
        try:
            with warnings.catch_warnings():
                warnings.simplefilter("ignore")
                code_ast = compile(tree, "<c14-ast>", "exec")
            out["executable"] = (True, None)
        except Timeout:
            raise
        except BaseException as e:  # noqa: BLE001
            code_ast = None
            out["executable"] = (False, f"{type(e).__name__}: {str(e)[:120]}")
        try:
            text = UNPARSE(tree)
        except Timeout:
            raise
        except BaseException as e:  # noqa: BLE001
            out["parses"] = (False, f"ast.unparse raised {type(e).__name__}: {str(e)[:120]}")
            return out
        out["text"] = text
        try:
            with warnings.catch_warnings():
                warnings.simplefilter("ignore")
                parsed = ast.parse(text)
                code_src = compile(text, "<c14-src>", "exec") if code_ast is not None else None
            out["parses"] = (True, None)
        except Timeout:
            raise
        except BaseException as e:  # noqa: BLE001
            out["parses"] = (False, f"{type(e).__name__}: {str(e)[:120]}")
            return out
        d = first_tree_difference(canon(tree), canon(parsed))
        out["structure"] = (d is None, d)
        if code_ast is None:
            return out
        o1 = RT.observe(code_ast)
        _cleanup(before)
        o2 = RT.observe(code_src)
        d = RT.first_difference(o1, o2)
        out["behaviour"] = (d is None, None if d is None else f"{d[0]}: {d[1]}")
        out["raised"] = o1["exception"]
        out["trace_len"] = len(o1["trace"])
        return out
    except Timeout:
        out["behaviour"] = (None, f"timeout after {TIMEOUT}s")
        return out
    finally:
        signal.setitimer(signal.ITIMER_REAL, 0)
        signal.signal(signal.SIGALRM, old)
        _cleanup(before)


def _cleanup(before):
    for k in list(sys.modules):
        if k not in before and (k.startswith("c14") or k.split(".")[0] in keyword.kwlist or k in ("hv_c14_prog",)):
            del sys.modules[k]


# ------------------------------------------------------------------------------------------------
# aggregation
# ------------------------------------------------------------------------------------------------
class Acc:
    def __init__(self):
        self.g = {}

    def add(self, name, ok, inp=None, observed=None, text=None):
        e = self.g.setdefault(name, [0, 0, 0, None])
        e[0] += 1
        if ok is None:
            e[2] += 1
        if ok is False or ok is None:
            if ok is False:
                e[1] += 1
            if e[3] is None or (ok is False and len(inp or "") < len(e[3]["input"] or "")):
                e[3] = {"input": inp, "observed": observed, "unparsed": (text or "")[:1500]}

    def merge(self, g):
        for k, (n, bad, und, first) in g.items():
            e = self.g.setdefault(k, [0, 0, 0, None])
            e[0] += n
            e[1] += bad
            e[2] += und
            if first is not None and (e[3] is None or len(first["input"] or "") < len(e[3]["input"] or "")):
                e[3] = first


def strip_prelude(src):
    return (src or "").replace(G.PRELUDE, "", 1)


def record(acc, family, cls, src, res, stats):
    key = f"{family}/{cls}"
    stats[family + ":programs"] = stats.get(family + ":programs", 0) + 1
    if res["accepted"] is None:
        acc.add(f"behaviour/{key}", None, src, res["behaviour"][1] if res["behaviour"] else "timeout")
        return
    if not res["accepted"][0]:
        stats[family + ":rejected"] = stats.get(family + ":rejected", 0) + 1
        if family in STRICT_ACCEPT:
            acc.add(f"domain/{family}/every program schema is accepted by the compiler", False, src, res["accepted"][1])
        return
    if family in STRICT_ACCEPT:
        acc.add(f"domain/{family}/every program schema is accepted by the compiler", True, src)
    if res["executable"] is not None and not res["executable"][0]:
        stats[family + ":ast not compilable by CPython"] = stats.get(family + ":ast not compilable by CPython", 0) + 1
    if res.get("raised"):
        stats[family + ":escaping exception"] = stats.get(family + ":escaping exception", 0) + 1
    if family in MERGED:
        # one obligation per class: the text parses and (when the AST is executable) behaves like the compiled AST
        p, b = res["parses"], res["behaviour"]
        ok = None if p is None else (p[0] and (b is None or b[0]))
        acc.add(f"{family}/{cls}/the unparsed source parses and behaves like the compiled AST", ok, src,
                (p and p[1]) or (b and b[1]), res["text"])
    else:
        if res["parses"] is not None:
            acc.add(f"parses/{key}", res["parses"][0], src, res["parses"][1], res["text"])
        if res["behaviour"] is not None:
            acc.add(f"behaviour/{key}", res["behaviour"][0], src, res["behaviour"][1], res["text"])
    if res["structure"] is not None:
        acc.add(f"structure/{key}" if family == "literals" else f"structure/{family}", res["structure"][0], src, res["structure"][1], res["text"])


STRICT_ACCEPT = {"catalogue", "literals"}
MERGED = {"mincing", "constant-names", "negative-complex-literal"}     # my schemas: a rejection is a fault to look at


def _work(rng_):
    lo, hi = rng_
    acc, stats = Acc(), {}
    for family, cls, src in _PROGS[lo:hi]:
        res = run_one(src)
        record(acc, family, cls, src, res, stats)
    return acc.g, stats


# ------------------------------------------------------------------------------------------------
# program lists
# ------------------------------------------------------------------------------------------------
def build_programs(tier, seed):
    progs = []
    for construct, ps in G.catalogue().items():
        for p in ps:
            progs.append(("catalogue", construct, p))
    inner = G.INNER if tier == "thorough" else {k: G.INNER[k] for k in G.INNER_CORE}
    for group, cname, iname, p in G.precedence(inner):
        progs.append(("precedence", group, p))
    for group, cname, iname, p in G.negative_literals():
        if "complex" in iname:
            progs.append(("negative-complex-literal", "any context", p))
        else:
            progs.append(("negative-real-literal", f"{group}/{cname}" if cname in G.NEGATIVE_SENSITIVE else group, p))
    for pos, k, p in G.mincing():
        progs.append(("mincing", pos, p))
    for pos, k, p in G.mincing(G.CONSTANT_NAMES, G.CONSTANT_POSITIONS):
        progs.append(("constant-names", pos, p))
    for pos, k, p in G.mincing(G.MANGLED_NAMES, G.MANGLED_POSITIONS):
        progs.append(("mangled-names", pos, p))
    for cls, p in G.literals():
        progs.append(("literals", cls, p))
    r = random.Random(seed * 7919 + 14)
    n = 400 if tier == "quick" else 15000
    for i in range(n):
        progs.append(("random", "compositions of statements and expressions", G.random_program(r)))
    return progs


# ------------------------------------------------------------------------------------------------
# rewriting_unparse called directly: every keyword x identifier-valued AST field
# ------------------------------------------------------------------------------------------------
def field_trees():
    N, L, S = ast.Name, ast.Load, ast.Store
    P = lambda: ast.Pass()
    args0 = lambda **k: ast.arguments(posonlyargs=k.get("po", []), args=k.get("a", []), vararg=k.get("va"), kwonlyargs=k.get("ko", []),
                                      kw_defaults=[None] * len(k.get("ko", [])), kwarg=k.get("kw"), defaults=[])
    fdef = lambda name, a=None, body=None, tp=None: ast.FunctionDef(name=name, args=a or args0(), body=body or [P()], decorator_list=[],
                                                                    returns=None, type_comment=None, type_params=tp or [])
    case = lambda pat: ast.Match(subject=N("x", L()), cases=[ast.match_case(pattern=pat, guard=None, body=[P()])])
    T = {
        "Name.id (load)": lambda k: ast.Expr(N(k, L())),
        "Name.id (store)": lambda k: ast.Assign(targets=[N(k, S())], value=ast.Constant(1)),
        "Name.id (del)": lambda k: ast.Delete(targets=[N(k, ast.Del())]),
        "Attribute.attr": lambda k: ast.Expr(ast.Attribute(value=N("o", L()), attr=k, ctx=L())),
        "FunctionDef.name": lambda k: fdef(k),
        "AsyncFunctionDef.name": lambda k: ast.AsyncFunctionDef(name=k, args=args0(), body=[P()], decorator_list=[], returns=None, type_comment=None, type_params=[]),
        "ClassDef.name": lambda k: ast.ClassDef(name=k, bases=[], keywords=[], body=[P()], decorator_list=[], type_params=[]),
        "arg.arg (positional)": lambda k: fdef("f", args0(a=[ast.arg(arg=k)])),
        "arg.arg (positional-only)": lambda k: fdef("f", args0(po=[ast.arg(arg=k)])),
        "arg.arg (keyword-only)": lambda k: fdef("f", args0(ko=[ast.arg(arg=k)])),
        "arg.arg (vararg)": lambda k: fdef("f", args0(va=ast.arg(arg=k))),
        "arg.arg (kwarg)": lambda k: fdef("f", args0(kw=ast.arg(arg=k))),
        "arg.arg (lambda)": lambda k: ast.Expr(ast.Lambda(args=args0(a=[ast.arg(arg=k)]), body=ast.Constant(1))),
        "keyword.arg (call)": lambda k: ast.Expr(ast.Call(func=N("f", L()), args=[], keywords=[ast.keyword(arg=k, value=ast.Constant(1))])),
        "keyword.arg (class)": lambda k: ast.ClassDef(name="A", bases=[], keywords=[ast.keyword(arg=k, value=ast.Constant(1))], body=[P()], decorator_list=[], type_params=[]),
        "alias.name (import)": lambda k: ast.Import(names=[ast.alias(name=k)]),
        "alias.asname (import)": lambda k: ast.Import(names=[ast.alias(name="m", asname=k)]),
        "alias.name (import, dotted, last part)": lambda k: ast.Import(names=[ast.alias(name="m." + k)]),
        "alias.name (import, dotted, first part)": lambda k: ast.Import(names=[ast.alias(name=k + ".m")]),
        "alias.name (from-import)": lambda k: ast.ImportFrom(module="m", names=[ast.alias(name=k)], level=0),
        "alias.asname (from-import)": lambda k: ast.ImportFrom(module="m", names=[ast.alias(name="n", asname=k)], level=0),
        "ImportFrom.module": lambda k: ast.ImportFrom(module=k, names=[ast.alias(name="n")], level=0),
        "ImportFrom.module (relative)": lambda k: ast.ImportFrom(module=k, names=[ast.alias(name="n")], level=1),
        "ImportFrom.module (dotted)": lambda k: ast.ImportFrom(module="m." + k, names=[ast.alias(name="n")], level=0),
        "ExceptHandler.name": lambda k: ast.Try(body=[P()], handlers=[ast.ExceptHandler(type=N("E", L()), name=k, body=[P()])], orelse=[], finalbody=[]),
        "Global.names": lambda k: fdef("f", body=[ast.Global(names=[k])]),
        "Nonlocal.names": lambda k: fdef("f", body=[ast.Assign(targets=[N(k, S())], value=ast.Constant(1)), fdef("g", body=[ast.Nonlocal(names=[k])])]),
        "MatchAs.name": lambda k: case(ast.MatchAs(pattern=None, name=k)),
        "MatchStar.name": lambda k: case(ast.MatchSequence(patterns=[ast.MatchStar(name=k)])),
        "MatchMapping.rest": lambda k: case(ast.MatchMapping(keys=[], patterns=[], rest=k)),
        "MatchClass.kwd_attrs": lambda k: case(ast.MatchClass(cls=N("C", L()), patterns=[], kwd_attrs=[k], kwd_patterns=[ast.MatchAs(pattern=None, name="v")])),
        "TypeVar.name": lambda k: fdef("f", tp=[ast.TypeVar(name=k, bound=None)]),
        "ParamSpec.name": lambda k: fdef("f", tp=[ast.ParamSpec(name=k)]),
        "TypeVarTuple.name": lambda k: fdef("f", tp=[ast.TypeVarTuple(name=k)]),
    }
    return T


def mincing_contract(chk):
    T = field_trees()
    n = 0
    for fname, mk in T.items():
        bad = None
        for k in G.KEYWORDS:
            tree = ast.fix_missing_locations(ast.Module(body=[mk(k)], type_ignores=[]))
            n += 1
            chk.case(("field", fname, k))
            try:
                text = UNPARSE(tree)
                parsed = ast.parse(text)
                ok = canon(parsed) == canon(tree)
                why = None if ok else f"parses to a different tree: {first_tree_difference(canon(tree), canon(parsed))}"
                if ok:
                    # the printed identifier: not a keyword token, an identifier, NFKC-normalises to k
                    toks = [t.string for t in tokenize.generate_tokens(io.StringIO(text).readline) if t.type == tokenize.NAME]
                    # (a token spelled exactly k is the statement's own keyword: an unminced identifier could not have parsed back)
                    mine = [t for t in toks if unicodedata.normalize("NFKC", t) == k and t != k]
                    ok = bool(mine) and all(t.isidentifier() and not keyword.iskeyword(t) for t in mine)
                    why = None if ok else f"name tokens {toks}"
            except SyntaxError as e:
                ok, why = False, f"unparsed text {text!r} does not parse: {e.msg}"
            except Exception as e:  # noqa: BLE001
                ok, why, text = False, f"{type(e).__name__}: {e}", None
            if not ok and bad is None:
                bad = (k, text, why)
        chk.ob(f"mincing-contract/rewriting_unparse/{fname}: the printed name is an identifier, not a keyword, NFKC-equal to the keyword, and parses back",
               bad is None, "ex", "exhaustive_finite",
               detail=f"{len(G.KEYWORDS)} keywords" if bad is None else f"keyword {bad[0]!r}: {bad[2]} (unparsed: {bad[1]!r})",
               replay={"confirmed": True, "input": f"ast field {fname} = {bad[0]!r}", "observed": bad[2], "unparsed": bad[1]} if bad else None)
    # the mincing function itself, for every keyword (independent of any tree)
    bad = []
    for k in G.KEYWORDS:
        t = UNPARSE(ast.Module(body=[ast.Expr(ast.Name(k, ast.Load()))], type_ignores=[])).strip()
        if not (t.isidentifier() and not keyword.iskeyword(t) and unicodedata.normalize("NFKC", t) == k and t != k):
            bad.append((k, t))
    chk.ob("mincing-contract/every keyword other than True False None is printed as a non-keyword identifier that NFKC-normalises to it", not bad, "ex",
           "exhaustive_finite", detail=str(bad[:3]) if bad else f"{len(G.KEYWORDS)} keywords")
    chk.bounds["rewriting_unparse"] = f"{len(T)} identifier-valued AST fields x {len(G.KEYWORDS)} keywords"
    return n


# ------------------------------------------------------------------------------------------------
# the real entry points
# ------------------------------------------------------------------------------------------------
def entry_points(chk):
    base = f"/root/scratch/hv_c14_{os.getpid()}"
    shutil.rmtree(base, ignore_errors=True)
    os.makedirs(os.path.join(base, "pkg", "sub"))
    old_path, old_argv, old_cwd = list(sys.path), list(sys.argv), os.getcwd()
    acc = Acc()
    try:
        samples = G.hy2py_samples()
        for i, (construct, src) in enumerate(samples):
            chk.case(("entry", i))
            want = UNPARSE(hy_compile(hy.read_many(src), types.ModuleType(f"m{i}"), source=src)) + "\n"
            path = os.path.join(base, f"m{i}.hy")
            with open(path, "w", encoding="utf-8") as f:
                f.write(src)
            # hy2py_worker on a Path
            buf = io.StringIO()
            opts = types.SimpleNamespace(with_source=False, with_ast=False, without_python=False, output=None)
            try:
                with contextlib.redirect_stdout(buf), warnings.catch_warnings():
                    warnings.simplefilter("ignore")
                    hy.cmdline.hy2py_worker(hy.cmdline.Path(path), opts, path)
                got = buf.getvalue()
            except BaseException as e:  # noqa: BLE001
                got = f"{type(e).__name__}: {e}"
            acc.add("hy2py/hy2py_worker(FILE) prints exactly ast.unparse(hy_compile(read_many(source)))", got == want, src, got[:300])
            # hy2py_main FILE
            buf = io.StringIO()
            sys.argv = ["hy2py", path]
            try:
                with contextlib.redirect_stdout(buf), warnings.catch_warnings():
                    warnings.simplefilter("ignore")
                    try:
                        hy.cmdline.hy2py_main()
                        rc = "returned"
                    except SystemExit as e:
                        rc = e.code
                got = buf.getvalue()
            except BaseException as e:  # noqa: BLE001
                got, rc = f"{type(e).__name__}: {e}", "raised"
            acc.add("hy2py/hy2py_main FILE prints the same text and exits 0", got == want and rc in (0, None), src, (rc, got[:300]))
            # --output
            outp = os.path.join(base, f"m{i}.py")
            sys.argv = ["hy2py", path, "--output", outp]
            try:
                with contextlib.redirect_stdout(io.StringIO()), warnings.catch_warnings():
                    warnings.simplefilter("ignore")
                    try:
                        hy.cmdline.hy2py_main()
                    except SystemExit:
                        pass
                got = open(outp, encoding="utf-8").read()
            except BaseException as e:  # noqa: BLE001
                got = f"{type(e).__name__}: {e}"
            acc.add("hy2py/hy2py_main FILE --output writes the same text to the file", got == want, src, got[:300])
            # the written file is valid Python that behaves like the compiled AST (clauses a and b on the real output)
            res = run_one(src)
            try:
                ok = res["behaviour"] is not None and RT.first_difference(
                    RT.observe(compile(got, outp, "exec")),
                    RT.observe(compile(hy_compile(hy.read_many(src), types.ModuleType(f"n{i}"), source=src), "<ast>", "exec"))) is None
            except BaseException as e:  # noqa: BLE001
                ok = False
            acc.add("hy2py/the file written by hy2py runs like the compiled AST", ok, src, got[:300])
        # -m MODULE on a package directory with --output
        for j, (construct, src) in enumerate(samples[:4]):
            with open(os.path.join(base, "pkg", "sub" if j % 2 else "", f"mod{j}.hy"), "w", encoding="utf-8") as f:
                f.write(src)
        os.chdir(base)
        sys.argv = ["hy2py", "-m", "pkg", "--output", os.path.join(base, "out")]
        try:
            with contextlib.redirect_stdout(io.StringIO()), warnings.catch_warnings():
                warnings.simplefilter("ignore")
                try:
                    hy.cmdline.hy2py_main()
                except SystemExit:
                    pass
            ok, why = True, None
            for j, (construct, src) in enumerate(samples[:4]):
                p = os.path.join(base, "out", "sub" if j % 2 else "", f"mod{j}.py")
                want = UNPARSE(hy_compile(hy.read_many(src), types.ModuleType(f"k{j}"), source=src)) + "\n"
                if not os.path.exists(p) or open(p, encoding="utf-8").read() != want:
                    ok, why = False, p
        except BaseException as e:  # noqa: BLE001
            ok, why = False, f"{type(e).__name__}: {e}"
        acc.add("hy2py/hy2py_main -m PACKAGE --output DIR writes one .py per .hy with the same text", ok, "pkg/", why)
    finally:
        os.chdir(old_cwd)
        sys.path[:] = old_path
        sys.argv[:] = old_argv
        shutil.rmtree(base, ignore_errors=True)
    chk.bounds["hy2py entry points"] = f"{len(samples)} catalogue programs through hy2py_worker, hy2py_main FILE, --output, and -m on a package"
    return acc


# ------------------------------------------------------------------------------------------------
def flush(chk, acc, backend, kind_of):
    for name in sorted(acc.g):
        n, bad, und, first = acc.g[name]
        kind = kind_of(name)
        if bad == 0 and und == 0:
            chk.ob(name, True, backend, kind, detail=f"{n} programs")
        elif bad == 0:
            chk.ob(name, None, backend, kind, detail=f"{und} of {n} undecided; first: {strip_prelude(first['input'])!r}: {first['observed']}")
        else:
            chk.ob(name, False, backend, kind,
                   detail=f"{bad} of {n} programs fail; shortest: {strip_prelude(first['input'])!r}: {first['observed']}\n  unparsed: {first['unparsed']!r}",
                   witness=first, replay={"confirmed": True, **first})


def kind_of(name):
    parts = name.split("/")
    fam = parts[0] if parts[0] in MERGED else parts[1] if len(parts) > 1 else ""
    return "exhaustive_finite" if fam in ("precedence", "mincing", "constant-names", "negative-real-literal", "negative-complex-literal") else "bounded"


def canaries(chk):
    # (1) an unparse that forgets the parentheses of a nested conditional must be refuted by the behaviour clause
    real = hy.cmdline.ast.unparse
    src = G.PRELUDE + '(log "r" (- a (- b 1)))'
    hy.cmdline.ast.unparse = lambda t: real(t).replace("(b - 1)", "b - 1")
    try:
        res = run_one(src)
    finally:
        hy.cmdline.ast.unparse = real
    chk.canary("an unparse that drops the parentheses of a right-nested subtraction is refuted (behaviour and structure clauses)",
               res["behaviour"] is not None and res["behaviour"][0] is False and res["structure"][0] is False)
    # (2) an unparse without keyword mincing must be refuted by the parse clause
    tu = getattr(hy.compat, "true_unparse", None)
    if tu is not None:
        hy.cmdline.ast.unparse = tu
        try:
            res = run_one(G.PRELUDE + "(setv class 1)")
        finally:
            hy.cmdline.ast.unparse = real
        chk.canary("ast.unparse without keyword mincing is refuted by the parse clause", res["parses"][0] is False)
    # (3) the behaviour comparison notices a changed trace
    o1 = RT.observe(compile("log('a', 1)", "<c>", "exec"))
    o2 = RT.observe(compile("log('a', 2)", "<c>", "exec"))
    chk.canary("two runs with different traces are told apart", RT.first_difference(o1, o2) is not None and RT.first_difference(o1, o1) is None)


def run(chk):
    chk.level = "other"
    chk.explanation = ("Differential execution of hy2py's text against the compiled AST over generated programs; complete only over "
                       "the finite matrices (keyword x position, keyword x AST field, outer x inner precedence contexts), otherwise "
                       "bounded sampling of an infinite program space.")
    global _PROGS
    _PROGS = build_programs(chk.tier, chk.seed)
    n = len(_PROGS)
    procs = min(chk.jobs, 8) if chk.tier == "quick" else min(chk.jobs, 16)      # page faults after fork are expensive
    step = max(20, n // (procs * 4))
    tasks = [(i, min(n, i + step)) for i in range(0, n, step)]
    if chk.jobs > 1:
        gc.collect()
        gc.freeze()
        with mp.get_context("fork").Pool(procs) as pool:
            results = pool.map(_work, tasks, chunksize=1)
        gc.unfreeze()
    else:
        results = [_work(t) for t in tasks]
    total, stats = Acc(), {}
    for g, st in results:
        total.merge(g)
        for k, v in st.items():
            stats[k] = stats.get(k, 0) + v
    chk.evaluations += n
    flush(chk, total, "rtc", kind_of)
    nrand = sum(1 for p in _PROGS if p[0] == "random")
    for fam in ("random", "precedence", "mincing", "negative-real-literal"):
        tot, rej = stats.get(fam + ":programs", 0), stats.get(fam + ":rejected", 0)
        chk.ob(f"vacuity/at least 90% of the {fam} programs are accepted by the compiler", tot > 0 and rej <= 0.1 * tot, "rtc", "bounded",
               detail=f"{rej} of {tot} rejected")
    mincing_contract(chk)
    e_acc = entry_points(chk)
    flush(chk, e_acc, "rtc", lambda name: "bounded")
    canaries(chk)
    chk.extra["program_counts"] = stats
    chk.bounds["programs"] = (f"{n} programs: catalogue {sum(1 for p in _PROGS if p[0] == 'catalogue')}, precedence matrix "
                              f"{sum(1 for p in _PROGS if p[0] == 'precedence')} ({sum(len(v) for v in G.OUTER.values())} contexts x {len(G.INNER) if chk.tier == 'thorough' else len(G.INNER_CORE)} inner kinds), "
                              f"negative literals {sum(1 for p in _PROGS if p[0] == 'negative-literal')}, keyword positions "
                              f"{sum(1 for p in _PROGS if p[0] == 'mincing')} ({len(G.POSITIONS)} positions x {len(G.KEYWORDS)} keywords), literals "
                              f"{sum(1 for p in _PROGS if p[0] == 'literals')}, random {nrand} (seed {chk.seed})")
    for fam, cls, src in _PROGS[:: max(1, n // 5)][:5]:
        chk.sample({"family": fam, "class": cls, "program": strip_prelude(src)[:300]})
    chk.fn("hy/cmdline.py::hy2py_worker", "hy/cmdline.py::hy2py_main", "hy/compat.py::rewriting_unparse", "hy/compiler.py::hy_compile",
           "hy/compiler.py::HyASTCompiler (all rules reached by the generated programs)")
    chk.trust("CPython's compile/exec of an AST and of source text", "ast.parse", "the logging runtime hv/props/_c14_rt.py observes every effect of the generated programs")


def replay(path):
    import json
    d = json.load(open(path))
    rp = d.get("replay") or {}
    print(json.dumps({k: d.get(k) for k in ("property", "obligation", "detail")}, indent=1, default=repr)[:3000])
    src = rp.get("input")
    if isinstance(src, str) and src.lstrip().startswith(("(", '"', "#", "'")):
        full = src if G.PRELUDE in src or src.startswith("(setv a 3") else G.PRELUDE + src
        res = run_one(full)
        print("program:", full)
        print("now:", {k: res[k] for k in ("accepted", "executable", "parses", "behaviour", "structure")})
        print("unparsed now:\n" + str(res["text"]))
        return 1
    return 1 if rp.get("confirmed") else 2
