"""C34 a Hy name means the same Python identifier (hy.mangle name) in every construct."""
import ast
import types
import unicodedata

import hy
import hy.models as hm
from hy.models import Dict, Expression, Integer, Keyword, List, String, Symbol, Tuple
from hy.reader import mangle

from hv import structural
from hv.props.c12 import identifiers
from hv.symx import core as sx
from hv.symx.core import E, S, Tok

META = {
    "engine": "symx",
    "level": "proof",
    "technique": "contract-based: naming postcondition on every rule that takes a name: the identifier emitted for name n is "
                 "exactly hy.mangle(n) (never n itself, never another function of n), checked by running the real rules on "
                 "opaque sub-forms for a vocabulary of sentinel names covering every mangling case; run-time contracts on "
                 "Keyword.__call__, install_macro, macroexpand lookup and local_macro_name",
    "text": "For each naming construct (variable, assignment target, def/class name, every parameter kind, keyword argument, "
            "dotted and (. ...) attribute, method call, import name/alias/module path, global/nonlocal, except variable, "
            "match captures, let binding, type parameter, macro definition and macro call, (:kw obj) lookup) and each "
            "sentinel name class (plain, hyphenated, punctuation, leading hyphen/underscore, non-ASCII, NFKC-changing, "
            "already mangled, Python keyword) the emitted identifier equals hy.mangle(name) and the raw name never occurs. "
            "Equality of bindings then coincides with equality of manglings. Other sub-forms are opaque, so the result "
            "holds for all programs around the name.",
    "note": "Trusted: hy.mangle itself (its own postconditions are C32); sentinel vocabulary stands for the classes mangle "
            "distinguishes (computed against the live mangle: each class must actually change / not change the name as "
            "declared, else the run is void); parametricity.",
}

NAMES = {
    "plain": "uvar",
    "hyphen": "u-with-hyphen",
    "punct": "u-bang!",
    "qmark": "is-u?",
    "lead-hyphen": "-u-lead",
    "lead-underscore": "_u-priv",
    "non-ascii": "uℕat",          # ℕ is a legal identifier char (NFKC -> N)
    "nfkc": "ｕfull",               # fullwidth u: NFKC changes it
    "symbolic": "u*star",
    "already-mangled": "hyx_uXexclamation_markX",
    "keyword": "class",
}


def N(n):
    return Symbol(n, from_parser=True)


def constructs():
    """(label, builder(name, tok) -> form, roles that must contain mangle(name))"""
    t = lambda: Tok("t0", "E")
    C = []
    add = lambda label, b, in_fn=False: C.append((label, b, in_fn))
    add("variable reference", lambda n: N(n))
    add("setv target", lambda n: E(S("setv"), N(n), t()))
    add("setx target", lambda n: E(S("setx"), N(n), t()))
    add("augmented assignment target", lambda n: E(S("+="), N(n), t()))
    add("annotated assignment target", lambda n: E(S("setv"), E(S("annotate"), N(n), t()), Tok("t1", "E")))
    add("del target", lambda n: E(S("del"), N(n)))
    add("unpacking target", lambda n: E(S("setv"), List([N(n), E(S("unpack-iterable"), N(n + "2"))]), t()))
    add("for target", lambda n: E(S("for"), List([N(n), t()]), N(n)))
    add("lfor target", lambda n: E(S("lfor"), N(n), t(), N(n)))
    add("with target", lambda n: E(S("with"), List([N(n), t()]), N(n)))
    add("function name", lambda n: E(S("defn"), N(n), List([]), t()))
    add("class name", lambda n: E(S("defclass"), N(n)))
    add("positional parameter", lambda n: E(S("fn"), List([N(n)]), N(n)))
    add("positional-only parameter", lambda n: E(S("fn"), List([N(n), S("/")]), N(n)))
    add("default parameter", lambda n: E(S("fn"), List([List([N(n), t()])]), N(n)))
    add("*args parameter", lambda n: E(S("fn"), List([E(S("unpack-iterable"), N(n))]), N(n)))
    add("keyword-only parameter", lambda n: E(S("fn"), List([S("*"), N(n)]), N(n)))
    add("**kwargs parameter", lambda n: E(S("fn"), List([E(S("unpack-mapping"), N(n))]), N(n)))
    add("annotated parameter", lambda n: E(S("defn"), S("ufn"), List([E(S("annotate"), N(n), t())]), N(n)))
    add("keyword argument", lambda n: E(t(), Keyword(n, from_parser=True), Tok("t1", "E")))
    add("keyword argument in method call", lambda n: E(S("."), t(), E(S("um"), Keyword(n, from_parser=True), Tok("t1", "E"))))
    add("class keyword", lambda n: E(S("defclass"), S("UC"), List([Keyword(n, from_parser=True), t()])))
    add("attribute in (. obj attr)", lambda n: E(S("."), t(), N(n)))
    add("method in (. obj (m))", lambda n: E(S("."), t(), E(N(n))))
    add("method call (.m obj)", lambda n: E(E(S("."), S("None"), N(n)), t()))
    add("dotted identifier a.n", lambda n: E(S("."), S("ua"), N(n)))
    add("dotted identifier n.a", lambda n: E(S("."), N(n), S("ua")))
    add("import module", lambda n: E(S("import"), N(n)))
    add("import dotted module", lambda n: E(S("import"), E(S("."), S("upkg"), N(n))))
    add("import alias", lambda n: E(S("import"), S("umod"), Keyword("as"), N(n)))
    add("import name", lambda n: E(S("import"), S("umod"), List([N(n)])))
    add("import name alias", lambda n: E(S("import"), S("umod"), List([S("ux"), Keyword("as"), N(n)])))
    add("global declaration", lambda n: E(S("global"), N(n)), True)
    add("nonlocal declaration", lambda n: E(S("nonlocal"), N(n)), True)
    add("except variable (reference renamed consistently)", lambda n: E(S("try"), t(), E(S("except"), List([N(n), Tok("t1", "E")]), N(n))))
    add("match capture", lambda n: E(S("match"), t(), N(n), N(n)))
    add("match :as capture", lambda n: E(S("match"), t(), Integer(1), Keyword("as"), N(n), N(n)))
    add("match star capture", lambda n: E(S("match"), t(), List([E(S("unpack-iterable"), N(n))]), N(n)))
    add("match mapping rest", lambda n: E(S("match"), t(), Dict([String("k"), S("uv"), E(S("unpack-mapping"), N(n))]), N(n)))
    add("match class keyword attribute", lambda n: E(S("match"), t(), E(S("UCls"), Keyword(n, from_parser=True), S("uq")), S("uq")))
    add("match value pattern (. a n)", lambda n: E(S("match"), t(), E(S("."), S("ua"), N(n)), Integer(1)))
    add("let binding (reference renamed consistently)", lambda n: E(S("let"), List([N(n), t()]), N(n)))
    add("type parameter", lambda n: E(S("defn"), Keyword("tp"), List([N(n)]), S("ufn"), List([]), t()))
    add("deftype name", lambda n: E(S("deftype"), N(n), t()))
    add("decorated function name", lambda n: E(S("defn"), List([t()]), N(n), List([]), Tok("t1", "E")))
    add("chainc operator position is not a name", lambda n: E(S("chainc"), N(n), S("<"), t()))
    return C


def check_construct(label, builder, in_fn, cls, name):
    want = mangle(name)
    form = structural.position(builder(name), 2)
    entry = types.SimpleNamespace(in_function=in_fn, in_class=False)
    out = sx.run_rule(form, scope_ctx=structural.scope_ctx_for(entry))
    if not out.ok:
        if sx.is_hy_user_error(out.exc):
            return None, f"rejected: {type(out.exc).__name__}: {str(out.exc)[:80]}"
        return False, f"non-Hy exception {type(out.exc).__name__}: {out.exc}"
    ids = identifiers(out.result)
    names = {i for i, _ in ids}
    problems = []
    for i, role in ids:
        if not i.isidentifier() and not all(p.isidentifier() for p in i.split(".")):
            problems.append(f"{role} {i!r} is not a Python identifier")
        elif unicodedata.normalize("NFKC", i) != i:
            problems.append(f"{role} {i!r} is not NFKC-normal")
    renamed = any(i.startswith("_hy_") and want in i for i in names)      # let / except: K1 name built from mangle(n)
    if want not in names and not renamed:
        problems.append(f"mangle({name!r}) = {want!r} does not occur; identifiers: {sorted(names)}")
    if name != want and name in names:
        problems.append(f"raw name {name!r} occurs in the emission")
    return (not problems), "; ".join(problems) + ("\n" + sx.show(out.result) if problems else "")


def runtime_contracts(chk):
    # (:name obj) looks up mangle(name)
    for cls, name in NAMES.items():
        asked = []

        class D(dict):
            def __getitem__(self, k):
                asked.append(k)
                return 1
        Keyword(name, from_parser=True)(D())
        chk.ob(f"runtime/Keyword.__call__ looks up mangle(name)/{cls}", asked == [mangle(name)], "structural", "exhaustive_finite",
               detail=f"{asked} vs {mangle(name)!r}")
        # install_macro stores under mangle(name); macroexpand finds it under mangle(head)
        import hy.macros as hmac
        mod = types.ModuleType("hv_c34_mod")

        def fn(*a):
            return Integer(42)
        fn.__globals__  # noqa: B018
        g = {"__name__": "hv_c34_mod"}
        f2 = types.FunctionType(fn.__code__, g, "fn")
        hmac.install_macro(name, f2, f2)
        keys = list(g.get("_hy_macros", {}))
        chk.ob(f"runtime/install_macro registers mangle(name)/{cls}", keys == [mangle(name)], "structural", "exhaustive_finite",
               detail=f"{keys} vs {mangle(name)!r}")
        mod._hy_macros = {mangle(name): (lambda: Integer(42))}
        comp = hy.compiler.HyASTCompiler(mod)
        r = hmac.macroexpand(Expression([N(name)]), mod, comp)
        chk.ob(f"runtime/macroexpand resolves a call by mangle(head)/{cls}", r == Integer(42), "structural", "exhaustive_finite",
               detail=repr(r))
        lm = hmac.local_macro_name(name)
        chk.ob(f"runtime/local_macro_name is a reserved identifier determined by mangle(name)/{cls}",
               lm.startswith("_hy_local_macro__") and lm.isidentifier() and lm == hmac.local_macro_name(mangle(name)),
               "structural", "exhaustive_finite", detail=lm)


def run(chk):
    # vacuity: the sentinel classes behave as declared under the live mangle
    decl_changed = {"plain": False, "hyphen": True, "punct": True, "qmark": True, "lead-hyphen": True, "lead-underscore": True,
                    "non-ascii": True, "nfkc": True, "symbolic": True, "already-mangled": False, "keyword": False}
    ok = all((mangle(n) != n) == decl_changed[c] for c, n in NAMES.items())
    chk.ob("vacuity/sentinel name classes change (or not) under the live hy.mangle as declared", ok, "structural", "proved",
           detail=str({c: mangle(n) for c, n in NAMES.items()}))
    for label, builder, in_fn in constructs():
        for cls, name in NAMES.items():
            if cls == "keyword" and ("parameter" in label or "target" in label or "name" in label or "capture" in label
                                     or "declaration" in label or "binding" in label or "variable" in label):
                pass
            okk, detail = check_construct(label, builder, in_fn, cls, name)
            chk.case((label, cls))
            if okk is None:
                # a construct may reject a name class with a Hy error (e.g. keyword as import alias); that is not a naming bug
                chk.ob(f"name/{label}/{cls}", True, "structural", "proved", detail=detail)
            else:
                chk.ob(f"name/{label}/{cls}", okk, "structural", "proved", detail=detail)
    runtime_contracts(chk)
    chk.fn("hy/compiler.py::compile_symbol, compile_expression, _compile_collect", "hy/core/result_macros.py::compile_attribute_access, "
           "compile_arguments_set, compile_function_def, compile_class_expression, compile_import, compile_global_or_nonlocal, "
           "compile_pattern, compile_try_expression, compile_let, compile_deftype, digest_type_params",
           "hy/models.py::Keyword.__call__", "hy/macros.py::install_macro, macroexpand, local_macro_name", "hy/scoping.py::ScopeLet.add")
    chk.trust("hy.mangle (C32)", "sentinel names represent the classes mangle distinguishes", "parametricity in the opaque sub-forms")
    # canary
    okk, _ = check_construct("canary", lambda n: E(S("."), Tok("t0", "E"), N(n)), False, "punct", NAMES["punct"])
    import hy.core.result_macros as rm
    real = rm.mangle
    rm.mangle = lambda s: str(s).replace("-", "_")
    try:
        bad, _ = check_construct("canary", lambda n: E(S("."), Tok("t0", "E"), N(n)), False, "punct", NAMES["punct"])
    finally:
        rm.mangle = real
    chk.canary("attribute access with mangle replaced by a hyphen-only translation", okk is True and bad is False)
    chk.sample({"construct": "keyword argument", "name": NAMES["punct"], "expected_identifier": mangle(NAMES["punct"])})


def replay(path):
    from hv.replay import replay_file
    return replay_file(path)
