"""C34 a Hy name means the same Python identifier (hy.mangle name) in every construct."""
import ast
import types
import unicodedata

import hy
import hy.models as hm
from hy.models import Dict, Expression, Integer, Keyword, List, String, Symbol, Tuple
from hy.reader import mangle

from hv import structural
from hv.props.c12 import identifiers
from hv.symx import core as sx
from hv.symx.core import E, S, Tok

META = {
    "engine": "symx",
    "level": "proof",
    "technique": "contract-based: naming postcondition on every rule that takes a name: the identifier emitted for name n is "
                 "exactly hy.mangle(n) (never n itself, never another function of n), checked by running the real rules on "
                 "opaque sub-forms for a vocabulary of sentinel names covering every mangling case; binding identity: every "
                 "(binder, definer, reference) spelling triple of one identifier compiles to the program of the identifier itself "
                 "and every name the rules hand to hy.scoping is a fixed point of hy.mangle (callee precondition of the scope "
                 "interface, observed on the real classes); run-time contracts on Keyword.__call__, install_macro, macroexpand "
                 "lookup and local_macro_name",
    "text": "For each naming construct (variable, assignment target, def/class name, every parameter kind, keyword argument, "
            "dotted and (. ...) attribute, method call, import name/alias/module path, global/nonlocal, except variable, "
            "match captures, let binding, type parameter, macro definition and macro call, (:kw obj) lookup) and each "
            "sentinel name class (plain, hyphenated, punctuation, leading hyphen/underscore, non-ASCII, NFKC-changing, "
            "already mangled, Python keyword) the emitted identifier equals hy.mangle(name) and the raw name never occurs. "
            "Equality of bindings then coincides with equality of manglings: for 40 scope templates (let / fn / class / "
            "import / nonlocal / global / comprehension / except / match / type parameter binders and definers around a "
            "reference) and all spellings of one identifier in the three positions, the emitted program equals that of the "
            "mangled spelling, a definer with another mangling leaves the reference alone, and hy.scoping never receives an "
            "unmangled name. Other sub-forms are opaque, so the result holds for all programs around the name.",
    "note": "Trusted: hy.mangle itself (its own postconditions are C32); sentinel vocabulary stands for the classes mangle "
            "distinguishes (computed against the live mangle: each class must actually change / not change the name as "
            "declared, else the run is void); parametricity.",
}

NAMES = {
    "plain": "uvar",
    "hyphen": "u-with-hyphen",
    "punct": "u-bang!",
    "qmark": "is-u?",
    "lead-hyphen": "-u-lead",
    "lead-underscore": "_u-priv",
    "non-ascii": "uℕat",          # ℕ is a legal identifier char (NFKC -> N)
    "nfkc": "ｕfull",               # fullwidth u: NFKC changes it
    "symbolic": "u*star",
    "already-mangled": "hyx_uXexclamation_markX",
    "keyword": "class",
}


def N(n):
    return Symbol(n, from_parser=True)


def constructs():
    """(label, builder(name, tok) -> form, roles that must contain mangle(name))"""
    t = lambda: Tok("t0", "E")
    C = []
    add = lambda label, b, in_fn=False: C.append((label, b, in_fn))
    add("variable reference", lambda n: N(n))
    add("setv target", lambda n: E(S("setv"), N(n), t()))
    add("setx target", lambda n: E(S("setx"), N(n), t()))
    add("augmented assignment target", lambda n: E(S("+="), N(n), t()))
    add("annotated assignment target", lambda n: E(S("setv"), E(S("annotate"), N(n), t()), Tok("t1", "E")))
    add("del target", lambda n: E(S("del"), N(n)))
    add("unpacking target", lambda n: E(S("setv"), List([N(n), E(S("unpack-iterable"), N(n + "2"))]), t()))
    add("for target", lambda n: E(S("for"), List([N(n), t()]), N(n)))
    add("lfor target", lambda n: E(S("lfor"), N(n), t(), N(n)))
    add("with target", lambda n: E(S("with"), List([N(n), t()]), N(n)))
    add("function name", lambda n: E(S("defn"), N(n), List([]), t()))
    add("class name", lambda n: E(S("defclass"), N(n)))
    add("positional parameter", lambda n: E(S("fn"), List([N(n)]), N(n)))
    add("positional-only parameter", lambda n: E(S("fn"), List([N(n), S("/")]), N(n)))
    add("default parameter", lambda n: E(S("fn"), List([List([N(n), t()])]), N(n)))
    add("*args parameter", lambda n: E(S("fn"), List([E(S("unpack-iterable"), N(n))]), N(n)))
    add("keyword-only parameter", lambda n: E(S("fn"), List([S("*"), N(n)]), N(n)))
    add("**kwargs parameter", lambda n: E(S("fn"), List([E(S("unpack-mapping"), N(n))]), N(n)))
    add("annotated parameter", lambda n: E(S("defn"), S("ufn"), List([E(S("annotate"), N(n), t())]), N(n)))
    add("keyword argument", lambda n: E(t(), Keyword(n, from_parser=True), Tok("t1", "E")))
    add("keyword argument in method call", lambda n: E(S("."), t(), E(S("um"), Keyword(n, from_parser=True), Tok("t1", "E"))))
    add("class keyword", lambda n: E(S("defclass"), S("UC"), List([Keyword(n, from_parser=True), t()])))
    add("attribute in (. obj attr)", lambda n: E(S("."), t(), N(n)))
    add("method in (. obj (m))", lambda n: E(S("."), t(), E(N(n))))
    add("method call (.m obj)", lambda n: E(E(S("."), S("None"), N(n)), t()))
    add("dotted identifier a.n", lambda n: E(S("."), S("ua"), N(n)))
    add("dotted identifier n.a", lambda n: E(S("."), N(n), S("ua")))
    add("import module", lambda n: E(S("import"), N(n)))
    add("import dotted module", lambda n: E(S("import"), E(S("."), S("upkg"), N(n))))
    add("import alias", lambda n: E(S("import"), S("umod"), Keyword("as"), N(n)))
    add("import name", lambda n: E(S("import"), S("umod"), List([N(n)])))
    add("import name alias", lambda n: E(S("import"), S("umod"), List([S("ux"), Keyword("as"), N(n)])))
    add("global declaration", lambda n: E(S("global"), N(n)), True)
    add("nonlocal declaration", lambda n: E(S("nonlocal"), N(n)), True)
    add("except variable (reference renamed consistently)", lambda n: E(S("try"), t(), E(S("except"), List([N(n), Tok("t1", "E")]), N(n))))
    add("match capture", lambda n: E(S("match"), t(), N(n), N(n)))
    add("match :as capture", lambda n: E(S("match"), t(), Integer(1), Keyword("as"), N(n), N(n)))
    add("match star capture", lambda n: E(S("match"), t(), List([E(S("unpack-iterable"), N(n))]), N(n)))
    add("match mapping rest", lambda n: E(S("match"), t(), Dict([String("k"), S("uv"), E(S("unpack-mapping"), N(n))]), N(n)))
    add("match class keyword attribute", lambda n: E(S("match"), t(), E(S("UCls"), Keyword(n, from_parser=True), S("uq")), S("uq")))
    add("match value pattern (. a n)", lambda n: E(S("match"), t(), E(S("."), S("ua"), N(n)), Integer(1)))
    add("let binding (reference renamed consistently)", lambda n: E(S("let"), List([N(n), t()]), N(n)))
    add("type parameter", lambda n: E(S("defn"), Keyword("tp"), List([N(n)]), S("ufn"), List([]), t()))
    add("deftype name", lambda n: E(S("deftype"), N(n), t()))
    add("decorated function name", lambda n: E(S("defn"), List([t()]), N(n), List([]), Tok("t1", "E")))
    add("chainc operator position is not a name", lambda n: E(S("chainc"), N(n), S("<"), t()))
    return C


def _real_compile(form, in_fn=False):
    """Replay on the real compiler: opaque children become calls of a run-time stub, the whole form goes through hy_compile."""
    from hy.compiler import hy_compile
    from hv import concrete
    inst = concrete.instantiate(form)
    if in_fn:
        inst = E(S("fn"), List([]), inst)
    tree = hy_compile(inst, types.ModuleType("hv_c34_replay"), import_stdlib=False)
    return hy.repr(inst).lstrip("'"), tree


def _ast_identifiers(tree):
    out = set()
    for n in ast.walk(tree):
        for f in ("id", "arg", "attr", "name", "asname", "rest", "module"):
            v = getattr(n, f, None)
            if isinstance(v, str):
                out.update(v.split("."))
        if isinstance(n, (ast.Global, ast.Nonlocal)):
            out.update(n.names)
        if isinstance(n, ast.MatchClass):
            out.update(n.kwd_attrs)
    return out


def replay_naming(builder, in_fn, name):
    try:
        src, tree = _real_compile(builder(name), in_fn)
    except Exception as e:  # noqa: BLE001
        return {"confirmed": False, "error": f"{type(e).__name__}: {e}"[:200]}
    ids = _ast_identifiers(tree)
    want = mangle(name)
    bad = (want not in ids and not any(i.startswith("_hy_") and want in i for i in ids)) or (name != want and name in ids)
    return {"confirmed": bool(bad), "input": src, "observed": f"identifiers in the compiled module: {sorted(ids)}", "expected": f"{want!r} and not {name!r}"}


def replay_binding(builder, trip, m):
    try:
        src, tree = _real_compile(builder(*trip))
        src0, tree0 = _real_compile(builder(m, m, m))
    except Exception as e:  # noqa: BLE001
        return {"confirmed": False, "error": f"{type(e).__name__}: {e}"[:200]}
    a, b = ast.unparse(tree), ast.unparse(tree0)
    return {"confirmed": a != b, "input": src, "observed": a, "expected": f"the module compiled from {src0}: {b}"}


def check_construct(label, builder, in_fn, cls, name):
    want = mangle(name)
    form = structural.position(builder(name), 2)
    entry = types.SimpleNamespace(in_function=in_fn, in_class=False)
    out = sx.run_rule(form, scope_ctx=structural.scope_ctx_for(entry))
    if not out.ok:
        if sx.is_hy_user_error(out.exc):
            return None, f"rejected: {type(out.exc).__name__}: {str(out.exc)[:80]}"
        return False, f"non-Hy exception {type(out.exc).__name__}: {out.exc}"
    ids = identifiers(out.result)
    names = {i for i, _ in ids}
    problems = []
    for i, role in ids:
        if not i.isidentifier() and not all(p.isidentifier() for p in i.split(".")):
            problems.append(f"{role} {i!r} is not a Python identifier")
        elif unicodedata.normalize("NFKC", i) != i:
            problems.append(f"{role} {i!r} is not NFKC-normal")
    renamed = any(i.startswith("_hy_") and want in i for i in names)      # let / except: K1 name built from mangle(n)
    if want not in names and not renamed:
        problems.append(f"mangle({name!r}) = {want!r} does not occur; identifiers: {sorted(names)}")
    if name != want and name in names:
        problems.append(f"raw name {name!r} occurs in the emission")
    return (not problems), "; ".join(problems) + ("\n" + sx.show(out.result) if problems else "")


# ---- second sentence: "two names refer to the same binding exactly when their manglings are equal" -----------------------------------
# Contract on the scope bookkeeping (hy/scoping.py is keyed by identifiers): (a) precondition of the scope interface - every name a rule
# hands to define / add / access / assign / define_nonlocal is a fixed point of hy.mangle; (b) binding identity - in a program whose
# binder, definer and reference spell one identifier differently, replacing every spelling by its mangling leaves the emitted program
# unchanged, and a definer of a differently-mangled name leaves the reference alone.

SPELLINGS = {
    "hyphen": ["u-x-y", "u_x-y"],
    "punct": ["u-bang!", "u_bang!"],
    "qmark": ["is-u?"],
    "lead-hyphen": ["-u-lead"],
    "lead-underscore": ["_u-priv"],
    "non-ascii": ["u\u2115at"],
    "nfkc": ["\uff55full", "u\uff46ull"],
    "symbolic": ["u*star"],
}


def templates():
    t = lambda i=0: Tok(f"t{i}", "E")
    let = lambda a, *body: E(S("let"), List([N(a), t(0)]), *body)
    T = []
    add = lambda label, b: T.append((label, b))
    add("let > defn > reference", lambda a, b, c: let(a, E(S("defn"), N(b), List([]), t(1)), N(c)))
    add("let > fn > defn > reference", lambda a, b, c: let(a, E(S("fn"), List([]), E(S("defn"), N(b), List([]), t(1)), N(c))))
    add("let > defn with decorator > reference", lambda a, b, c: let(a, E(S("defn"), List([t(2)]), N(b), List([]), t(1)), N(c)))
    add("let > defclass > reference", lambda a, b, c: let(a, E(S("defclass"), N(b), List([])), N(c)))
    add("let > fn > defclass > reference", lambda a, b, c: let(a, E(S("fn"), List([]), E(S("defclass"), N(b), List([])), N(c))))
    add("let > import name alias > reference", lambda a, b, c: let(a, E(S("import"), S("umod"), List([S("ux"), Keyword("as"), N(b)])), N(c)))
    add("let > import name > reference", lambda a, b, c: let(a, E(S("import"), S("umod"), List([N(b)])), N(c)))
    add("let > import module alias > reference", lambda a, b, c: let(a, E(S("import"), S("umod"), Keyword("as"), N(b)), N(c)))
    add("let > import module > reference", lambda a, b, c: let(a, E(S("import"), N(b)), N(c)))
    add("let > fn > import name > reference", lambda a, b, c: let(a, E(S("fn"), List([]), E(S("import"), S("umod"), List([N(b)])), N(c))))
    add("let > setv > reference", lambda a, b, c: let(a, E(S("setv"), N(b), t(1)), N(c)))
    add("let > setx > reference", lambda a, b, c: let(a, E(S("setx"), N(b), t(1)), N(c)))
    add("let > augmented assignment > reference", lambda a, b, c: let(a, E(S("+="), N(b), t(1)), N(c)))
    add("let > del > reference", lambda a, b, c: let(a, E(S("del"), N(b)), N(c)))
    add("let > fn > setv > reference", lambda a, b, c: let(a, E(S("fn"), List([]), E(S("setv"), N(b), t(1)), N(c))))
    add("let > fn parameter > reference", lambda a, b, c: let(a, E(S("fn"), List([N(b)]), N(c))))
    add("let > fn default parameter > reference", lambda a, b, c: let(a, E(S("fn"), List([List([N(b), t(1)])]), N(c))))
    add("let > fn *args parameter > reference", lambda a, b, c: let(a, E(S("fn"), List([E(S("unpack-iterable"), N(b))]), N(c))))
    add("let > fn keyword-only parameter > reference", lambda a, b, c: let(a, E(S("fn"), List([S("*"), N(b)]), N(c))))
    add("let > fn **kwargs parameter > reference", lambda a, b, c: let(a, E(S("fn"), List([E(S("unpack-mapping"), N(b))]), N(c))))
    add("let > fn > nonlocal > setv", lambda a, b, c: let(a, E(S("fn"), List([]), E(S("nonlocal"), N(b)), E(S("setv"), N(c), t(1)))))
    add("let > fn > global > setv", lambda a, b, c: let(a, E(S("fn"), List([]), E(S("global"), N(b)), E(S("setv"), N(c), t(1)))))
    add("fn > setv > fn > nonlocal > setv", lambda a, b, c: E(S("fn"), List([]), E(S("setv"), N(a), t(0)),
                                                             E(S("fn"), List([]), E(S("nonlocal"), N(b)), E(S("setv"), N(c), t(1)))))
    add("fn > reference > global (use before declaration)", lambda a, b, c: E(S("fn"), List([]), N(a), E(S("global"), N(b)), N(c)))
    add("let > lfor target > reference", lambda a, b, c: let(a, E(S("lfor"), N(b), t(1), N(c)), N(c)))
    add("let > lfor :setv > reference", lambda a, b, c: let(a, E(S("lfor"), S("ui"), t(1), Keyword("setv"), N(b), t(2), N(c)), N(c)))
    add("let > for target > reference", lambda a, b, c: let(a, E(S("for"), List([N(b), t(1)]), N(c)), N(c)))
    add("let > with target > reference", lambda a, b, c: let(a, E(S("with"), List([N(b), t(1)]), N(c)), N(c)))
    add("let > except variable > reference", lambda a, b, c: let(a, E(S("try"), t(1), E(S("except"), List([N(b), t(2)]), N(c))), N(c)))
    add("let > match capture > reference", lambda a, b, c: let(a, E(S("match"), t(1), N(b), N(c)), N(c)))
    add("let > match :as capture > reference", lambda a, b, c: let(a, E(S("match"), t(1), Integer(1), Keyword("as"), N(b), N(c)), N(c)))
    add("let > let > reference", lambda a, b, c: let(a, E(S("let"), List([N(b), t(1)]), N(c)), N(c)))
    add("let > let destructuring > reference", lambda a, b, c: let(a, E(S("let"), List([List([N(b), S("uo")]), t(1)]), N(c)), N(c)))
    add("let > type parameter > reference", lambda a, b, c: let(a, E(S("defn"), Keyword("tp"), List([N(b)]), S("ufn"), List([]), N(c))))
    add("let > deftype > reference", lambda a, b, c: let(a, E(S("deftype"), N(b), t(1)), N(c)))
    add("let > unpacking target > reference", lambda a, b, c: let(a, E(S("setv"), List([N(b), S("uo")]), t(1)), N(c)))
    add("let > annotated assignment > reference", lambda a, b, c: let(a, E(S("setv"), E(S("annotate"), N(b), t(2)), t(1)), N(c)))
    add("let > dotted head > reference", lambda a, b, c: let(a, E(S("."), N(b), S("ua")), N(c)))
    add("fn parameter > let > reference", lambda a, b, c: E(S("fn"), List([N(a)]), E(S("let"), List([N(b), t(0)]), N(c)), N(c)))
    add("defn > reference to itself", lambda a, b, c: E(S("defn"), N(a), List([N(b)]), N(c)))
    return T


def _emit(form):
    out = sx.run_rule(structural.position(form, 6))
    if not out.ok:
        return ("error", type(out.exc).__name__ if sx.is_hy_user_error(out.exc) else "INTERNAL " + repr(out.exc)[:200])
    return ("ok", sx.show(out.result))


class _ScopeSpy:
    """Records every name the rules hand to the scope interface (callee precondition: names are identifiers, i.e. fixed points of mangle)."""
    METHODS = ("define", "add", "access", "assign", "define_nonlocal")

    def __init__(self):
        import hy.scoping as hsc
        self.hsc, self.seen, self.saved = hsc, [], []

    def _names(self, meth, args):
        for a in args:
            if isinstance(a, str):
                yield str(a)
            elif isinstance(a, (ast.Name, ast.arg, ast.alias, ast.MatchAs, ast.MatchStar, ast.MatchMapping)):
                for f in ("id", "arg", "name", "asname", "rest"):
                    v = getattr(a, f, None)
                    if isinstance(v, str):
                        yield v
            elif isinstance(a, (ast.Global, ast.Nonlocal)):
                yield from a.names
            elif isinstance(a, self.hsc.NodeRef):
                if isinstance(a.name, str):
                    yield a.name

    def __enter__(self):
        spy = self
        for cname in ("ScopeGlobal", "ScopeLet", "ScopeFn", "ScopeGen"):
            cls = getattr(self.hsc, cname)
            for m in self.METHODS:
                f = cls.__dict__.get(m)
                if f is None:
                    continue
                def wrap(f=f, m=m, cname=cname):
                    def w(self_, *a, **k):
                        if not (m == "add" and a and not isinstance(a[0], str)):
                            for nm in spy._names(m, a):
                                spy.seen.append((f"{cname}.{m}", nm))
                        r = f(self_, *a, **k)
                        if m == "add" and cname == "ScopeLet":
                            for key in self_.bindings:
                                spy.seen.append(("ScopeLet.bindings key", key))
                        return r
                    return w
                self.saved.append((cls, m, f))
                setattr(cls, m, wrap())
        return self

    def __exit__(self, *a):
        for cls, m, f in self.saved:
            setattr(cls, m, f)


def definer_binding_runs(chk):
    """Absolute form of the binding clause for the constructs that *define* a name (import alias, import, defn, defclass): after the
    definer, every spelling of the identifier refers to what the definer bound - inside a let that binds the same identifier, in a
    function under such a let, and through nonlocal/global - while a let-bound name with another mangling keeps its binding.  Run
    by CPython; the expected values are those of the equivalent Python program."""
    import types
    progs = {
        "import alias under a let of the alias": ('(let [{a} "let"] (import math [sqrt :as {b}]) ({c} 4))', 2.0),
        "import alias in a function under a let of the alias": ('(let [{a} "let"] (defn uf [] (import math [sqrt :as {b}]) ({c} 4)) (uf))', 2.0),
        "import alias: the imported name is not bound": ('(let [sqrt "let"] (import math [sqrt :as {b}]) [sqrt ({c} 4)])', ["let", 2.0]),
        "import alias at module level, rebound through nonlocal": ('(import math [sqrt :as {a}]) (defn uf [] (nonlocal {b}) (setv {b} 5)) (uf) {c}', 5),
        "import alias at module level, read in a function": ('(import math [sqrt :as {a}]) (defn uf [] ({b} 4)) [(uf) ({c} 9)]', [2.0, 3.0]),
        "two aliases in one import": ('(let [{a} "let"] (import math [sqrt :as {b} floor :as uq]) [({c} 4) (uq 1.5)])', [2.0, 1]),
        "module alias under a let of the alias": ('(let [{a} "let"] (import math :as {b}) (. {c} pi))', __import__("math").pi),
        "defn under a let of the name": ('(let [{a} "let"] (defn {b} [] 1) ({c}))', 1),
        "defclass under a let of the name": ('(let [{a} "let"] (defclass {b} []) (isinstance {c} type))', True),
        "a let-bound name with another mangling keeps its binding": ('(let [u-other "let"] (import math [sqrt :as {b}]) [u-other ({c} 4)])', ["let", 2.0]),
    }
    for label, (tmpl, want) in progs.items():
        bad = None
        n = 0
        for cls, sp in SPELLINGS.items():
            m = mangle(sp[0])
            opts = [*sp, m]
            for i, a in enumerate(opts):
                trip = (a, opts[(i + 1) % len(opts)], opts[(i + 2) % len(opts)])
                src = tmpl.format(a=trip[0], b=trip[1], c=trip[2])
                try:
                    got = hy.eval(hy.read_many(src), module=types.ModuleType("hv_c34d"))
                except Exception as e:  # noqa: BLE001
                    got = f"{type(e).__name__}: {e}"[:160]
                n += 1
                chk.case(("definer", label, cls, i))
                if got != want and bad is None:
                    bad = (src, got)
        chk.ob(f"definer/{label}: every spelling refers to what the definer bound", bad is None and n >= len(SPELLINGS), "cpython-oracle",
               "exhaustive_finite", detail=f"{n} programs" if bad is None else f"{bad[0]} -> {bad[1]!r}, expected {want!r}",
               replay=None if bad is None else {"confirmed": True, "input": bad[0], "observed": repr(bad[1]), "expected": repr(want)})


def required_prefixes(chk):
    """Macro names and require aliases: macros required through a prefix - `(require m :as P)`, `(require pkg [sub :as P])` - are
    stored under mangle(P + "." + name), so every spelling of the prefix and of the macro name with the same mangling calls the macro."""
    import os
    import shutil
    import sys
    import tempfile
    root = tempfile.mkdtemp(prefix="hv_c34_", dir=os.environ.get("HV_SCRATCH") or None)
    pkg = os.path.join(root, "hvpkg34")
    os.makedirs(pkg)
    open(os.path.join(pkg, "__init__.hy"), "w").write("")
    open(os.path.join(pkg, "sub_mod.hy"), "w").write("(defmacro twice! [x] `(* 2 ~x))\n(defmacro plain [x] `(+ 1 ~x))\n")
    sys.path.insert(0, root)
    try:
        forms = {
            "submodule of a package with an alias": "(require hvpkg34 [sub-mod :as {a}])",
            "submodule of a package without alias": "(require hvpkg34 [sub-mod])",
            "module with an alias": "(require hvpkg34.sub-mod :as {a})",
            "module without alias": "(require hvpkg34.sub-mod)",
        }
        aliases = {"submodule of a package without alias": ["sub-mod", "sub_mod"], "module without alias": ["hvpkg34.sub-mod", "hvpkg34.sub_mod"]}
        for what, tmpl in forms.items():
            bad = None
            n = 0
            for cls, sp in SPELLINGS.items():
                m = mangle(sp[0])
                opts = aliases.get(what) or [*sp, m]
                for i, a in enumerate(opts):
                    b = opts[(i + 1) % len(opts)]
                    src = tmpl.format(a=a) + f" [({b}.twice! 3) ({a}.plain 4)]"
                    mod = types.ModuleType("hv_c34r")
                    sys.modules["hv_c34r"] = mod          # (require looks the target module up by name)
                    try:
                        got = hy.eval(hy.read_many(src), module=mod)
                    except Exception as e:  # noqa: BLE001
                        got = f"{type(e).__name__}: {e}"[:160]
                    finally:
                        sys.modules.pop("hv_c34r", None)
                    keys = [k for k in getattr(mod, "_hy_macros", {}) if mangle(k) != k]
                    n += 1
                    chk.case(("require-prefix", what, cls, i))
                    if (got != [6, 5] or keys) and bad is None:
                        bad = (src, got, keys)
                if what in aliases:
                    break
            chk.ob(f"require-prefix/{what}: the macros are stored under mangle(prefix.name) and every spelling calls them", bad is None and n > 0,
                   "cpython-oracle", "exhaustive_finite", detail=f"{n} programs" if bad is None else
                   f"{bad[0]} -> {bad[1]!r} (expected [6, 5]); macro-table keys that are not manglings: {bad[2]}",
                   replay=None if bad is None else {"confirmed": True, "input": bad[0] + "   (hvpkg34/sub_mod.hy defines the macros twice! and plain)",
                                                    "observed": repr(bad[1]), "expected": "[6, 5]"})
    finally:
        sys.path.remove(root)
        for k in [k for k in sys.modules if k.startswith("hvpkg34")]:
            del sys.modules[k]
        shutil.rmtree(root, ignore_errors=True)


def binding_identity(chk):
    import itertools
    T = templates()
    n_forms = 0
    for label, b in T:
        for cls, sp in SPELLINGS.items():
            m = mangle(sp[0])
            assert all(mangle(x) == m for x in sp), (cls, sp)
            opts = [*sp, m]
            ref = _emit(b(m, m, m))
            bad = []
            scope_bad = []
            for trip in itertools.product(opts, repeat=3):
                if trip == (m, m, m):
                    continue
                with _ScopeSpy() as spy:
                    got = _emit(b(*trip))
                n_forms += 1
                if got != ref and not bad:
                    bad.append((trip, got, ref))
                for where, nm in spy.seen:
                    if where == "ScopeLet.add":
                        continue        # add() takes the Hy spelling and mangles it itself; its postcondition is the bindings key
                    if mangle(nm) != nm or unicodedata.normalize("NFKC", nm) != nm:
                        if not scope_bad:
                            scope_bad.append((trip, where, nm))
            chk.case((label, cls))
            chk.ob(f"binding/{label}/{cls}: every spelling of one identifier compiles like the identifier itself", not bad, "structural",
                   "exhaustive_finite", detail=None if not bad else
                   f"names (binder, definer, reference) = {bad[0][0]}\nemitted: {bad[0][1][1]}\nwith every name written as {m!r}: {bad[0][2][1]}",
                   witness=None if not bad else {"names": list(bad[0][0]), "template": label},
                   replay=None if not bad else replay_binding(b, bad[0][0], m))
            chk.ob(f"scope-interface/{label}/{cls}: every name handed to the scope bookkeeping is a fixed point of hy.mangle", not scope_bad,
                   "structural", "exhaustive_finite", detail=None if not scope_bad else
                   f"names = {scope_bad[0][0]}: {scope_bad[0][1]} received {scope_bad[0][2]!r}",
                   witness=None if not scope_bad else {"names": list(scope_bad[0][0]), "template": label})
            # converse: a definer whose mangling differs does not touch the binding
            other = "u_other"
            with_other = _emit(b(m, other, m))
            plain = _emit(b(m, "u_third", m))
            same = with_other[0] == plain[0] and with_other[1].replace(other, "u_third") == plain[1]
            chk.ob(f"binding/{label}/{cls}: a definer with a different mangling is a different binding", same, "structural",
                   "exhaustive_finite", detail=None if same else f"{with_other}\nvs\n{plain}")
    chk.extra["binding_identity_forms"] = n_forms


def runtime_contracts(chk):
    # (:name obj) looks up mangle(name)
    for cls, name in NAMES.items():
        asked = []

        class D(dict):
            def __getitem__(self, k):
                asked.append(k)
                return 1
        Keyword(name, from_parser=True)(D())
        chk.ob(f"runtime/Keyword.__call__ looks up mangle(name)/{cls}", asked == [mangle(name)], "structural", "exhaustive_finite",
               detail=f"{asked} vs {mangle(name)!r}")
        # ... with a default argument too: (:s obj default) asks for the same key, returns the default exactly when that key is
        # missing, and never finds the unmangled spelling
        asked2 = []

        class D2(dict):
            def __getitem__(self, k):
                asked2.append(k)
                return dict.__getitem__(self, k)
        kw = Keyword(name, from_parser=True)
        m = mangle(name)
        r_hit = kw(D2({m: "hit"}), "dflt")
        r_miss = kw(D2({}), "dflt")
        r_raw = kw(D2({name: "raw"} if name != m else {}), "dflt")
        okd = r_hit == "hit" and r_miss == "dflt" and r_raw == "dflt" and set(asked2) == {m}
        chk.ob(f"runtime/Keyword.__call__ with a default looks up mangle(name) and nothing else/{cls}", okd, "structural", "exhaustive_finite",
               detail=f"hit={r_hit!r} miss={r_miss!r} raw-spelling-only={r_raw!r} keys asked={sorted(set(asked2))}",
               replay=None if okd else {"confirmed": True, "input": f"(:{name} {{{m!r} \"hit\"}} \"dflt\")", "observed": repr((r_hit, r_miss, r_raw))})
        # install_macro stores under mangle(name); macroexpand finds it under mangle(head)
        import hy.macros as hmac
        mod = types.ModuleType("hv_c34_mod")

        def fn(*a):
            return Integer(42)
        fn.__globals__  # noqa: B018
        g = {"__name__": "hv_c34_mod"}
        f2 = types.FunctionType(fn.__code__, g, "fn")
        hmac.install_macro(name, f2, f2)
        keys = list(g.get("_hy_macros", {}))
        chk.ob(f"runtime/install_macro registers mangle(name)/{cls}", keys == [mangle(name)], "structural", "exhaustive_finite",
               detail=f"{keys} vs {mangle(name)!r}")
        mod._hy_macros = {mangle(name): (lambda: Integer(42))}
        comp = hy.compiler.HyASTCompiler(mod)
        r = hmac.macroexpand(Expression([N(name)]), mod, comp)
        chk.ob(f"runtime/macroexpand resolves a call by mangle(head)/{cls}", r == Integer(42), "structural", "exhaustive_finite",
               detail=repr(r))
        lm = hmac.local_macro_name(name)
        chk.ob(f"runtime/local_macro_name is a reserved identifier determined by mangle(name)/{cls}",
               lm.startswith("_hy_local_macro__") and lm.isidentifier() and lm == hmac.local_macro_name(mangle(name)),
               "structural", "exhaustive_finite", detail=lm)


def local_macro_names_injective(chk):
    """Two local macro names refer to one run-time binding exactly when their manglings are equal: local_macro_name (the variable
    that holds a function-local macro, dotted names from a prefixed local require included) is injective on manglings.  All names up
    to length 5 over an alphabet containing the characters its escaping uses."""
    import itertools
    import hy.macros as hmac
    seen = {}
    clash = None
    n = 0
    for k in range(1, 6):
        for t in itertools.product("DN.pm", repeat=k):
            name = "".join(t)
            if name.startswith(".") or name.endswith(".") or ".." in name:
                continue
            n += 1
            key = hmac.local_macro_name(name)
            m = mangle(name)
            if key in seen and seen[key] != m and clash is None:
                clash = (seen[key], m, key)
            seen.setdefault(key, m)
            if not key.isidentifier() and clash is None:
                clash = (name, "not an identifier", key)
    chk.case(("local-macro-names", n))
    chk.ob("runtime/local_macro_name is injective on manglings (names over D N . p m up to length 5)", clash is None, "structural",
           "exhaustive_finite", detail=f"{n} names" if clash is None else f"{clash[0]!r} and {clash[1]!r} both map to {clash[2]!r}",
           replay=None if clash is None else {"confirmed": True, "input": f"hy.macros.local_macro_name({clash[0]!r}) and ({clash[1]!r})",
                                              "observed": clash[2]})


def run(chk):
    # vacuity: the sentinel classes behave as declared under the live mangle
    decl_changed = {"plain": False, "hyphen": True, "punct": True, "qmark": True, "lead-hyphen": True, "lead-underscore": True,
                    "non-ascii": True, "nfkc": True, "symbolic": True, "already-mangled": False, "keyword": False}
    ok = all((mangle(n) != n) == decl_changed[c] for c, n in NAMES.items())
    chk.ob("vacuity/sentinel name classes change (or not) under the live hy.mangle as declared", ok, "structural", "proved",
           detail=str({c: mangle(n) for c, n in NAMES.items()}))
    dead = []
    for label, builder, in_fn in constructs():
        if check_construct(label, builder, in_fn, "plain", NAMES["plain"])[0] is None:
            dead.append(label)
    chk.ob("vacuity/every naming construct is accepted by the compiler for a plain name", not dead, "structural", "proved", detail=str(dead))
    for label, builder, in_fn in constructs():
        for cls, name in NAMES.items():
            if cls == "keyword" and ("parameter" in label or "target" in label or "name" in label or "capture" in label
                                     or "declaration" in label or "binding" in label or "variable" in label):
                pass
            okk, detail = check_construct(label, builder, in_fn, cls, name)
            chk.case((label, cls))
            if okk is None:
                # a construct may reject a name class with a Hy error (e.g. keyword as import alias); that is not a naming bug
                chk.ob(f"name/{label}/{cls}", True, "structural", "proved", detail=detail)
            else:
                chk.ob(f"name/{label}/{cls}", okk, "structural", "proved", detail=detail,
                       replay=None if okk else replay_naming(builder, in_fn, name))
    runtime_contracts(chk)
    local_macro_names_injective(chk)
    binding_identity(chk)
    definer_binding_runs(chk)
    required_prefixes(chk)
    chk.fn("hy/compiler.py::compile_symbol, compile_expression, _compile_collect", "hy/core/result_macros.py::compile_attribute_access, "
           "compile_arguments_set, compile_function_def, compile_class_expression, compile_import, compile_global_or_nonlocal, "
           "compile_pattern, compile_try_expression, compile_let, compile_deftype, digest_type_params",
           "hy/models.py::Keyword.__call__", "hy/macros.py::install_macro, macroexpand, local_macro_name", "hy/scoping.py::ScopeLet.add")
    chk.trust("hy.mangle (C32)", "sentinel names represent the classes mangle distinguishes", "parametricity in the opaque sub-forms")
    # canary
    okk, _ = check_construct("canary", lambda n: E(S("."), Tok("t0", "E"), N(n)), False, "punct", NAMES["punct"])
    import hy.core.result_macros as rm
    real = rm.mangle
    rm.mangle = lambda s: str(s).replace("-", "_")
    try:
        bad, _ = check_construct("canary", lambda n: E(S("."), Tok("t0", "E"), N(n)), False, "punct", NAMES["punct"])
    finally:
        rm.mangle = real
    chk.canary("attribute access with mangle replaced by a hyphen-only translation", okk is True and bad is False)
    chk.sample({"construct": "keyword argument", "name": NAMES["punct"], "expected_identifier": mangle(NAMES["punct"])})


def replay(path):
    from hv.replay import replay_file
    return replay_file(path)
