"""C12 compiler-introduced names are reserved (hy or _hy_...) and temporaries never collide."""
import ast

from hv import catalog, structural
from hv.symx import core as sx

META = {
    "engine": "symx",
    "level": "proof",
    "technique": "contract-based: identifier-provenance postcondition on every compile_* rule (symbolic execution of the real "
                 "rule on opaque children): every identifier in binding or free position of the emission is a mangled user "
                 "name of the input, `hy`, or was issued by get_anon_var during this very run; plus the contract of "
                 "get_anon_var (fresh, _hy_-prefixed, pairwise distinct) checked on the real method",
    "text": "For every rule of the catalogue and every child-shape vector the emitted AST is inspected: Name ids, def/class "
            "names, argument names, import aliases, handler names, pattern captures, global/nonlocal names, keyword-argument "
            "names and attribute names (outside chains rooted at hy) must come from the input program (through mangle), be "
            "`hy`, or be a name handed out by get_anon_var in this compilation; every _hy_ name must have been issued by "
            "get_anon_var (never invented), and issued names are pairwise distinct. Rule-level proof for all child values.",
    "note": "Trusted: parametricity; the premise that user names do not start with _hy_; inline Python (py/pys) is user text "
            "and is excluded. get_anon_var's counter is only assigned in __init__ and get_anon_var (syntactic frame check "
            "over hy/*.py on every run).",
}

SKIP = {"py", "pys"}


def identifiers(result):
    """(identifier, role) pairs in binding or free position."""
    out = []
    hy_rooted = set()
    nodes = structural.nodes_of(result)
    for n in nodes:
        if isinstance(n, ast.Attribute):
            x = n
            while isinstance(x, ast.Attribute):
                x = x.value
            if isinstance(x, ast.Name) and x.id == "hy":
                y = n
                while isinstance(y, ast.Attribute):
                    hy_rooted.add(id(y))
                    y = y.value
    hy_kw = set()      # keyword arguments of calls into hy's own API (hy.models.Symbol(..., from_parser=True)) are
    for n in nodes:    # parameter names of hy functions, not names of the compiled program
        if isinstance(n, ast.Call) and isinstance(n.func, ast.Attribute) and id(n.func) in hy_rooted:
            hy_kw.update(id(k) for k in n.keywords)
    for n in nodes:
        t = type(n).__name__
        if isinstance(n, ast.Name):
            out.append((n.id, "Name"))
        elif isinstance(n, (ast.FunctionDef, ast.AsyncFunctionDef, ast.ClassDef)):
            out.append((n.name, t))
        elif isinstance(n, ast.arg):
            out.append((n.arg, "arg"))
        elif isinstance(n, ast.alias):
            for part in n.name.split("."):
                if part and part != "*":
                    out.append((part, "alias.name"))
            if n.asname:
                out.append((n.asname, "alias.asname"))
        elif isinstance(n, ast.ImportFrom):
            for part in (n.module or "").split("."):
                if part:
                    out.append((part, "ImportFrom.module"))
        elif isinstance(n, ast.ExceptHandler):
            if n.name:
                out.append((n.name, "ExceptHandler.name"))
        elif t in ("MatchAs", "MatchStar"):
            if n.name:
                out.append((n.name, t))
        elif t == "MatchMapping":
            if n.rest:
                out.append((n.rest, t))
        elif t == "MatchClass":
            out.extend((k, "MatchClass.kwd") for k in n.kwd_attrs)
        elif isinstance(n, (ast.Global, ast.Nonlocal)) or t == "OuterVar":
            out.extend((x, t) for x in n.names)
        elif isinstance(n, ast.keyword):
            if n.arg and id(n) not in hy_kw:
                out.append((n.arg, "keyword"))
        elif isinstance(n, ast.Attribute):
            if id(n) not in hy_rooted:
                out.append((n.attr, "Attribute"))
        elif t in ("TypeVar", "ParamSpec", "TypeVarTuple"):
            out.append((n.name, t))
    return out


def provenance(entry, sv):
    toks, form = structural.make(entry, sv)
    comp = sx.new_compiler()
    issued = []
    real = comp.get_anon_var

    def logging_get_anon_var(*a, **kw):
        r = real(*a, **kw)
        issued.append(r)
        return r
    comp.get_anon_var = logging_get_anon_var
    out = sx.run_rule(form, compiler=comp, scope_ctx=structural.scope_ctx_for(entry))
    if not out.ok:
        if sx.is_hy_user_error(out.exc):
            return ("hy-error", None, None)
        return ("ok", f"raises {type(out.exc).__name__} (classified by C10)", None)
    user = structural.all_user_names(form)
    bad = []
    for ident, role in identifiers(out.result):
        if ident == "hy" or ident in user:
            continue
        if ident.startswith("_hy_"):
            if ident in issued or any(ident.startswith(i) for i in issued):
                continue
            # names derived from a user name by a documented reserved-prefix scheme
            bad.append(f"{role} {ident!r}: starts with _hy_ but was not issued by get_anon_var in this run")
            continue
        bad.append(f"{role} {ident!r}: neither a name of the input program, nor hy, nor _hy_-prefixed")
    if len(set(issued)) != len(issued):
        bad.append(f"get_anon_var issued a name twice in one compilation unit: {issued}")
    if any(not i.startswith("_hy_") for i in issued):
        bad.append(f"get_anon_var issued a name without the reserved prefix: {issued}")
    if bad:
        return ("violated", "; ".join(sorted(set(bad))) + "\n" + sx.show(out.result), {"emitted": sx.show(out.result)})
    return ("ok", None, None)


def frame_check(chk):
    """The state get_anon_var counts in (whatever attribute(s) its body names) is assigned only in constructors and in
    get_anon_var itself (syntactic, all of hy/): nothing else can reset or rewind the numbering."""
    import glob
    import os
    comp_src = ast.parse(open(os.path.join(sx.REPO, "hy", "compiler.py")).read())
    gav = [f for f in ast.walk(comp_src) if isinstance(f, ast.FunctionDef) and f.name == "get_anon_var"]
    attrs = {n.attr for f in gav for n in ast.walk(f) if isinstance(n, ast.Attribute)} - {"get_anon_var"}
    sites = []
    for p in sorted(glob.glob(os.path.join(sx.REPO, "hy", "**", "*.py"), recursive=True)):
        tree = ast.parse(open(p).read())
        for fn in ast.walk(tree):
            if isinstance(fn, (ast.FunctionDef, ast.AsyncFunctionDef)):
                for n in ast.walk(fn):
                    tg = []
                    if isinstance(n, ast.Assign):
                        tg = n.targets
                    elif isinstance(n, (ast.AugAssign, ast.AnnAssign)):
                        tg = [n.target]
                    elif isinstance(n, ast.Delete):
                        tg = n.targets
                    for t in tg:
                        if isinstance(t, ast.Attribute) and t.attr in attrs:
                            sites.append(f"{os.path.relpath(p, sx.REPO)}::{fn.name}")
    for p in sorted(glob.glob(os.path.join(sx.REPO, "hy", "**", "*.hy"), recursive=True)):
        txt = open(p).read()
        if any(a in txt or a.replace("_", "-") in txt for a in attrs if len(a) > 4):
            sites.append(os.path.relpath(p, sx.REPO))
    ok = len(gav) == 1 and all(x.endswith("::__init__") or x.endswith("::get_anon_var") for x in sites)
    chk.ob("frame/the counter state of get_anon_var is assigned only in constructors and get_anon_var", ok, "structural", "proved",
           detail=f"state attributes {sorted(attrs)}; assignment sites {sites}")


def _replay_unit_names():
    """Through the whole pipeline: a nested function that binds, with a let of its own, the name of a let-bound variable of the enclosing scope it also reads."""
    import types
    import hy
    src = '(let [x "outer"] (defn inner [] [(let [x "inner"] x) x]) [(inner) x])'
    try:
        got = hy.eval(hy.read(src), module=types.ModuleType("hv_c12u"))
    except Exception as e:  # noqa: BLE001
        got = f"{type(e).__name__}: {e}"[:200]
    return {"confirmed": got != [["inner", "outer"], "outer"], "input": src, "observed": repr(got), "expected": "[['inner', 'outer'], 'outer']"}


def anon_var_contract(chk):
    """Contract of the real get_anon_var, stated over what it returns (not over how it counts): every result is
    "_hy_" + base + ("_" + name if name) + "_" + digits, and within one compilation unit (one compiler object) no two calls - in
    whichever scopes they are made - return the same name."""
    import hy.scoping as hs
    import itertools
    import re
    comp = sx.new_compiler()
    bad = []
    seen = {}
    pairs = list(itertools.product(["anon", "let", "exc", "x_1", ""], ["", "x", "_hy_anon_1", "a_b", "1"]))

    def issue(where):
        for base, name in pairs:
            r = comp.get_anon_var(base, name) if (base, name) != ("anon", "") else comp.get_anon_var()
            want = "_hy_" + base + (("_" + name) if name else "") + "_"
            if not (isinstance(r, str) and r.startswith(want) and re.fullmatch(r"[0-9]+", r[len(want):])):
                bad.append((where, base, name, r, "is not " + want + "<digits>"))
            elif r in seen:
                bad.append((where, base, name, r, "was already issued in " + seen[r]))
            seen.setdefault(r, where)
            chk.case(("anon", where, base, name))
    with comp.scope:
        issue("the module scope")
        f1 = comp.scope.create(hs.ScopeFn)
        with f1:
            issue("a function scope")
            l1 = comp.scope.create(hs.ScopeLet)
            with l1:
                issue("a let inside the function")
                f2 = comp.scope.create(hs.ScopeFn)
                with f2:
                    issue("a function nested in the function")
            g1 = comp.scope.create(hs.ScopeGen)
            with g1:
                issue("a comprehension scope inside the function")
        f3 = comp.scope.create(hs.ScopeFn)
        with f3:
            issue("a second function scope")
        issue("the module scope again")
    chk.ob("contract/get_anon_var: reserved prefix, numeric suffix, and no name issued twice in one compilation unit whatever the scope",
           not bad and len(seen) == 7 * len(pairs), "structural", "bounded",
           detail=str(bad[:3]) if bad else f"run-time contract on the real method: {len(seen)} calls in 7 scopes of one compiler; unbounded proof of "
           "the counter discipline: hv.pyvc K1 (C12 thorough)", replay=None if not bad else _replay_unit_names())


def _replay_let_names():
    """Through the whole pipeline: a let that binds v twice with a closure in between; the closure must keep seeing the first binding."""
    import types
    import hy
    src = "(let [v 1  f (fn [] v)  v 2] [(f) v])"
    try:
        got = hy.eval(hy.read(src), module=types.ModuleType("hv_c12r"))
    except Exception as e:  # noqa: BLE001
        return {"confirmed": False, "error": f"{type(e).__name__}: {e}"[:200]}
    return {"confirmed": got != [1, 2], "input": src, "observed": repr(got), "expected": "[1, 2]"}


def let_names_contract(chk):
    """ScopeLet.add: every binding gets a name of its own from get_anon_var - also a second binding of the same user name
    in the same let, and bindings of equal names in nested lets; distinct temporaries never share a name."""
    import hy.scoping as hs
    comp = sx.new_compiler()
    issued = []
    with comp.scope:
        outer = comp.scope.create(hs.ScopeLet)
        with outer:
            issued += [str(outer.add(sx.S("v"))), str(outer.add(sx.S("w"))), str(outer.add(sx.S("v")))]
            inner = comp.scope.create(hs.ScopeLet)
            with inner:
                issued += [str(inner.add(sx.S("v"))), str(inner.add(sx.S("v")))]
    ok = len(set(issued)) == len(issued) and all(n.startswith("_hy_let_") for n in issued)
    chk.ob("contract/ScopeLet.add issues a fresh reserved name for every binding, also when a let binds the same name twice",
           ok, "structural", "proved", detail=str(issued), replay=None if ok else _replay_let_names())


def let_bound_targets(chk):
    """User variables keep their values: an assignment to a let-bound name whose value needs statements (the compiler renames the
    value's result temporary - a variable or a function definition - to the target) stores into the let variable; the variable of the
    same name outside the let is untouched.  Programs run by CPython against the alpha-renamed reference (hv/props/_scopes.py)."""
    from hv.props import _scopes as sc
    from hv.props.c06 import BINDS
    from hv.props._scopes import BIND, LOG, SETV
    bad = None
    n = 0
    for how in BINDS:
        for levels in ([("let", ("x",))], [("let", ("x",)), ("let", ("y",))], [("fn",), ("let", ("x",))], [("let", ("x",)), ("fn",)]):
            for wrap in (False, True):
                for prog in sc.spine_programs(levels, [(SETV("x"),)], [(BIND(how, "x"), LOG("x"))], [(BIND(how, "x"), LOG("x"), LOG("y"))],
                                              wrap_function=wrap):
                    n += 1
                    ok, hs, ps, h, p = sc.compare(prog)
                    chk.case(("let-bound-target", how, n))
                    if not ok and bad is None:
                        bad = (how, hs, repr(h), repr(p))
    chk.ob("keep/assignment to a let-bound name with a value that needs statements: stored in the let variable, the outer variable of the "
           "same name keeps its value", bad is None and n > 50, "cpython-oracle", "exhaustive_finite",
           detail=f"{n} programs" if bad is None else f"{bad[0]}: {bad[1]}\n  Hy run : {bad[2]}\n  ref run: {bad[3]}",
           replay=None if bad is None else {"confirmed": True, "input": bad[1], "observed": bad[2], "expected": bad[3]})


def user_variables_survive(chk):
    """`so user variables keep their values across compiled constructs`, end to end: Python unbinds an except variable when the handler
    ends, which is why Hy gives every except variable a reserved name; a user variable of the same name keeps its value whatever the
    handler's body is (also empty), wherever the variable lives."""
    import types
    import hy
    progs = {
        '(defn f [e] (try (raise (ValueError)) (except [e ValueError])) e) (f 1)': 1,
        '(defn f [e] (try (raise (ValueError)) (except [e ValueError] 2)) e) (f 1)': 1,
        '(defn f [e] (try (raise (ValueError)) (except [e [ValueError KeyError]])) e) (f 1)': 1,
        '(setv e 1) (try (raise (ValueError)) (except [e ValueError])) e': 1,
        '(setv e 1) (try (raise (ValueError)) (except [e ValueError] (str e))) e': 1,
        '(defn f [] (setv e 1) (try (raise (ValueError)) (except [e ValueError]) (finally None)) e) (f)': 1,
        '(defn f [e] (try (raise (ExceptionGroup "g" [(ValueError)])) (except* [e ValueError])) e) (f 1)': 1,
        '(defn f [e] (try (raise (KeyError)) (except [e ValueError]) (except [e KeyError])) e) (f 1)': 1,
        '(let [e 1] (try (raise (ValueError)) (except [e ValueError])) e)': 1,
        '(defn f [e] (setv r (try (raise (ValueError)) (except [e ValueError]))) [r e]) (f 1)': [None, 1],
        '(defn f [x] (with [x (open "/dev/null")] None) (. x closed)) (f 1)': True,
        '(defn f [e] (try 0 (except [e ValueError])) e) (f 1)': 1,
    }
    for src, want in progs.items():
        try:
            got = hy.eval(hy.read_many(src), module=types.ModuleType("hv_c12e"))
        except Exception as ex:  # noqa: BLE001
            got = f"{type(ex).__name__}: {ex}"[:160]
        chk.case(("survive", src))
        chk.ob(f"keep/e2e/{src}", got == want, "cpython-oracle", "proved", detail=f"{got!r}, expected {want!r}",
               replay=None if got == want else {"confirmed": True, "input": src, "observed": repr(got), "expected": repr(want)})


def run(chk):
    names = [n for n, e in catalog.ENTRIES.items() if catalog.supported(e) and n not in SKIP]
    chk.fn(*sorted({e.fn for e in catalog.ENTRIES.values() if e.fn}), "hy/compiler.py::HyASTCompiler.get_anon_var",
           "hy/scoping.py::ScopeLet.add", "hy/macros.py::local_macro_name")
    chk.trust("parametricity of rules in their children", "user names do not start with _hy_ (premise of the property)",
              "inline Python text (py/pys) is user code")
    structural.run(chk, "names", provenance, names)
    frame_check(chk)
    anon_var_contract(chk)
    let_names_contract(chk)
    let_bound_targets(chk)
    user_variables_survive(chk)
    # "so user variables keep their values across compiled constructs": semantic clause, with let-bound variables
    # (whose Python names are _hy_-prefixed, like the compiler's temporaries) as operands of every sequential construct
    from hv import rules, uservars
    from hv.replay import replay_mismatch
    # (+ the cases in which two result temporaries are alive at once inside a chain that shares one: they must not share a name)
    from hv.props import c01
    live2 = [n for n in c01.cases(chk.tier) if n.startswith("nest/two-ifs-")]
    rules.run_cases(chk, uservars.cases() + live2, prefix="keep", replay_fn=replay_mismatch)
    try:
        from hv.pyvc import k1
        k1.add(chk)
    except ImportError:
        pass
    # canary: a rule that invents a non-reserved name
    from hy.compiler import Result
    import hy.compiler as hc
    import hy.models as hm

    class Inv(hm.Object):
        pass
    hc._model_compilers[Inv] = lambda comp, d: Result(expr=ast.Name(id="tmp_result", ctx=ast.Load(), lineno=1, col_offset=0))
    out = sx.run_rule(Inv())
    chk.canary("stub rule that invents the name tmp_result", any(i == "tmp_result" for i, _ in identifiers(out.result)))
    del hc._model_compilers[Inv]
    chk.sample({"entry": "try/full", "identifiers": sorted({i for i, _ in identifiers(structural.emit(catalog.ENTRIES["try/full"], ("E",) * 5)[2].result)})})


def replay(path):
    from hv.replay import replay_file
    return replay_file(path)
